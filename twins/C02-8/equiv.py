"""
Differential test for the C02-8 twin (geometry_util.pixel_coordinates_2d_from / scaled_coordinates_2d_from expressed
through the 1D kernels).

Prints a sha256 digest over the repr (value AND python type, floats via float.hex so every bit counts) of every
result, including the type of any raised exception. Run on the clean tree and on the twin tree: the two digests must
be identical.

    cd /tmp/wt10/C02-8 && PYTHONPATH=/tmp/wt10/C02-8 /venv/bin/python equiv.py
"""
import hashlib
import itertools
import warnings

import numpy as np

warnings.simplefilter("ignore")

import autoarray as aa
from autoarray.geometry import geometry_util as gu

H = hashlib.sha256()
COUNT = [0, 0]
LINES = []  # optional dump (python equiv.py dump.txt) to locate a difference between two trees


def enc(v):
    """Deterministic, type-preserving, bit-exact encoding of a result."""
    if isinstance(v, (tuple, list)):
        return type(v).__name__ + "(" + ",".join(enc(e) for e in v) + ")"
    if isinstance(v, np.ndarray):
        return "nd[%s|%s|%s]" % (v.dtype.str, v.shape, v.tobytes().hex())
    if isinstance(v, (float, np.floating)):
        f = float(v)
        body = "nan" if f != f else f.hex()
        return type(v).__name__ + ":" + body
    return type(v).__name__ + ":" + repr(v)


def record(tag, fn, *args, **kwargs):
    try:
        out = enc(fn(*args, **kwargs))
        COUNT[0] += 1
    except BaseException as e:  # noqa
        out = "EXC:" + type(e).__name__
        COUNT[1] += 1
    H.update((tag + "=" + out + "\n").encode())
    LINES.append(tag + "=" + out)
    return out


rng = np.random.default_rng(20240)

# ---------------------------------------------------------------------------------------------------------------
# 1) util level, well-formed inputs: shapes (square, non-square, 1-pixel), anisotropic scales, unequal origins
# ---------------------------------------------------------------------------------------------------------------

shapes = [(1, 1), (1, 4), (5, 1), (2, 2), (3, 3), (4, 4), (3, 4), (6, 7), (5, 8), (11, 2), (100, 37)]
scales = [(1.0, 1.0), (2.0, 2.0), (0.5, 2.0), (2.4, 1.8), (0.05, 0.05), (0.1, 0.3), (1e-3, 7.0), (3.0, 1e5)]
origins = [
    (0.0, 0.0),
    (1.0, 1.0),
    (3.0, 3.0),
    (1.0, 1.5),
    (1.0, -4.5),
    (-3.0, 2.0),
    (0.0, 2.0),
    (2.0, 0.0),
    (-0.0, 0.0),
    (0.0, -0.0),
    (1e6, -1e-6),
    (0.1, 0.2),
]

for shape, scale, origin in itertools.product(shapes, scales, origins):
    Hn, Wn = shape
    sy, sx = scale
    oy, ox = origin
    tag = "u|%s|%s|%s" % (shape, scale, origin)

    # every pixel (capped), pixel -> scaled -> pixel, plus points in the interior and exactly on pixel edges
    rows = range(Hn) if Hn <= 12 else [0, 1, Hn // 2, Hn - 2, Hn - 1]
    cols = range(Wn) if Wn <= 12 else [0, 1, Wn // 2, Wn - 2, Wn - 1]
    for i in rows:
        for j in cols:
            record(tag + "|s%d,%d" % (i, j), gu.scaled_coordinates_2d_from, (i, j), shape, scale, origin)
            y = oy + ((Hn - 1) / 2.0 - i) * sy
            x = ox + (j - (Wn - 1) / 2.0) * sx
            record(tag + "|p%d,%d" % (i, j), gu.pixel_coordinates_2d_from, (y, x), shape, scale, origin)
            # pixel edges / corners (rounding boundary of int(... + 0.5))
            for fy, fx in ((0.5, 0.5), (-0.5, -0.5), (0.5, -0.5), (0.25, -0.5), (0.4999999, 0.5000001)):
                record(
                    tag + "|e%d,%d,%s,%s" % (i, j, fy, fx),
                    gu.pixel_coordinates_2d_from,
                    (y + fy * sy, x + fx * sx),
                    shape,
                    scale,
                    origin,
                )

    # random coordinates, inside and well outside the extent (negative indices, truncation toward zero)
    for k in range(12):
        y = oy + rng.uniform(-1.5, 1.5) * Hn * sy
        x = ox + rng.uniform(-1.5, 1.5) * Wn * sx
        record(tag + "|r%d" % k, gu.pixel_coordinates_2d_from, (y, x), shape, scale, origin)
        # fractional / negative / out-of-range pixel coordinates
        pc = (rng.uniform(-3, Hn + 3), rng.uniform(-3, Wn + 3))
        record(tag + "|q%d" % k, gu.scaled_coordinates_2d_from, pc, shape, scale, origin)

    # keyword form and default origin
    record(
        tag + "|kw",
        gu.pixel_coordinates_2d_from,
        scaled_coordinates_2d=(oy + 0.3 * sy, ox - 0.7 * sx),
        shape_native=shape,
        pixel_scales=scale,
        origins=origin,
    )
    record(
        tag + "|kws",
        gu.scaled_coordinates_2d_from,
        pixel_coordinates_2d=(0, Wn - 1),
        shape_native=shape,
        pixel_scales=scale,
        origins=origin,
    )
    record(tag + "|def", gu.pixel_coordinates_2d_from, (0.3 * sy, -0.7 * sx), shape, scale)
    record(tag + "|defs", gu.scaled_coordinates_2d_from, (0, Wn - 1), shape, scale)

# ---------------------------------------------------------------------------------------------------------------
# 2) util level, input container / scalar types (lists, ndarrays, numpy scalars, ints, negative scales, ...)
# ---------------------------------------------------------------------------------------------------------------

base = dict(c=(1.3, -2.2), p=(2, 5), shape=(6, 7), scale=(2.4, 1.8), origin=(1.0, -4.5))


def variants(v, integer=False):
    out = [
        tuple(v),
        list(v),
        np.array(v),
        np.array(v, dtype=np.float32),
        tuple(np.float64(e) for e in v),
        tuple(np.float32(e) for e in v),
        tuple(int(e) for e in v),
        tuple(np.int64(int(e)) for e in v),
        np.array([int(e) for e in v]),
        tuple(v) + (9.0,),  # longer than 2: trailing entries must be ignored
        list(v) + [9.0, 8.0],
        np.array(list(v) + [9.0]),
        tuple(-e for e in v),
        (v[0], v[0]),
        (v[1], v[1]),
        (True, False),
    ]
    return out


for name in ("c", "shape", "scale", "origin"):
    for n, var in enumerate(variants(base[name])):
        kw = dict(base)
        kw[name] = var
        record(
            "t|p|%s|%d" % (name, n),
            gu.pixel_coordinates_2d_from,
            kw["c"],
            kw["shape"],
            kw["scale"],
            kw["origin"],
        )
for name in ("p", "shape", "scale", "origin"):
    for n, var in enumerate(variants(base[name])):
        kw = dict(base)
        kw[name] = var
        record(
            "t|s|%s|%d" % (name, n),
            gu.scaled_coordinates_2d_from,
            kw["p"],
            kw["shape"],
            kw["scale"],
            kw["origin"],
        )

# ---------------------------------------------------------------------------------------------------------------
# 3) util level, special values and malformed inputs (one fault at a time): exception TYPES must agree
# ---------------------------------------------------------------------------------------------------------------

nan, inf = float("nan"), float("inf")
special = [0.0, -0.0, nan, inf, -inf, 1e308, -1e308, 5e-324, 1e-300, 1e17, -1e17, 2.0**53]
for pos in (0, 1):
    for s in special:

        def put(t, s=s, pos=pos):
            t = list(t)
            t[pos] = s
            return tuple(t)

        for name in ("c", "scale", "origin"):
            kw = dict(base)
            kw[name] = put(kw[name])
            record(
                "x|p|%s|%d|%r" % (name, pos, s),
                gu.pixel_coordinates_2d_from,
                kw["c"],
                kw["shape"],
                kw["scale"],
                kw["origin"],
            )
        for name in ("p", "scale", "origin"):
            kw = dict(base)
            kw[name] = put(kw[name])
            record(
                "x|s|%s|%d|%r" % (name, pos, s),
                gu.scaled_coordinates_2d_from,
                kw["p"],
                kw["shape"],
                kw["scale"],
                kw["origin"],
            )

malformed = [
    (),
    (1.0,),
    [2.0],
    np.array([3.0]),
    np.array([]),
    1.0,
    3,
    None,
    "ab",
    ("a", "b"),
    (None, None),
    (1.0, None),
    (None, 1.0),
    (1.0, "b"),
    ("a", 1.0),
    {0: 1.0, 1: 2.0},
    np.array([[1.0, 2.0], [3.0, 4.0]]),
    np.array([[1.0], [3.0]]),
    (np.array([1.0]), np.array([2.0])),
    (np.array([1.0, 2.0]), 3.0),
    (3.0, np.array([1.0, 2.0])),
    (1 + 2j, 1.0),
    (1.0, 1 + 2j),
    (0, 0),
    (0.0, 1.0),
    (1.0, 0.0),
]
for n, m in enumerate(malformed):
    for name in ("c", "shape", "scale", "origin"):
        kw = dict(base)
        kw[name] = m
        record(
            "m|p|%s|%d" % (name, n),
            gu.pixel_coordinates_2d_from,
            kw["c"],
            kw["shape"],
            kw["scale"],
            kw["origin"],
        )
    for name in ("p", "shape", "scale", "origin"):
        kw = dict(base)
        kw[name] = m
        record(
            "m|s|%s|%d" % (name, n),
            gu.scaled_coordinates_2d_from,
            kw["p"],
            kw["shape"],
            kw["scale"],
            kw["origin"],
        )

# the 1D kernels and the centre helpers the twin leans on must of course be untouched
for shape1, scale1, origin1, c1 in itertools.product(
    [(1,), (4,), (7,)], [(1.0,), (0.3,)], [(0.0,), (1.5,), (-2.0,)], [-3.3, 0.0, 0.15, 2.0]
):
    record("1d|p", gu.pixel_coordinates_1d_from, (c1,), shape1, scale1, origin1)
    record("1d|s", gu.scaled_coordinates_1d_from, (c1,), shape1, scale1, origin1)
record("1d|pdef", gu.pixel_coordinates_1d_from, (0.4,), (5,), (1.0,))
record("1d|sdef", gu.scaled_coordinates_1d_from, (2,), (5,), (1.0,))

# inputs must not be modified in place
arr_c = np.array([1.3, -2.2])
arr_shape = np.array([6, 7])
arr_scale = np.array([2.4, 1.8])
arr_origin = np.array([1.0, -4.5])
lst_c = [1.3, -2.2]
lst_origin = [1.0, -4.5]
record("alias|p", gu.pixel_coordinates_2d_from, arr_c, arr_shape, arr_scale, arr_origin)
record("alias|s", gu.scaled_coordinates_2d_from, np.array([2, 5]), arr_shape, arr_scale, arr_origin)
record("alias|pl", gu.pixel_coordinates_2d_from, lst_c, (6, 7), [2.4, 1.8], lst_origin)
record("alias|after", lambda: (arr_c, arr_shape, arr_scale, arr_origin, lst_c, lst_origin))

# ---------------------------------------------------------------------------------------------------------------
# 4) class level: Geometry2D / Mask2D.geometry / is_circular / circular_radius / Grid2DIrregular / mask edges
# ---------------------------------------------------------------------------------------------------------------

geom_cases = [
    ((3, 3), (3.0, 3.0), (0.0, 0.0)),
    ((4, 4), (2.0, 2.0), (1.0, 1.0)),
    ((5, 8), (0.5, 2.0), (0.0, 0.0)),
    ((6, 7), (2.4, 1.8), (1.0, -4.5)),
    ((5, 8), (1.0, 1.0), (-3.0, 2.0)),
    ((1, 1), (1.0, 2.0), (0.5, -0.5)),
    ((2, 9), (0.1, 0.1), (10.0, -20.0)),
]
for shape, scale, origin in geom_cases:
    tag = "g|%s|%s|%s" % (shape, scale, origin)
    mask = aa.Mask2D.all_false(shape_native=shape, pixel_scales=scale, origin=origin)
    for geometry, gname in (
        (mask.geometry, "mask"),
        (aa.Geometry2D(shape_native=shape, pixel_scales=scale, origin=origin), "direct"),
    ):
        for i in range(shape[0]):
            for j in range(shape[1]):
                record(tag + gname + "|s", geometry.scaled_coordinates_2d_from, pixel_coordinates_2d=(i, j))
                out = geometry.scaled_coordinates_2d_from(pixel_coordinates_2d=(i, j))
                record(tag + gname + "|p", geometry.pixel_coordinates_2d_from, scaled_coordinates_2d=out)
        for k in range(25):
            q = (
                origin[0] + rng.uniform(-0.8, 0.8) * shape[0] * scale[0],
                origin[1] + rng.uniform(-0.8, 0.8) * shape[1] * scale[1],
            )
            record(tag + gname + "|pr", geometry.pixel_coordinates_2d_from, scaled_coordinates_2d=q)
            record(
                tag + gname + "|centre",
                geometry.scaled_coordinate_2d_to_scaled_at_pixel_centre_from,
                scaled_coordinate_2d=q,
            )

    # Grid2DIrregular.from_pixels_and_mask with list and ndarray pixel inputs
    pixels = [(0, 0), (shape[0] - 1, shape[1] - 1), (0, shape[1] - 1), (shape[0] // 2, shape[1] // 2)]
    record(tag + "|irr_list", lambda: np.array(aa.Grid2DIrregular.from_pixels_and_mask(pixels=pixels, mask=mask)))
    record(
        tag + "|irr_nd",
        lambda: np.array(aa.Grid2DIrregular.from_pixels_and_mask(pixels=np.array(pixels), mask=mask)),
    )
    record(
        tag + "|irr_ndf",
        lambda: np.array(aa.Grid2DIrregular.from_pixels_and_mask(pixels=np.array(pixels) + 0.25, mask=mask)),
    )

# circular masks (centred, off-centre, touching the edges, with unequal-component origins): is_circular and
# circular_radius go through pixel_coordinates_2d_from(mask_centre); repeated calls hit the cached_property.
circ_cases = [
    ((5, 5), 1.0, (0.0, 0.0), 1.5, (0.0, 0.0)),
    ((7, 7), 1.0, (0.0, 0.0), 3.5, (0.0, 0.0)),
    ((9, 12), 0.5, (0.0, 0.0), 1.6, (0.0, 0.0)),
    ((9, 12), 0.5, (1.0, -2.0), 1.6, (1.0, -2.0)),
    ((12, 9), 2.0, (-3.0, 4.0), 5.0, (-3.0, 4.0)),
    ((12, 9), 2.0, (-3.0, 4.0), 5.0, (-1.0, 2.0)),
    ((10, 10), 1.0, (2.0, 2.0), 3.0, (3.0, 1.0)),
    ((10, 10), 1.0, (0.0, 5.0), 30.0, (0.0, 5.0)),  # everything unmasked: mask touches all edges
    ((8, 15), 0.7, (1.3, -0.4), 2.0, (3.0, -4.0)),  # clipped by the upper-left edges
    ((6, 6), 1.0, (0.5, -0.5), 0.2, (0.5, -0.5)),
    ((6, 6), (1.0, 2.0), (0.5, -0.5), 2.0, (0.5, -0.5)),  # anisotropic -> MaskException
]
for n, (shape, scale, origin, radius, centre) in enumerate(circ_cases):
    tag = "c|%d" % n
    try:
        mask = aa.Mask2D.circular(shape_native=shape, pixel_scales=scale, radius=radius, origin=origin, centre=centre)
    except BaseException as e:  # noqa
        record(tag + "|build", lambda: (_ for _ in ()).throw(e))
        continue
    record(tag + "|mask", lambda: np.array(mask))
    record(tag + "|mask_centre", lambda: tuple(mask.mask_centre))
    for rep in range(2):
        record(tag + "|is_circular%d" % rep, lambda: mask.is_circular)
        record(tag + "|circular_radius%d" % rep, lambda: mask.circular_radius)
    record(
        tag + "|pc",
        lambda: mask.geometry.pixel_coordinates_2d_from(scaled_coordinates_2d=mask.mask_centre),
    )

# non-circular / edge masks
for n, (shape, scale, origin) in enumerate(geom_cases):
    m = np.full(shape, True)
    m[0, :] = False
    m[:, -1] = False
    mask = aa.Mask2D(mask=m, pixel_scales=scale, origin=origin)
    record("e|%d|is_circular" % n, lambda: mask.is_circular)
    record("e|%d|circular_radius" % n, lambda: mask.circular_radius)
    record(
        "e|%d|pc" % n,
        lambda: mask.geometry.pixel_coordinates_2d_from(scaled_coordinates_2d=mask.mask_centre),
    )

# over sampling entry point that snaps a centre to a pixel centre
try:
    from autoarray.operators.over_sampling.uniform import OverSamplingUniform

    for n, (shape, scale, origin) in enumerate(geom_cases[1:5]):
        mask = aa.Mask2D.all_false(shape_native=shape, pixel_scales=scale, origin=origin)
        grid = aa.Grid2D.from_mask(mask=mask)
        centre = (origin[0] + 0.3 * scale[0], origin[1] - 0.6 * scale[1])
        record(
            "os|%d" % n,
            lambda: np.array(
                OverSamplingUniform.from_radial_bins(
                    grid=grid,
                    sub_size_list=[4, 2, 1],
                    radial_list=[1.0, 2.5],
                    centre_list=[
                        grid.geometry.scaled_coordinate_2d_to_scaled_at_pixel_centre_from(scaled_coordinate_2d=centre)
                    ],
                ).sub_size
            ),
        )
except ImportError as e:  # pragma: no cover
    H.update(("os|import:" + type(e).__name__).encode())

import sys

if len(sys.argv) > 1:
    with open(sys.argv[1], "w") as f:
        f.write("\n".join(LINES) + "\n")

print("results:", COUNT[0], "exceptions:", COUNT[1])
print("DIGEST", H.hexdigest())
