"""
Differential test for the C04-7 twin (`mapper_util.data_slim_to_pixelization_unique_from`).

Prints a sha256 digest over every result (array dtype / shape / bytes, or the raised exception type).
Run on the clean tree and on the twin tree: the two digests must be identical.

    cd /tmp/wt10/C04-7 && PYTHONPATH=/tmp/wt10/C04-7 /venv/bin/python equiv.py
"""
import hashlib
import sys
import warnings

import numpy as np

warnings.filterwarnings("ignore")

import autoarray as aa
from autoarray.inversion.pixelization.mappers import mapper_util

H = hashlib.sha256()
N_CASES = 0
N_EXC = 0
VERBOSE = "-v" in sys.argv  # per-case running digest, to locate a difference


def feed(obj):
    """Deterministic serialisation of (nested) results into the digest."""
    if isinstance(obj, (tuple, list)):
        H.update(b"seq%d(" % len(obj))
        for o in obj:
            feed(o)
        H.update(b")")
    elif isinstance(obj, np.ndarray):
        a = np.ascontiguousarray(obj)
        H.update(repr((str(a.dtype), a.shape)).encode())
        if a.dtype == object:
            H.update(repr(a.tolist()).encode())
        else:
            H.update(a.tobytes())
    elif isinstance(obj, np.generic):
        feed(np.asarray(obj))
    else:
        H.update(repr(obj).encode())


def record(label, func):
    global N_CASES, N_EXC
    N_CASES += 1
    H.update(label.encode())
    try:
        out = func()
    except Exception as e:  # noqa
        N_EXC += 1
        H.update(("EXC:" + type(e).__name__).encode())
        if VERBOSE:
            print(label, "EXC:" + type(e).__name__)
        return None
    feed(out)
    if VERBOSE:
        print(label, H.hexdigest()[:12])
    return out


# ---------------------------------------------------------------------------------------------------------------
# 1) direct calls of the util with synthetic mappings
# ---------------------------------------------------------------------------------------------------------------


def synthetic(rng, sub_size, pix_pixels, max_interp, extra_rows=0, weights_dtype=float):
    total = int(np.sum(np.asarray(sub_size, dtype=np.int64).ravel() ** 2)) + extra_rows
    total = max(total, 1)
    sizes = rng.integers(1, max_interp + 1, size=total)
    indexes = -1 * np.ones((total, max_interp), dtype=int)
    weights = np.zeros((total, max_interp), dtype=weights_dtype)
    for i in range(total):
        # few distinct pixels -> plenty of repeated (non unique) mappings inside one data pixel
        indexes[i, : sizes[i]] = rng.integers(0, pix_pixels, size=sizes[i])
        w = rng.uniform(0.1, 1.0, size=sizes[i])
        weights[i, : sizes[i]] = w / w.sum()
    return indexes, sizes, weights


def call_util(data_pixels, indexes, sizes, weights, pix_pixels, sub_size):
    args = (indexes.copy(), sizes.copy(), weights.copy())
    sub_in = sub_size.copy() if isinstance(sub_size, np.ndarray) else sub_size
    out = mapper_util.data_slim_to_pixelization_unique_from(
        data_pixels=data_pixels,
        pix_indexes_for_sub_slim_index=args[0],
        pix_sizes_for_sub_slim_index=args[1],
        pix_weights_for_sub_slim_index=args[2],
        pix_pixels=pix_pixels,
        sub_size=sub_in,
    )
    # in-place effects on the inputs (there must be none) are part of the result
    unchanged = (
        np.array_equal(args[0], indexes),
        np.array_equal(args[1], sizes),
        np.array_equal(args[2], weights),
        (not isinstance(sub_size, np.ndarray))
        or (
            sub_in.dtype == sub_size.dtype
            and sub_in.shape == sub_size.shape
            and sub_in.tobytes() == sub_size.tobytes()
        ),
    )
    return out, unchanged


def direct_cases():
    rng = np.random.default_rng(12345)

    sub_size_cases = {
        "uniform1": np.full(7, 1),
        "uniform2": np.full(6, 2),
        "uniform3": np.full(5, 3),
        "notes_trigger": np.array([4, 4, 4, 4, 2, 2, 2, 2, 2, 2, 2, 1, 1, 1, 1, 1, 1, 1, 1]),
        "large_last": np.array([1, 1, 1, 2, 2, 4, 4]),
        "large_middle": np.array([1, 2, 4, 8, 4, 2, 1]),
        "alternating": np.array([1, 3, 1, 3, 1, 3, 2]),
        "single_1": np.array([1]),
        "single_5": np.array([5]),
        "two": np.array([3, 1]),
    }
    for k in range(12):
        n = int(rng.integers(1, 25))
        sub_size_cases[f"random_{k}"] = rng.integers(1, 6, size=n)

    for name, sub_size in sub_size_cases.items():
        for pix_pixels, max_interp in ((1, 1), (3, 1), (4, 3), (9, 4), (40, 3)):
            indexes, sizes, weights = synthetic(rng, sub_size, pix_pixels, max_interp)
            n = len(sub_size)
            for dtype in (np.int64, np.int32, np.int16, np.uint8, np.int8, np.uint64):
                record(
                    f"direct/{name}/{pix_pixels}/{max_interp}/{np.dtype(dtype).name}",
                    lambda: call_util(n, indexes, sizes, weights, pix_pixels, sub_size.astype(dtype)),
                )
            # fewer data pixels than sub_size entries, zero data pixels, too many data pixels
            for dp in (0, 1, n - 1, n + 1, n + 3, -2):
                record(
                    f"direct/{name}/{pix_pixels}/{max_interp}/data_pixels={dp}",
                    lambda: call_util(dp, indexes, sizes, weights, pix_pixels, sub_size),
                )
            # sub-pixel arrays that are too short (IndexError somewhere in the walk)
            if indexes.shape[0] > 2:
                record(
                    f"direct/{name}/{pix_pixels}/{max_interp}/short",
                    lambda: call_util(n, indexes[:-2], sizes[:-2], weights[:-2], pix_pixels, sub_size),
                )
            # sub-pixel arrays that are longer than needed
            indexes_l, sizes_l, weights_l = synthetic(rng, sub_size, pix_pixels, max_interp, extra_rows=5)
            record(
                f"direct/{name}/{pix_pixels}/{max_interp}/long",
                lambda: call_util(n, indexes_l, sizes_l, weights_l, pix_pixels, sub_size),
            )

    # odd `sub_size` containers / dtypes
    sub_size = np.array([2, 1, 3, 1, 2])
    indexes, sizes, weights = synthetic(rng, sub_size, 6, 3)
    odd = {
        "float64": sub_size.astype(float),
        "float32": sub_size.astype(np.float32),
        "object": sub_size.astype(object),
        "bool": np.array([True, True, True, True, True]),
        "column_2d": sub_size.reshape(5, 1),
        "row_2d": sub_size.reshape(1, 5),
        "matrix_2d": np.array([[1, 2], [2, 1], [1, 1]]),
        "zero_d": np.array(2),
        "np_scalar": np.int64(2),
        "py_int": 2,
        "py_float": 2.0,
        "list": [2, 1, 3, 1, 2],
        "tuple": (2, 1, 3, 1, 2),
        "empty": np.array([], dtype=int),
        "with_zero": np.array([2, 0, 3, 1, 2]),
        "negative": np.array([2, -1, 3, 1, 2]),
        "none": None,
    }
    for name, ss in odd.items():
        for dp in (0, 1, 3, 5, 6):
            record(
                f"odd/{name}/data_pixels={dp}",
                lambda: call_util(dp, indexes, sizes, weights, 6, ss),
            )

    # small integer dtypes whose running total / square wraps around (numpy scalar arithmetic)
    for dtype, sub_size in (
        (np.int8, np.array([4, 4, 4, 4, 4, 4, 4, 4, 4, 4])),  # total 160 > 127
        (np.int8, np.array([3, 5, 7, 2, 6, 1, 4])),  # total 140 > 127
        (np.uint8, np.array([8, 8, 8, 8, 4, 2])),  # total 276 > 255
        (np.int8, np.array([2, 12, 1])),  # 12**2 wraps in int8
        (np.uint8, np.array([2, 16, 1])),  # 16**2 == 0 in uint8
        (np.int16, np.full(40, 30)),  # total 36000 > 32767
    ):
        indexes, sizes, weights = synthetic(rng, sub_size, 5, 2)
        for dp in (len(sub_size), len(sub_size) - 1):
            record(
                f"wrap/{np.dtype(dtype).name}/{sub_size.tolist()[:4]}/{dp}",
                lambda: call_util(dp, indexes, sizes, weights, 5, sub_size.astype(dtype)),
            )

    # other dtypes of the mapping arrays
    sub_size = np.array([1, 3, 2, 2, 1, 4])
    indexes, sizes, weights = synthetic(rng, sub_size, 7, 3)
    record(
        "dtypes/int32_indexes",
        lambda: call_util(6, indexes.astype(np.int32), sizes.astype(np.int32), weights.astype(np.float32), 7, sub_size),
    )
    record(
        "dtypes/float_sizes",
        lambda: call_util(6, indexes, sizes.astype(float), weights, 7, sub_size),
    )
    record(
        "dtypes/float_indexes",
        lambda: call_util(6, indexes.astype(float), sizes, weights, 7, sub_size),
    )
    record(
        "dtypes/pix_pixels_too_small",
        lambda: call_util(6, indexes, sizes, weights, 2, sub_size),
    )
    record(
        "dtypes/pix_pixels_zero",
        lambda: call_util(6, indexes, sizes, weights, 0, sub_size),
    )


# ---------------------------------------------------------------------------------------------------------------
# 2) through the mapper / inversion classes
# ---------------------------------------------------------------------------------------------------------------


def make_mask(kind, shape, pixel_scales, origin):
    m = np.ones(shape, dtype=bool)
    if kind == "block":
        m[3:8, 3:7] = False
        m[5, 4] = True
    elif kind == "edges":
        m[:, :] = False
        m[2, 2] = True
        m[-1, 0] = True
    elif kind == "corner":
        m[0:3, 0:2] = False
        m[-2:, -3:] = False
    elif kind == "single":
        m[shape[0] // 2, shape[1] // 2] = False
    elif kind == "row":
        m[1, :] = False
    elif kind == "checker":
        m[1:-1:2, 1:-1:2] = False
        m[2:-1:2, 2:-1:2] = False
    return aa.Mask2D(mask=m, pixel_scales=pixel_scales, origin=origin)


def sub_size_for(kind, n, rng):
    if kind == "uniform1":
        return 1
    if kind == "uniform2":
        return 2
    if kind == "uniform3":
        return 3
    if kind == "desc":
        return np.sort(rng.integers(1, 5, size=n))[::-1].copy()
    if kind == "asc":
        return np.sort(rng.integers(1, 5, size=n))
    if kind == "random":
        return rng.integers(1, 5, size=n)
    if kind == "peak":
        s = np.ones(n, dtype=int)
        s[n // 2] = 6
        return s
    if kind == "notes":
        base = np.array([4, 4, 4, 4, 2, 2, 2, 2, 2, 2, 2, 1, 1, 1, 1, 1, 1, 1, 1])
        return np.resize(base, n)
    raise ValueError(kind)


def make_mapper(mesh_kind, mask, sub_size, rng):
    if isinstance(sub_size, int):
        over_sampler = aa.OverSamplerUniform(mask=mask, sub_size=sub_size)
    else:
        over_sampler = aa.OverSamplerUniform(mask=mask, sub_size=aa.Array2D(values=sub_size, mask=mask))

    grid = np.array(over_sampler.over_sampled_grid)
    grid = grid + 0.04 * rng.normal(size=grid.shape)
    source_plane_data_grid = aa.Grid2DIrregular(values=grid)

    if mesh_kind == "rectangular":
        mesh_grid = aa.Mesh2DRectangular.overlay_grid(grid=source_plane_data_grid, shape_native=(3, 4))
        cls = aa.MapperRectangular
    elif mesh_kind == "delaunay":
        lo = grid.min(axis=0) - 0.1
        hi = grid.max(axis=0) + 0.1
        pts = lo + (hi - lo) * rng.uniform(size=(9, 2))
        mesh_grid = aa.Mesh2DDelaunay(values=pts)
        cls = aa.MapperDelaunay
    elif mesh_kind == "voronoi":
        lo = grid.min(axis=0) - 0.1
        hi = grid.max(axis=0) + 0.1
        pts = lo + (hi - lo) * rng.uniform(size=(9, 2))
        mesh_grid = aa.Mesh2DVoronoi(values=pts)
        cls = aa.MapperVoronoi
    else:
        raise ValueError(mesh_kind)

    mapper_grids = aa.MapperGrids(
        mask=mask,
        source_plane_data_grid=source_plane_data_grid,
        source_plane_mesh_grid=mesh_grid,
    )
    return cls(
        mapper_grids=mapper_grids,
        over_sampler=over_sampler,
        border_relocator=None,
        regularization=aa.reg.Constant(coefficient=1.0),
    )


def mapper_results(mesh_kind, mask_kind, shape, pixel_scales, origin, sub_kind, seed, with_inversion):
    rng = np.random.default_rng(seed)
    mask = make_mask(mask_kind, shape, pixel_scales, origin)

    data = aa.Array2D.no_mask(rng.normal(size=shape), pixel_scales=pixel_scales, origin=origin)
    noise_map = aa.Array2D.no_mask(rng.uniform(0.5, 2.0, size=shape), pixel_scales=pixel_scales, origin=origin)
    kernel = rng.uniform(0.1, 1.0, size=(3, 3))
    kernel[0, 0] = -0.3
    psf = aa.Kernel2D.no_mask(values=kernel, pixel_scales=pixel_scales)
    dataset = aa.Imaging(data=data, noise_map=noise_map, psf=psf)
    dataset = dataset.apply_mask(mask=mask)
    mask = dataset.mask

    sub_size = sub_size_for(sub_kind, mask.pixels_in_mask, rng)
    mapper = make_mapper(mesh_kind, mask, sub_size, rng)

    sub_before = np.array(mapper.over_sampler.sub_size).copy()

    um_1 = mapper.unique_mappings
    um_2 = mapper.unique_mappings  # cached property: same object on the second access
    out = [
        np.array(um_1.data_to_pix_unique),
        np.array(um_1.data_weights),
        np.array(um_1.pix_lengths),
        um_1 is um_2,
        np.array_equal(sub_before, np.array(mapper.over_sampler.sub_size)),
        str(np.array(mapper.over_sampler.sub_size).dtype),
    ]

    # a second, independent mapper on the same over sampler (shared object) gives the same thing
    if with_inversion:
        for use_w_tilde in (False, True):
            inversion = aa.Inversion(
                dataset=dataset,
                linear_obj_list=[mapper],
                settings=aa.SettingsInversion(use_w_tilde=use_w_tilde, use_positive_only_solver=False),
            )
            out.append(np.array(inversion.data_vector))
            out.append(np.array(inversion.curvature_matrix))
            out.append(np.array(inversion.reconstruction))
            out.append(np.array(inversion.mapped_reconstructed_data))
    return out


def class_cases():
    geometries = [
        ("block", (11, 10), (0.3, 0.2), (0.0, 0.0)),
        ("block", (10, 10), (0.1, 0.1), (0.5, -0.3)),
        ("edges", (5, 6), (0.2, 0.4), (0.0, 0.0)),
        ("corner", (7, 9), (0.5, 0.25), (-1.0, 2.0)),
        ("single", (5, 5), (1.0, 1.0), (0.0, 0.0)),
        ("row", (3, 8), (0.3, 0.3), (0.1, 0.1)),
        ("checker", (9, 8), (0.2, 0.3), (0.0, 1.0)),
    ]
    sub_kinds = ["uniform1", "uniform2", "uniform3", "desc", "asc", "random", "peak", "notes"]
    seed = 0
    for mask_kind, shape, pixel_scales, origin in geometries:
        for sub_kind in sub_kinds:
            seed += 1
            with_inversion = mask_kind not in ("single",)
            record(
                f"class/rectangular/{mask_kind}/{shape}/{pixel_scales}/{origin}/{sub_kind}",
                lambda: mapper_results(
                    "rectangular", mask_kind, shape, pixel_scales, origin, sub_kind, seed, with_inversion
                ),
            )
    for mesh_kind in ("delaunay",):
        for mask_kind, shape, pixel_scales, origin in geometries[:4]:
            for sub_kind in ("uniform2", "desc", "random", "notes"):
                seed += 1
                record(
                    f"class/{mesh_kind}/{mask_kind}/{shape}/{pixel_scales}/{origin}/{sub_kind}",
                    lambda: mapper_results(mesh_kind, mask_kind, shape, pixel_scales, origin, sub_kind, seed, False),
                )


if __name__ == "__main__":
    direct_cases()
    class_cases()
    print(f"cases {N_CASES} exceptions {N_EXC}")
    print("digest", H.hexdigest())
    sys.exit(0)
