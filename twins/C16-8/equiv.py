"""
Differential test for the C16-8 twin (Mask2D.from_fits clean-up).

Prints a sha256 digest over every observable result of `Mask2D.from_fits` (values, dtype, shape, memory layout flags,
pixel scales, origin + origin identity, result type, or the raised exception type + message) for a large grid of
inputs. Run on the clean tree and on the twin tree: the two digests must be identical.

    cd /tmp/wt10/C16-8 && PYTHONPATH=/tmp/wt10/C16-8 /venv/bin/python -W ignore equiv.py
"""
import hashlib
import itertools
import logging
import os
import tempfile
import warnings

import numpy as np
from astropy.io import fits
from autoconf import conf

import autoarray as aa

warnings.filterwarnings("ignore")
logging.disable(logging.CRITICAL)

H = hashlib.sha256()
N = [0]
STATS = {}


def feed(*items):
    for item in items:
        H.update(repr(item).encode())
        H.update(b"|")
    N[0] += 1
    if isinstance(items[-1], tuple) and items[-1] and items[-1][0] in ("OK", "EXC"):
        key = (items[0], items[-1][0] if items[-1][0] == "OK" else items[-1][1])
        STATS[key] = STATS.get(key, 0) + 1


def describe(tmp, result):
    if isinstance(result, BaseException):
        return ("EXC", type(result).__name__, str(result).replace(tmp, "<TMP>"))
    arr = np.array(result)
    return (
        "OK",
        type(result).__name__,
        str(arr.dtype),
        arr.shape,
        arr.tobytes(),
        bool(result._array.flags["C_CONTIGUOUS"]),
        bool(result._array.flags["OWNDATA"]),
        bool(result._array.flags["WRITEABLE"]),
        str(result._array.dtype),
        result.shape_native,
        repr(result.pixel_scales),
        type(result.pixel_scales).__name__,
        repr(result.origin),
        type(result.origin).__name__,
        int(result.pixels_in_mask),
    )


def call(tmp, **kwargs):
    try:
        return aa.Mask2D.from_fits(**kwargs)
    except BaseException as e:  # noqa
        return e


def rng_mask(rng, shape, p):
    return rng.random(shape) < p


def main():
    rng = np.random.default_rng(20240916)

    mask_values = [
        np.array([[True]]),
        np.array([[False]]),
        np.array([[True, False, False, True, False]]),
        np.array([[True], [False], [False], [True]]),
        np.array(
            [
                [True, False, False, False, True],
                [False, False, True, False, False],
                [False, True, True, False, True],
            ]
        ),
        np.zeros((4, 4), dtype=bool),
        np.ones((2, 3), dtype=bool),
        rng_mask(rng, (4, 6), 0.5),
        rng_mask(rng, (5, 4), 0.3),
        rng_mask(rng, (6, 6), 0.7),
        rng_mask(rng, (7, 3), 0.5),
        rng_mask(rng, (2, 9), 0.5),
    ]

    resized_shapes = [
        None,
        (1, 1),
        (1, 3),
        (2, 2),
        (3, 3),
        (3, 5),
        (4, 5),
        (5, 7),
        (7, 9),
        (2, 8),
        (8, 2),
        (6, 6),
        (10, 11),
        [5, 6],
        (0, 0),
        (0, 4),
    ]

    inverts = [False, True, 0, 1, None, "yes", ""]

    geometries = [
        (1.0, (0.0, 0.0)),
        ((0.5, 0.5), (1.0, -2.0)),
        ((2.0, 0.25), (-3.5, 4.0)),
        ((0.1, 0.3), [0.5, 0.5]),
    ]

    with tempfile.TemporaryDirectory() as tmp:
        for flip in (False, True):
            conf.instance["general"]["fits"]["flip_for_ds9"] = flip

            # ---------- masks written by the library itself (the round trip) ----------
            for i, values in enumerate(mask_values):
                pixel_scales, origin = geometries[i % len(geometries)]
                mask = aa.Mask2D(mask=values, pixel_scales=pixel_scales, origin=origin)
                file_path = os.path.join(tmp, f"flip_{flip}", f"mask_{i}.fits")
                mask.output_to_fits(file_path=file_path, overwrite=True)

                for invert, shape in itertools.product(inverts, resized_shapes):
                    kwargs = dict(
                        file_path=file_path, pixel_scales=pixel_scales, origin=origin
                    )
                    if invert is not False:
                        kwargs["invert"] = invert
                    if shape is not None:
                        kwargs["resized_mask_shape"] = shape
                    got = call(tmp, **kwargs)
                    feed("lib", flip, i, repr(invert), repr(shape), describe(tmp, got))
                    if not isinstance(got, BaseException):
                        # aliasing of the caller's origin object
                        feed("origin_is", got.origin is origin)
                        # repeated call gives an independent, equal object
                        again = call(tmp, **kwargs)
                        feed(
                            "again",
                            describe(tmp, again),
                            np.shares_memory(got._array, again._array),
                        )
                        # downstream use of the loaded mask
                        if got.shape_native[0] > 0 and got.shape_native[1] > 0:
                            feed(
                                "down",
                                np.array(got.derive_mask.edge).tobytes()
                                if got.pixels_in_mask > 0
                                else "empty",
                                np.array(got.resized_from(new_shape=(3, 4))).tobytes(),
                            )

                # positional / keyword order and all geometry variants on one file
                for pixel_scales_2, origin_2 in geometries:
                    for invert, shape in itertools.product(
                        (False, True), (None, (5, 7), (2, 2), (2, 8))
                    ):
                        got = call(
                            tmp,
                            file_path=file_path,
                            pixel_scales=pixel_scales_2,
                            hdu=0,
                            origin=origin_2,
                            resized_mask_shape=shape,
                            invert=invert,
                        )
                        feed("geom", flip, i, invert, shape, describe(tmp, got))

            # ---------- hand-written files: float / nan / negative / integer content, several HDUs ----------
            raw_arrays = {
                "float": np.array(
                    [[0.0, 2.5, -1.0, 0.0], [np.nan, 0.0, 1e-300, 0.0], [0.0, -0.0, 3.0, np.inf]]
                ),
                "int16": np.array([[0, 1, 2], [3, 0, 0]], dtype="int16"),
                "uint8": np.array([[0, 255], [1, 0], [0, 0]], dtype="uint8"),
                "float32": rng.integers(0, 2, size=(5, 5)).astype("float32"),
                "ndim1": np.array([0.0, 1.0, 0.0, 1.0, 1.0]),
                "ndim3": rng.integers(0, 2, size=(2, 3, 4)).astype("float64"),
                "ndim3_one": np.zeros((1, 3, 4)),
            }
            for name, raw in raw_arrays.items():
                file_path = os.path.join(tmp, f"raw_{flip}_{name}.fits")
                fits.PrimaryHDU(raw).writeto(file_path, overwrite=True)
                for invert, shape in itertools.product(
                    (False, True, np.array([True, False])),
                    (None, (3, 4), (5, 7), (2, 2), (1, 9), (3,), (2, 3, 4), (-1, 2), (2.5, 3), "ab", 4),
                ):
                    got = call(
                        tmp,
                        file_path=file_path,
                        pixel_scales=(0.2, 0.4),
                        origin=(0.3, -0.7),
                        resized_mask_shape=shape,
                        invert=invert,
                    )
                    feed("raw", flip, name, repr(invert), repr(shape), describe(tmp, got))

            # multi-extension file, empty primary HDU
            file_path = os.path.join(tmp, f"multi_{flip}.fits")
            hdul = fits.HDUList(
                [
                    fits.PrimaryHDU(),
                    fits.ImageHDU(rng_mask(rng, (3, 4), 0.5).astype("float64")),
                    fits.ImageHDU(rng_mask(rng, (6, 5), 0.5).astype("int32")),
                    fits.ImageHDU(np.array([1.0, 0.0, 1.0])),
                ]
            )
            hdul.writeto(file_path, overwrite=True)
            for hdu, invert, shape in itertools.product(
                (0, 1, 2, 3, 4), (False, True), (None, (5, 6), (2, 3), (4, 9))
            ):
                got = call(
                    tmp,
                    file_path=file_path,
                    pixel_scales=0.7,
                    hdu=hdu,
                    resized_mask_shape=shape,
                    invert=invert,
                )
                feed("multi", flip, hdu, invert, shape, describe(tmp, got))

            # scaled integer data (BSCALE / BZERO)
            file_path = os.path.join(tmp, f"scaled_{flip}.fits")
            hdu_s = fits.PrimaryHDU(np.array([[0, 1, 2], [1, 0, 1]], dtype="int16"))
            hdu_s.header["BSCALE"] = 2.0
            hdu_s.header["BZERO"] = -2.0
            hdu_s.writeto(file_path, overwrite=True)
            for invert, shape in itertools.product((False, True), (None, (4, 5), (1, 2))):
                got = call(
                    tmp,
                    file_path=file_path,
                    pixel_scales=1.0,
                    resized_mask_shape=shape,
                    invert=invert,
                )
                feed("scaled", flip, invert, shape, describe(tmp, got))

            # ---------- error paths: missing file, bad pixel scales ----------
            good = os.path.join(tmp, f"flip_{flip}", "mask_4.fits")
            for invert, shape in itertools.product((False, True), (None, (5, 7))):
                for kwargs in (
                    dict(file_path=os.path.join(tmp, "missing.fits"), pixel_scales=1.0),
                    dict(file_path=good, pixel_scales=(1.0, 2.0, 3.0)),
                    dict(file_path=good, pixel_scales="x"),
                    dict(file_path=good, pixel_scales=None),
                    dict(file_path=good, pixel_scales=1.0, origin=None),
                    dict(file_path=good, pixel_scales=1, origin=(1, 2)),
                ):
                    got = call(tmp, resized_mask_shape=shape, invert=invert, **kwargs)
                    feed("err", flip, invert, shape, sorted(kwargs)[-1], describe(tmp, got))

            # ---------- neighbouring API that must be untouched ----------
            mask = aa.Mask2D(
                mask=mask_values[4], pixel_scales=(0.5, 0.5), origin=(1.0, -2.0)
            )
            via_hdu = aa.Mask2D.from_primary_hdu(
                primary_hdu=mask.hdu_for_output, origin=(1.0, -2.0)
            )
            feed("hdu", flip, describe(tmp, via_hdu))
            for shape in ((5, 7), (1, 3), (2, 8)):
                for pad in (0.0, 1.0):
                    feed(
                        "resized_from",
                        describe(tmp, mask.resized_from(new_shape=shape, pad_value=pad)),
                    )

    print("cases", N[0])
    for key in sorted(STATS):
        print("  ", key, STATS[key])
    print("digest", H.hexdigest())


if __name__ == "__main__":
    main()
