"""
Differential test for the C05-8 twin (SettingsInversion._bool_setting_from).

Prints a sha256 digest over every observed result (values, identities, exception types).  The digest must be
identical on the clean HEAD tree and on the tree with twin.patch applied.

Run:  cd /tmp/wt10/C05-8 && PYTHONPATH=/tmp/wt10/C05-8 /venv/bin/python -W ignore equiv.py
"""
import copy
import hashlib
import itertools
import logging
import pickle

import numpy as np

logging.disable(logging.CRITICAL)

import autoarray as aa
from autoconf import conf
from autoarray.inversion.inversion.settings import SettingsInversion

H = hashlib.sha256()
N_RECORDS = 0
EXC = {}


def rec(*items):
    global N_RECORDS
    N_RECORDS += 1
    for item in items:
        if isinstance(item, np.ndarray):
            H.update(str(item.dtype).encode() + str(item.shape).encode() + np.ascontiguousarray(item).tobytes())
        else:
            H.update(repr(item).encode())
        H.update(b"|")
    H.update(b"\n")


def call(fn):
    try:
        return ("ok", fn())
    except BaseException as e:  # noqa
        EXC[type(e).__name__] = EXC.get(type(e).__name__, 0) + 1
        return ("exc", type(e).__name__, str(e))


NAMES = ("use_positive_only_solver", "positive_only_uses_p_initial", "use_border_relocator")
section = conf.instance["general"]["inversion"]
PACKAGED = {name: section[name] for name in NAMES}
rec("packaged", sorted(PACKAGED.items()))


class Weird:
    """An object with a falsy truth value and a stable repr."""

    def __bool__(self):
        return False

    def __repr__(self):
        return "Weird()"


class Exploding:
    """Truth value raises: the original code never evaluates bool(value)."""

    def __bool__(self):
        raise RuntimeError("bool() must not be called")

    def __repr__(self):
        return "Exploding()"


VALUES = [
    None, True, False, 0, 1, 2, -1, 0.0, 0.5, "", "False", "x", [], [0], (), {}, np.bool_(False), np.bool_(True),
    np.float64(0.0), np.int64(0), np.zeros(0), np.array([False, True]), np.nan, Weird(), Exploding(),
]
CONFIG_VALUES = [True, False, None, 0, 1, "cfg", []]

# ---- part 1: the three properties, every input value x every config default -------------------------------
for name in NAMES:
    for cfg in CONFIG_VALUES:
        section[name] = cfg
        for value in VALUES:
            settings = SettingsInversion(**{name: value})
            out = call(lambda: getattr(settings, name))
            rec("p1", name, cfg, value, out[0], out[1:] if out[0] == "exc" else None)
            if out[0] == "ok":
                res = out[1]
                # identity: the input object itself (or the config object itself) is returned, never a coerced copy
                rec("p1-id", type(res).__name__, res is value, res is cfg, res is section[name])
                rec("p1-repr", res)
            # reading a property twice / reading the other two does not change anything
            for other in NAMES:
                o2 = call(lambda: getattr(settings, other))
                rec("p1-other", other, o2[0], o2[1] if o2[0] == "ok" else o2[1:])
            rec("p1-vars", sorted(k for k in vars(settings)))
            rec("p1-private", getattr(settings, "_" + name) is value)
    section[name] = PACKAGED[name]

# ---- part 2: positional construction, mutation after construction, copies, pickles, subclasses ------------
for cfg_triplet in itertools.product([True, False], repeat=3):
    for name, cfg in zip(NAMES, cfg_triplet):
        section[name] = cfg
    for triplet in itertools.product([None, True, False], repeat=3):
        settings = SettingsInversion(True, *triplet)
        rec("p2", cfg_triplet, triplet, [getattr(settings, n) for n in NAMES])
        for clone in (copy.copy(settings), copy.deepcopy(settings), pickle.loads(pickle.dumps(settings))):
            rec("p2-clone", [getattr(clone, n) for n in NAMES])
        # private attribute re-assigned after construction (the property reads it lazily)
        for name in NAMES:
            for new in (None, False, True):
                setattr(settings, "_" + name, new)
                rec("p2-set", name, new, [getattr(settings, n) for n in NAMES])
        # config changed after construction (lazy read of the config, only when the input was None)
        settings = SettingsInversion(True, *triplet)
        for name in NAMES:
            section[name] = not section[name]
        rec("p2-lazy", [getattr(settings, n) for n in NAMES])
        for name, cfg in zip(NAMES, cfg_triplet):
            section[name] = cfg


class SubSettings(SettingsInversion):
    @property
    def use_border_relocator(self):
        return "overridden"


for cfg in (True, False):
    for name in NAMES:
        section[name] = cfg
    for value in (None, True, False):
        s = SubSettings(use_positive_only_solver=value, positive_only_uses_p_initial=value, use_border_relocator=value)
        rec("p2-sub", cfg, value, [getattr(s, n) for n in NAMES])

# properties stay read-only
s = SettingsInversion()
for name in NAMES:
    out = call(lambda: setattr(s, name, False))
    rec("p2-readonly", name, out[0], out[1] if out[0] == "exc" else None)

# ---- part 3: config key missing -> KeyError only when the input is None ------------------------------------
for name in NAMES:
    saved = section[name]
    removed = call(lambda: section._dict.pop(name))
    rec("p3-removed", name, removed[0])
    for value in (None, False, True, 0, ""):
        out = call(lambda: getattr(SettingsInversion(**{name: value}), name))
        rec("p3", name, value, out[0], out[1] if out[0] == "exc" else out[1])
    section[name] = saved

# the numeric setting next to them (untouched by the refactoring)
for cfg in (0.001, 0.0, 5.0):
    saved = section["no_regularization_add_to_curvature_diag_value"]
    section["no_regularization_add_to_curvature_diag_value"] = cfg
    for value in (None, False, 0, 0.0, 1.0e-4, True):
        s = SettingsInversion(no_regularization_add_to_curvature_diag_value=value)
        rec("p3-num", cfg, value, s.no_regularization_add_to_curvature_diag_value)
    section["no_regularization_add_to_curvature_diag_value"] = saved

for name in NAMES:
    section[name] = PACKAGED[name]

# ---- part 4: end to end, the solver really used by aa.Inversion --------------------------------------------
mask_circ = aa.Mask2D.circular(shape_native=(9, 9), pixel_scales=1.0, radius=3.6)
mask_rect = aa.Mask2D.circular(shape_native=(8, 11), pixel_scales=(1.0, 0.7), radius=2.9, centre=(0.3, -0.4))


def inversion_from(seed, mask, mean, use_w_tilde, mesh_shape, n_mappers=1, **solver_settings):
    rng = np.random.default_rng(seed)
    shape = mask.shape_native
    pixel_scales = mask.pixel_scales

    data = aa.Array2D.no_mask(mean + rng.normal(size=shape), pixel_scales=pixel_scales)
    noise_map = aa.Array2D.no_mask(0.5 + rng.random(shape), pixel_scales=pixel_scales)
    psf = aa.Kernel2D.from_gaussian(shape_native=(3, 3), pixel_scales=pixel_scales, sigma=0.8, normalize=True)

    dataset = aa.Imaging(
        data=data,
        noise_map=noise_map,
        psf=psf,
        over_sampling=aa.OverSamplingDataset(uniform=aa.OverSamplingUniform(sub_size=1)),
    ).apply_mask(mask=mask)

    over_sampler = aa.OverSamplerUniform(mask=mask, sub_size=1)
    grid = over_sampler.over_sampled_grid

    mappers = []
    for i in range(n_mappers):
        shape_i = (mesh_shape[0] + i, mesh_shape[1])
        mesh_grid = aa.Mesh2DRectangular.overlay_grid(grid=grid, shape_native=shape_i)
        mapper_grids = aa.MapperGrids(mask=mask, source_plane_data_grid=grid, source_plane_mesh_grid=mesh_grid)
        mappers.append(
            aa.MapperRectangular(
                mapper_grids=mapper_grids,
                over_sampler=over_sampler,
                border_relocator=None,
                regularization=aa.reg.Constant(coefficient=1.0 + i),
            )
        )

    return aa.Inversion(
        dataset=dataset,
        linear_obj_list=mappers,
        settings=aa.SettingsInversion(use_w_tilde=use_w_tilde, force_edge_pixels_to_zeros=False, **solver_settings),
    )


def record_inversion(tag, inv):
    out = call(lambda: np.array(inv.reconstruction))
    if out[0] == "exc":
        rec(tag, "exc", out[1])
        return
    s = out[1]
    rec(tag, "s", np.round(s, 9))
    rec(tag, "min>=0", bool(s.min() >= 0.0))
    out = call(lambda: np.array(inv.mapped_reconstructed_data))
    rec(tag, "model", np.round(out[1], 9) if out[0] == "ok" else out[1])
    rec(tag, "settings", [getattr(inv.settings, n) for n in NAMES])


SOLVER_SETTINGS = [
    {},
    {"use_positive_only_solver": False},
    {"use_positive_only_solver": True},
    {"use_positive_only_solver": True, "positive_only_uses_p_initial": False},
    {"use_positive_only_solver": True, "positive_only_uses_p_initial": True},
    {"use_positive_only_solver": False, "positive_only_uses_p_initial": False},
    {"positive_only_uses_p_initial": False},
    {"use_positive_only_solver": 0},
    {"use_positive_only_solver": False, "use_border_relocator": False},
]

for cfg_pair in itertools.product([True, False], repeat=2):
    section["use_positive_only_solver"], section["positive_only_uses_p_initial"] = cfg_pair
    for seed, (mask, mesh_shape, n_mappers), mean, use_w_tilde in itertools.product(
        range(2), [(mask_circ, (4, 4), 1), (mask_rect, (3, 5), 2)], (0.0, 3.0), (False, True)
    ):
        for kw in SOLVER_SETTINGS:
            tag = ("p4", cfg_pair, seed, mask.shape_native, mean, use_w_tilde, sorted(kw.items()))
            inv = call(lambda: inversion_from(seed, mask, mean, use_w_tilde, mesh_shape, n_mappers, **kw))
            if inv[0] == "exc":
                rec(tag, "exc", inv[1])
                continue
            record_inversion(tag, inv[1])

for name in NAMES:
    section[name] = PACKAGED[name]

# a settings object shared between two inversions, read before and after
shared = aa.SettingsInversion(use_w_tilde=False, force_edge_pixels_to_zeros=False, use_positive_only_solver=False)
before = [getattr(shared, n) for n in NAMES]
inv = inversion_from(5, mask_circ, 0.0, False, (4, 4), use_positive_only_solver=False)
inv.settings = shared
record_inversion("p4-shared", inv)
rec("p4-shared", before, [getattr(shared, n) for n in NAMES], sorted(vars(shared)))

print(f"records {N_RECORDS} exceptions {sorted(EXC.items())}")
print(H.hexdigest())
