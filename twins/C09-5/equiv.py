"""
Differential test for the C09-5 twin (memoised `OverSamplingUniform.over_sampler_from`).

Prints a sha256 digest over every result (values, shapes, dtypes, exception types, identity facts which the
unmodified code guarantees).  The digest must be identical on the clean HEAD tree and on the twin tree.

Run:  cd /tmp/wt8/C09-5 && PYTHONPATH=/tmp/wt8/C09-5 /venv/bin/python -W ignore equiv.py
"""
import copy
import hashlib
import os
import pickle
import sys

import numpy as np

import autoarray as aa
from autoarray.operators.over_sampling.uniform import OverSamplerUniform

H = hashlib.sha256()
N_RECORDS = [0]


def rec(tag, value):
    N_RECORDS[0] += 1
    H.update(("#" + tag + "=").encode())
    if isinstance(value, Exception):
        H.update(("EXC:" + type(value).__name__).encode())
        if os.environ.get("EQUIV_VERBOSE"):
            print("EXC", tag, type(value).__name__, str(value).strip()[:80].replace("\n", " "))
        return
    if isinstance(value, (bool, int, float, str, type(None))):
        H.update(repr(value).encode())
        return
    if isinstance(value, (tuple, list)) and not any(hasattr(v, "shape") for v in value):
        H.update(repr(value).encode())
        return
    arr = np.array(value)
    H.update((type(value).__name__ + str(arr.dtype) + str(arr.shape)).encode())
    H.update(np.ascontiguousarray(arr).tobytes())


def attempt(tag, func):
    try:
        value = func()
    except Exception as e:  # noqa
        rec(tag, e)
        return None
    rec(tag, value)
    return value


class Profile:
    centre = (0.0, 0.0)

    @aa.over_sample
    def affine_from(obj, grid, *args, **kwargs):
        grid = np.array(grid)
        return 1.0 + 0.5 * grid[:, 0] - 0.25 * grid[:, 1]

    @aa.over_sample
    def bump_from(obj, grid, *args, **kwargs):
        grid = np.array(grid)
        return np.exp(-((grid[:, 0] - 0.2) ** 2 + 0.5 * (grid[:, 1] + 0.1) ** 2))


PROFILE = Profile()


def sampler_report(tag, sampler, mask=None, sub_size_src=None):
    """Everything observable (by value) on an over sampler."""
    rec(tag + ".type", type(sampler).__name__)
    if mask is not None:
        rec(tag + ".mask_is", sampler.mask is mask)
    if sub_size_src is not None and not isinstance(sub_size_src, int):
        rec(tag + ".sub_size_is", sampler.sub_size is sub_size_src)
    attempt(tag + ".mask", lambda: np.array(sampler.mask))
    attempt(tag + ".mask.ps", lambda: repr(sampler.mask.pixel_scales))
    attempt(tag + ".mask.origin", lambda: repr(sampler.mask.origin))
    attempt(tag + ".sub_size", lambda: sampler.sub_size)
    attempt(tag + ".sub_size.mask_is", lambda: sampler.sub_size.mask is sampler.mask)
    attempt(tag + ".sub_total", lambda: sampler.sub_total)
    attempt(tag + ".sub_length", lambda: sampler.sub_length)
    attempt(tag + ".sub_fraction", lambda: sampler.sub_fraction)
    attempt(tag + ".sub_pixel_areas", lambda: sampler.sub_pixel_areas)
    attempt(tag + ".over_sampled_grid", lambda: sampler.over_sampled_grid)
    attempt(tag + ".native_for_slim", lambda: sampler.sub_mask_native_for_sub_mask_slim)
    attempt(tag + ".slim_for_sub_slim", lambda: sampler.slim_for_sub_slim)

    def binned():
        values = np.arange(sampler.sub_total, dtype="float") ** 1.5
        out = sampler.binned_array_2d_from(array=values)
        rec(tag + ".binned.mask_is", out.mask is sampler.mask)
        rec(tag + ".binned.native", out.native)
        return out

    attempt(tag + ".binned", binned)

    def via_func():
        out = sampler.array_via_func_from(
            func=lambda g: np.sin(np.array(g)[:, 0]) + np.array(g)[:, 1] ** 2, obj=None
        )
        rec(tag + ".via_func.ps", repr(out.pixel_scales))
        rec(tag + ".via_func.origin", repr(out.origin))
        return out

    attempt(tag + ".via_func", via_func)


def grid_report(tag, grid):
    attempt(tag + ".grid", lambda: grid)
    sampler = attempt_obj(tag + ".over_sampler", lambda: grid.over_sampler)
    if sampler is not None:
        sampler_report(tag + ".os", sampler, mask=grid.mask, sub_size_src=None)
    attempt(tag + ".affine", lambda: PROFILE.affine_from(grid))
    attempt(tag + ".bump", lambda: PROFILE.bump_from(grid))
    attempt(tag + ".affine.native", lambda: PROFILE.affine_from(grid).native)


def attempt_obj(tag, func):
    try:
        value = func()
    except Exception as e:  # noqa
        rec(tag, e)
        return None
    rec(tag, "ok")
    return value


# ---------------------------------------------------------------------------------------------------------------
# inputs
# ---------------------------------------------------------------------------------------------------------------

rng = np.random.RandomState(1234)

PATTERNS = {
    "demo3x4": np.array(
        [[True, False, False, True], [False, False, False, False], [True, False, True, False]]
    ),
    "full2x5": np.zeros((2, 5), dtype=bool),
    "single1x1": np.zeros((1, 1), dtype=bool),
    "single_in_3x3": np.array([[True, True, True], [True, False, True], [True, True, True]]),
    "empty3x2": np.ones((3, 2), dtype=bool),
    "edge5x3": np.array(
        [
            [False, True, False],
            [True, True, True],
            [False, False, False],
            [True, False, True],
            [False, True, False],
        ]
    ),
    "rand6x7": rng.rand(6, 7) > 0.6,
    "rand7x4": rng.rand(7, 4) > 0.3,
}

GEOMETRIES = [
    ((1.0, 1.0), (0.0, 0.0)),
    ((0.5, 2.0), (0.3, -0.2)),
    ((1.0, 1.0), (0.3, -0.2)),
    ((2.0, 1.0), (0.0, 0.0)),
    ((1.0, 1.0), (0.0, -0.0)),
    ((0.1, 0.1), (-5.0, 7.5)),
]

SUB_SIZES = [1, 2, 3, 4]


def mask_from(pattern, geometry):
    return aa.Mask2D(mask=pattern.copy(), pixel_scales=geometry[0], origin=geometry[1])


# ---------------------------------------------------------------------------------------------------------------
# 1) one shared OverSamplingUniform, many masks: same pattern / different geometry (the trigger of the seed),
#    different patterns, going back and forth, equal-but-distinct mask objects, repeated calls on one mask object.
# ---------------------------------------------------------------------------------------------------------------

for sub in SUB_SIZES:
    shared = aa.OverSamplingUniform(sub_size=sub)
    for pname, pattern in PATTERNS.items():
        for gi, geometry in enumerate(GEOMETRIES):
            tag = f"1.s{sub}.{pname}.g{gi}"
            mask = mask_from(pattern, geometry)
            s1 = attempt_obj(tag + ".call1", lambda: shared.over_sampler_from(mask=mask))
            if s1 is not None:
                sampler_report(tag + ".s1", s1, mask=mask, sub_size_src=sub)
            s2 = attempt_obj(tag + ".call2", lambda: shared.over_sampler_from(mask=mask))
            if s2 is not None:
                sampler_report(tag + ".s2", s2, mask=mask, sub_size_src=sub)
            # equal but distinct mask object
            mask_b = mask_from(pattern, geometry)
            s3 = attempt_obj(tag + ".call3", lambda: shared.over_sampler_from(mask=mask_b))
            if s3 is not None:
                sampler_report(tag + ".s3", s3, mask=mask_b, sub_size_src=sub)
    # back and forth between two geometries of the same pattern, twice
    ma = mask_from(PATTERNS["demo3x4"], GEOMETRIES[0])
    mb = mask_from(PATTERNS["demo3x4"], GEOMETRIES[1])
    for k, m in enumerate([ma, mb, ma, mb, mb, ma]):
        sampler_report(f"1.s{sub}.pingpong{k}", shared.over_sampler_from(mask=m), mask=m)


# ---------------------------------------------------------------------------------------------------------------
# 2) through Grid2D and the decorator (demo scenario and permutations of the order), grid.slim / grid.native,
#    grids built in different ways sharing one over sampling object.
# ---------------------------------------------------------------------------------------------------------------

for sub in [1, 2, 3]:
    for order in [(0, 1, 2, 3), (1, 0, 3, 2), (3, 2, 1, 0), (1, 1, 0, 0)]:
        shared = aa.OverSamplingUniform(sub_size=sub)
        for pname in ["demo3x4", "edge5x3", "single1x1", "rand6x7"]:
            for gi in order:
                tag = f"2.s{sub}.{''.join(map(str, order))}.{pname}.g{gi}"
                mask = mask_from(PATTERNS[pname], GEOMETRIES[gi])
                grid = aa.Grid2D.from_mask(mask=mask, over_sampling=shared)
                grid_report(tag, grid)
                grid_report(tag + ".slim", grid.slim)
                grid_report(tag + ".native", grid.native)

shared = aa.OverSamplingUniform(sub_size=2)
grids = [
    aa.Grid2D.uniform(shape_native=(3, 4), pixel_scales=1.0, over_sampling=shared),
    aa.Grid2D.uniform(shape_native=(3, 4), pixel_scales=(0.5, 2.0), origin=(0.3, -0.2), over_sampling=shared),
    aa.Grid2D.uniform(shape_native=(3, 4), pixel_scales=1.0, origin=(1.0, 1.0), over_sampling=shared),
    aa.Grid2D.uniform(shape_native=(4, 3), pixel_scales=1.0, over_sampling=shared),
    aa.Grid2D.no_mask(
        values=np.arange(24.0).reshape(3, 4, 2), pixel_scales=(2.0, 3.0), origin=(0.5, 0.5), over_sampling=shared
    ),
]
for k, grid in enumerate(grids + grids[::-1]):
    grid_report(f"2b.{k}", grid)


# ---------------------------------------------------------------------------------------------------------------
# 3) sub_size of the shared over sampling object is re-assigned between calls (int -> int, int -> Array2D, ...)
# ---------------------------------------------------------------------------------------------------------------

mask = mask_from(PATTERNS["demo3x4"], GEOMETRIES[1])
shared = aa.OverSamplingUniform(sub_size=2)
sampler_report("3.a", shared.over_sampler_from(mask=mask), mask=mask)
shared.sub_size = 3
sampler_report("3.b", shared.over_sampler_from(mask=mask), mask=mask)
shared.sub_size = 2
sampler_report("3.c", shared.over_sampler_from(mask=mask), mask=mask)
shared.sub_size = True
sampler_report("3.d", shared.over_sampler_from(mask=mask), mask=mask)
shared.sub_size = 1
sampler_report("3.e", shared.over_sampler_from(mask=mask), mask=mask)
adaptive = aa.Array2D(values=[1, 2, 3, 1, 2, 3, 1, 2], mask=mask)
shared.sub_size = adaptive
sampler_report("3.f", shared.over_sampler_from(mask=mask), mask=mask, sub_size_src=adaptive)
adaptive_equal = aa.Array2D(values=[1, 2, 3, 1, 2, 3, 1, 2], mask=mask_from(PATTERNS["demo3x4"], GEOMETRIES[0]))
shared.sub_size = adaptive_equal
sampler_report("3.g", shared.over_sampler_from(mask=mask), mask=mask, sub_size_src=adaptive_equal)
for bad in [2.0, np.int64(2), "2", None, 0, -1]:
    shared.sub_size = bad
    s = attempt_obj(f"3.bad.{bad!r}", lambda: shared.over_sampler_from(mask=mask))
    if s is not None:
        sampler_report(f"3.bad.{bad!r}.s", s, mask=mask)


# ---------------------------------------------------------------------------------------------------------------
# 4) adaptive (Array2D) sub_size, shared by several masks; in-place changes of the sub_size array between calls
# ---------------------------------------------------------------------------------------------------------------

for gi, geometry in enumerate(GEOMETRIES[:4]):
    mask0 = mask_from(PATTERNS["edge5x3"], GEOMETRIES[0])
    adaptive = aa.Array2D(values=[1, 2, 3, 4, 1, 2, 3, 4], mask=mask0)
    shared = aa.OverSamplingUniform(sub_size=adaptive)
    mask = mask_from(PATTERNS["edge5x3"], geometry)
    sampler_report(f"4.g{gi}.a", shared.over_sampler_from(mask=mask0), mask=mask0, sub_size_src=adaptive)
    sampler_report(f"4.g{gi}.b", shared.over_sampler_from(mask=mask), mask=mask, sub_size_src=adaptive)
    sampler_report(f"4.g{gi}.c", shared.over_sampler_from(mask=mask), mask=mask, sub_size_src=adaptive)
    adaptive._array[2] = 1
    adaptive._array[0] = 4
    sampler_report(f"4.g{gi}.d", shared.over_sampler_from(mask=mask), mask=mask, sub_size_src=adaptive)
    grid = aa.Grid2D.from_mask(mask=mask, over_sampling=shared)
    grid_report(f"4.g{gi}.grid", grid)
    adaptive._array[:] = 2
    grid2 = aa.Grid2D.from_mask(mask=mask, over_sampling=shared)
    grid_report(f"4.g{gi}.grid2", grid2)
    grid_report(f"4.g{gi}.grid_again", grid)
    # mask of a different pattern with an adaptive array which does not fit it, and `None` as a mask
    other = mask_from(PATTERNS["demo3x4"], geometry)
    s = attempt_obj(f"4.g{gi}.misfit", lambda: shared.over_sampler_from(mask=other))
    if s is not None:
        sampler_report(f"4.g{gi}.misfit.s", s, mask=other, sub_size_src=adaptive)
    s = attempt_obj(f"4.g{gi}.none", lambda: shared.over_sampler_from(mask=None))
    if s is not None:
        rec(f"4.g{gi}.none.mask", s.mask is None)
        rec(f"4.g{gi}.none.sub", s.sub_size is adaptive)
    s = attempt_obj(f"4.g{gi}.none2", lambda: shared.over_sampler_from(mask=None))
    if s is not None:
        rec(f"4.g{gi}.none2.mask", s.mask is None)

shared_int = aa.OverSamplingUniform(sub_size=2)
for bad_mask in [None, np.zeros((2, 2), dtype=bool), [[False]], "mask"]:
    attempt_obj(f"4.badmask.{type(bad_mask).__name__}", lambda: shared_int.over_sampler_from(mask=bad_mask))
    attempt_obj(f"4.badmask2.{type(bad_mask).__name__}", lambda: shared_int.over_sampler_from(mask=bad_mask))
m_ok = mask_from(PATTERNS["full2x5"], GEOMETRIES[3])
sampler_report("4.after_bad", shared_int.over_sampler_from(mask=m_ok), mask=m_ok)
attempt_obj("4.plain_ndarray_after_ok", lambda: shared_int.over_sampler_from(mask=np.zeros((2, 5), dtype=bool)))
attempt_obj("4.none_after_ok", lambda: shared_int.over_sampler_from(mask=None))


# ---------------------------------------------------------------------------------------------------------------
# 5) one mask OBJECT changed in place between calls (values, pixel scales, origin, a mutable origin list)
# ---------------------------------------------------------------------------------------------------------------

for sub in [1, 2, 3]:
    shared = aa.OverSamplingUniform(sub_size=sub)
    mask = mask_from(PATTERNS["rand6x7"], GEOMETRIES[0])
    sampler_report(f"5.s{sub}.a", shared.over_sampler_from(mask=mask), mask=mask)
    mask.pixel_scales = (0.5, 2.0)
    sampler_report(f"5.s{sub}.b", shared.over_sampler_from(mask=mask), mask=mask)
    mask.origin = (0.3, -0.2)
    sampler_report(f"5.s{sub}.c", shared.over_sampler_from(mask=mask), mask=mask)
    mask._array[0, 0] = not mask._array[0, 0]
    mask._array[3, 3] = not mask._array[3, 3]
    sampler_report(f"5.s{sub}.d", shared.over_sampler_from(mask=mask), mask=mask)
    mask._array = PATTERNS["rand7x4"].copy()
    sampler_report(f"5.s{sub}.e", shared.over_sampler_from(mask=mask), mask=mask)
    mask._array = PATTERNS["rand7x4"].copy().T.copy().T  # same values
    sampler_report(f"5.s{sub}.f", shared.over_sampler_from(mask=mask), mask=mask)
    mask._array = PATTERNS["rand7x4"].copy().reshape(4, 7)  # same bytes, other shape
    sampler_report(f"5.s{sub}.g", shared.over_sampler_from(mask=mask), mask=mask)
    origin = [0.0, 0.0]
    mask_l = aa.Mask2D(mask=PATTERNS["demo3x4"].copy(), pixel_scales=(1.0, 2.0), origin=origin)
    sampler_report(f"5.s{sub}.h", shared.over_sampler_from(mask=mask_l), mask=mask_l)
    origin[0] = 1.5
    sampler_report(f"5.s{sub}.i", shared.over_sampler_from(mask=mask_l), mask=mask_l)
    mask_l.origin = (1.5, -0.0)
    sampler_report(f"5.s{sub}.j", shared.over_sampler_from(mask=mask_l), mask=mask_l)
    mask_l.origin = (1.5, 0.0)
    sampler_report(f"5.s{sub}.k", shared.over_sampler_from(mask=mask_l), mask=mask_l)
    # the sampler itself is pointed to another mask by the caller, then the original mask is requested again
    s = shared.over_sampler_from(mask=mask_l)
    s.mask = mask_from(PATTERNS["demo3x4"], GEOMETRIES[1])
    sampler_report(f"5.s{sub}.l", shared.over_sampler_from(mask=mask_l), mask=mask_l)


# ---------------------------------------------------------------------------------------------------------------
# 6) class method constructors, copies and pickles of the over sampling object, datasets sharing the object
# ---------------------------------------------------------------------------------------------------------------

grid_a = aa.Grid2D.from_mask(mask=mask_from(PATTERNS["rand6x7"], GEOMETRIES[0]))
grid_b = aa.Grid2D.from_mask(mask=mask_from(PATTERNS["rand6x7"], GEOMETRIES[1]))

os_radial = attempt_obj(
    "6.radial",
    lambda: aa.OverSamplingUniform.from_radial_bins(
        grid=grid_a, sub_size_list=[4, 2, 1], radial_list=[1.0, 2.0], centre_list=[(0.0, 0.0)]
    ),
)
if os_radial is not None:
    for k, g in enumerate([grid_a, grid_b, grid_a]):
        sampler_report(f"6.radial.{k}", os_radial.over_sampler_from(mask=g.mask), mask=g.mask)

os_adapt = attempt_obj(
    "6.adaptive",
    lambda: aa.OverSamplingUniform.from_adaptive_scheme(grid=grid_a, name="PlotExample", centre=(0.0, 0.0)),
)
if os_adapt is not None:
    for k, g in enumerate([grid_a, grid_b, grid_a]):
        sampler_report(f"6.adaptive.{k}", os_adapt.over_sampler_from(mask=g.mask), mask=g.mask)

shared = aa.OverSamplingUniform(sub_size=3)
mask_1 = mask_from(PATTERNS["demo3x4"], GEOMETRIES[0])
mask_2 = mask_from(PATTERNS["demo3x4"], GEOMETRIES[1])
sampler_report("6.copy.0", shared.over_sampler_from(mask=mask_1), mask=mask_1)
for name, clone in [
    ("copy", copy.copy(shared)),
    ("deepcopy", copy.deepcopy(shared)),
    ("pickle", pickle.loads(pickle.dumps(shared))),
]:
    rec(f"6.{name}.sub_size", clone.sub_size)
    sampler_report(f"6.{name}.1", clone.over_sampler_from(mask=mask_2), mask=mask_2)
    sampler_report(f"6.{name}.2", clone.over_sampler_from(mask=mask_1), mask=mask_1)
    sampler_report(f"6.{name}.3", shared.over_sampler_from(mask=mask_2), mask=mask_2)
    sampler_report(f"6.{name}.4", shared.over_sampler_from(mask=mask_1), mask=mask_1)

# object created without running __init__ (e.g. an old pickle)
raw = aa.OverSamplingUniform.__new__(aa.OverSamplingUniform)
raw.sub_size = 2
sampler_report("6.raw.1", raw.over_sampler_from(mask=mask_2), mask=mask_2)
sampler_report("6.raw.2", raw.over_sampler_from(mask=mask_1), mask=mask_1)

# two "bands" of a dataset sharing one over sampling object
try:
    shared_u = aa.OverSamplingUniform(sub_size=2)
    shared_p = aa.OverSamplingUniform(sub_size=3)
    over_sampling = aa.OverSamplingDataset(uniform=shared_u, non_uniform=shared_u, pixelization=shared_p)
    for k, geometry in enumerate([GEOMETRIES[0], GEOMETRIES[1], GEOMETRIES[0]]):
        mask = mask_from(PATTERNS["rand6x7"], geometry)
        data = aa.Array2D.no_mask(
            values=np.arange(42.0).reshape(6, 7), pixel_scales=geometry[0], origin=geometry[1]
        )
        noise = aa.Array2D.no_mask(
            values=np.ones((6, 7)), pixel_scales=geometry[0], origin=geometry[1]
        )
        dataset = aa.Imaging(data=data, noise_map=noise, over_sampling=over_sampling)
        dataset = dataset.apply_mask(mask=mask)
        tag = f"6.dataset.{k}"
        grid_report(tag + ".uniform", dataset.grids.uniform)
        grid_report(tag + ".non_uniform", dataset.grids.non_uniform)
        grid_report(tag + ".pixelization", dataset.grids.pixelization)
        sampler_report(tag + ".osnu", dataset.grids.over_sampler_non_uniform, mask=dataset.mask)
        sampler_report(tag + ".osp", dataset.grids.over_sampler_pixelization, mask=dataset.mask)
except Exception as e:  # noqa
    rec("6.dataset.exc", e)


# ---------------------------------------------------------------------------------------------------------------
# 7) randomised sequences of requests on one shared object
# ---------------------------------------------------------------------------------------------------------------

rng = np.random.RandomState(99)
pnames = sorted(PATTERNS)
for trial in range(12):
    shared = aa.OverSamplingUniform(sub_size=int(rng.randint(1, 4)))
    pool = []
    for _ in range(5):
        pname = pnames[rng.randint(len(pnames))]
        geometry = GEOMETRIES[rng.randint(len(GEOMETRIES))]
        pool.append(mask_from(PATTERNS[pname], geometry))
    for step in range(14):
        action = rng.randint(6)
        mask = pool[rng.randint(len(pool))]
        tag = f"7.{trial}.{step}"
        if action == 0:
            shared.sub_size = int(rng.randint(1, 4))
        elif action == 1:
            mask.pixel_scales = (float(rng.randint(1, 4)), float(rng.randint(1, 4)) / 2.0)
        elif action == 2:
            mask.origin = (float(rng.randint(-2, 3)) / 4.0, float(rng.randint(-2, 3)))
        elif action == 3 and mask.shape[0] * mask.shape[1] > 1:
            mask._array[rng.randint(mask.shape[0]), rng.randint(mask.shape[1])] ^= True
        s = attempt_obj(tag + ".call", lambda: shared.over_sampler_from(mask=mask))
        if s is not None:
            rec(tag + ".mask_is", s.mask is mask)
            attempt(tag + ".grid", lambda: s.over_sampled_grid)
            attempt(tag + ".areas", lambda: s.sub_pixel_areas)
            attempt(tag + ".slim_for_sub", lambda: s.slim_for_sub_slim)
            attempt(tag + ".native_for_sub", lambda: s.sub_mask_native_for_sub_mask_slim)
            attempt(
                tag + ".binned",
                lambda: s.binned_array_2d_from(array=np.arange(s.sub_total, dtype="float") ** 2),
            )

# direct construction is untouched by the change but is the reference for everything above
for pname, pattern in PATTERNS.items():
    mask = mask_from(pattern, GEOMETRIES[1])
    s = attempt_obj(f"8.{pname}", lambda: OverSamplerUniform(mask=mask, sub_size=2))
    if s is not None:
        sampler_report(f"8.{pname}.s", s, mask=mask)

print("records", N_RECORDS[0])
print("digest", H.hexdigest())
sys.exit(0)
