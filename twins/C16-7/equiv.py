"""
Differential test for the C16-7 twin (path preparation of `numpy_array_2d_to_fits`).

Prints a sha256 digest over the observable outcome (exception type, resulting directory tree, data and header read
back from every .fits file on disk) of a fixed sequence of write scenarios. The digest must be identical on the clean
HEAD tree and on the twin tree. Only public / pre-existing entry points are called, so it runs on both trees.
"""
import hashlib
import logging
import os
import sys
import tempfile
import warnings
from pathlib import Path

import numpy as np
from astropy.io import fits

warnings.filterwarnings("ignore")
logging.disable(logging.CRITICAL)

import autoarray as aa
from autoarray import conf
from autoarray.structures.arrays import array_2d_util

LOG = []


def log(*items):
    LOG.append(repr(items))


def tree_state(root):
    """Deterministic description of everything below `root` (relative names, kinds, fits payloads)."""
    out = []
    for dirpath, dirnames, filenames in os.walk(root, followlinks=False):
        dirnames.sort()
        rel = os.path.relpath(dirpath, root)
        out.append(("D", rel, sorted(dirnames)))
        for name in sorted(filenames):
            full = os.path.join(dirpath, name)
            if os.path.islink(full):
                out.append(("L", rel, name, os.readlink(full).replace(root, "<root>")))
                continue
            try:
                with fits.open(full) as hdul:
                    data = np.asarray(hdul[0].data)
                    hdr = sorted(
                        (k, repr(v))
                        for k, v in hdul[0].header.items()
                        if k not in ("DATE",)
                    )
                    out.append(
                        ("F", rel, name, data.shape, str(data.dtype), data.tobytes().hex(), hdr)
                    )
            except Exception as e:  # not a fits file
                with open(full, "rb") as f:
                    out.append(("X", rel, name, type(e).__name__, f.read().hex()))
    return out


def attempt(label, func, root):
    try:
        result = func()
        outcome = ("ok", repr(result))
    except BaseException as e:  # noqa
        outcome = ("raise", type(e).__name__, getattr(e, "errno", None))
    log(label, outcome, tree_state(root))


ARRS = [
    np.array([[1.0, -2.0, 3.0], [4.0, 5.0e-12, -6.0e9]]),
    np.array([[7.0, 8.0], [9.0, 10.0], [-11.0, 12.0]]),
    np.array([[0.5]]),
    np.arange(20.0).reshape(4, 5),
    np.zeros((0, 3)),
]


def util_scenarios(root, as_path):
    """Direct calls of numpy_array_2d_to_fits for many kinds of target path."""

    def P(p):
        return Path(p) if as_path else p

    targets = [
        "bare.fits",  # the seed's trigger
        "./dot.fits",
        os.path.join("rel", "x.fits"),
        os.path.join("rel", "deep", "er", "x.fits"),
        os.path.join(root, "abs", "nested", "x.fits"),
        os.path.join(root, "absbare.fits"),
        os.path.join("rel", "..", "updown.fits"),
        os.path.join("..", os.path.basename(root), "viaparent.fits"),
        "no_extension",
        os.path.join("sp ace", "na me.fits"),
    ]
    for t in targets:
        for i, (arr, ow) in enumerate(
            [
                (ARRS[0], False),  # first write
                (ARRS[1], False),  # existing, no overwrite -> error, old content stays
                (ARRS[1], True),  # existing, overwrite -> replaced
                (ARRS[3], True),  # overwrite again (repeated call)
                (ARRS[2], False),  # refuse again
            ]
        ):
            label = ("util", as_path, t.replace(root, "<root>").replace(os.path.basename(root), "<rootname>"), i, ow)
            attempt(
                label,
                lambda: array_2d_util.numpy_array_2d_to_fits(
                    array_2d=arr, file_path=P(t), overwrite=ow
                ),
                root,
            )
        # first write with overwrite=True onto a missing file (bare and with missing dir)
    for t in ["fresh_bare.fits", os.path.join("fresh_dir", "a", "x.fits")]:
        attempt(
            ("util-fresh-ow", as_path, t),
            lambda: array_2d_util.numpy_array_2d_to_fits(
                array_2d=ARRS[0], file_path=P(t), overwrite=True, header_dict={"KEYA": 3}
            ),
            root,
        )
        attempt(
            ("util-fresh-ow-again", as_path, t),
            lambda: array_2d_util.numpy_array_2d_to_fits(
                array_2d=ARRS[1], file_path=P(t), overwrite=True, header_dict={"KEYB": "v"}
            ),
            root,
        )


def pathological_scenarios(root):
    """Targets where the path-preparation steps themselves raise or interact (exception types must agree)."""
    cases = []
    # target names that resolve to a directory: "", ".", ".." below a missing / an existing directory
    for ow in (False, True):
        tag = "ow" if ow else "noow"
        cases += [
            (f"p_{tag}_new_slash" + os.sep, ow),
            (os.path.join(f"p_{tag}_new_dot", "."), ow),
            (os.path.join(f"p_{tag}_new_dotdot", ".."), ow),
            (os.path.join(f"p_{tag}_new_sub", "sub", ".."), ow),
            ("", ow),
            (".", ow),
            ("..", ow),
        ]
    for t, ow in cases:
        attempt(
            ("patho", t, ow),
            lambda: array_2d_util.numpy_array_2d_to_fits(
                array_2d=ARRS[0], file_path=t, overwrite=ow
            ),
            root,
        )

    # target is an existing directory (with and without directory component)
    os.makedirs("isdir_bare.fits")
    os.makedirs(os.path.join("holder", "isdir.fits"))
    for t in ["isdir_bare.fits", os.path.join("holder", "isdir.fits")]:
        for ow in (False, True):
            attempt(
                ("target-is-dir", t, ow),
                lambda: array_2d_util.numpy_array_2d_to_fits(
                    array_2d=ARRS[0], file_path=t, overwrite=ow
                ),
                root,
            )

    # directory component is an existing regular file
    with open("plainfile", "wb") as f:
        f.write(b"abc")
    for t in [os.path.join("plainfile", "x.fits"), os.path.join("plainfile", "sub", "x.fits")]:
        for ow in (False, True):
            attempt(
                ("dir-is-file", t, ow),
                lambda: array_2d_util.numpy_array_2d_to_fits(
                    array_2d=ARRS[0], file_path=t, overwrite=ow
                ),
                root,
            )

    # symlinks: dangling directory link, dangling file link (bare and in dir), link to a real file, link to real dir
    os.symlink("does_not_exist_dir", "dangling_dir")
    os.symlink("does_not_exist.fits", "dangling_bare.fits")
    os.makedirs("linkhome")
    os.symlink("does_not_exist.fits", os.path.join("linkhome", "dangling.fits"))
    array_2d_util.numpy_array_2d_to_fits(array_2d=ARRS[3], file_path="real_target.fits")
    os.symlink("real_target.fits", "link_to_real.fits")
    os.makedirs("real_dir")
    os.symlink("real_dir", "link_to_dir")
    for t in [
        os.path.join("dangling_dir", "x.fits"),
        "dangling_bare.fits",
        os.path.join("linkhome", "dangling.fits"),
        "link_to_real.fits",
        os.path.join("link_to_dir", "x.fits"),
        os.path.join("link_to_dir", "newsub", "x.fits"),
    ]:
        for ow in (False, True, True):
            attempt(
                ("symlink", t, ow),
                lambda: array_2d_util.numpy_array_2d_to_fits(
                    array_2d=ARRS[1], file_path=t, overwrite=ow
                ),
                root,
            )

    # read-only directory: remove / write refused (skipped outcome is identical on both trees when run as root)
    os.makedirs("ro_dir")
    array_2d_util.numpy_array_2d_to_fits(array_2d=ARRS[0], file_path=os.path.join("ro_dir", "x.fits"))
    os.chmod("ro_dir", 0o555)
    try:
        for ow in (False, True):
            attempt(
                ("readonly-dir", ow),
                lambda: array_2d_util.numpy_array_2d_to_fits(
                    array_2d=ARRS[1], file_path=os.path.join("ro_dir", "x.fits"), overwrite=ow
                ),
                root,
            )
            attempt(
                ("readonly-dir-mk", ow),
                lambda: array_2d_util.numpy_array_2d_to_fits(
                    array_2d=ARRS[1], file_path=os.path.join("ro_dir", "sub", "x.fits"), overwrite=ow
                ),
                root,
            )
    finally:
        os.chmod("ro_dir", 0o755)

    # bad argument types
    for t in [None, 3, b"bytes_bare.fits", os.path.join(b"bytes_dir", b"x.fits")]:
        for ow in (False, True, True):
            attempt(
                ("badtype", repr(t), ow),
                lambda: array_2d_util.numpy_array_2d_to_fits(
                    array_2d=ARRS[0], file_path=t, overwrite=ow
                ),
                root,
            )
    # truthy / falsy non-bool overwrite values
    for ow in (0, 1, None, "yes", ""):
        attempt(
            ("odd-overwrite", repr(ow)),
            lambda: array_2d_util.numpy_array_2d_to_fits(
                array_2d=ARRS[2], file_path="odd_overwrite.fits", overwrite=ow
            ),
            root,
        )


def api_scenarios(root):
    """All public writers that go through numpy_array_2d_to_fits, onto bare / relative / absolute targets."""
    mask = aa.Mask2D(
        mask=[[True, False, False, True], [False, True, False, False], [True, True, False, True]],
        pixel_scales=(2.0, 0.5),
        origin=(1.0, -3.0),
    )
    objs = {
        "array": aa.Array2D.no_mask(values=ARRS[0], pixel_scales=(0.25, 0.75), origin=(0.5, -1.5)),
        "array2": aa.Array2D.no_mask(values=ARRS[1], pixel_scales=0.5),
        "masked": aa.Array2D(values=np.arange(12.0).reshape(3, 4), mask=mask),
        "kernel": aa.Kernel2D.no_mask(values=np.arange(9.0).reshape(3, 3), pixel_scales=1.0),
        "mask": mask,
        "vis": aa.Visibilities(visibilities=[1.0 + 2.0j, -3.0 + 0.5j, 0.0 - 1.0j]),
        "single": aa.Array2D.no_mask(values=[[3.0]], pixel_scales=1.0),
    }
    order = ["array", "array2", "masked", "kernel", "mask", "vis", "single"]
    for flip in (True, False):
        conf.instance["general"]["fits"]["flip_for_ds9"] = flip
        for t in [
            f"api_bare_{flip}.fits",
            os.path.join(f"api_rel_{flip}", "n", "x.fits"),
            os.path.join(root, f"api_abs_{flip}", "x.fits"),
        ]:
            for k, name in enumerate(order):
                obj = objs[name]
                tl = t.replace(root, "<root>")
                if k == 0:
                    attempt(("api-first", flip, tl, name), lambda: obj.output_to_fits(file_path=t), root)
                attempt(("api-noow", flip, tl, name), lambda: obj.output_to_fits(file_path=t), root)
                attempt(
                    ("api-ow", flip, tl, name),
                    lambda: obj.output_to_fits(file_path=t, overwrite=True),
                    root,
                )
                # read back through the library
                def read():
                    if name == "mask":
                        m = aa.Mask2D.from_fits(file_path=t, pixel_scales=(2.0, 0.5), origin=(1.0, -3.0))
                        return np.array(m).tolist(), m.pixel_scales, m.origin
                    a = aa.Array2D.from_fits(file_path=t, pixel_scales=0.5)
                    return a.native.array.tolist(), a.shape_native

                attempt(("api-read", flip, tl, name), read, root)
    conf.instance["general"]["fits"]["flip_for_ds9"] = True

    # Imaging writes three files in one call (bare names and directory targets)
    imaging = aa.Imaging(
        data=objs["array"],
        noise_map=aa.Array2D.no_mask(values=np.full((2, 3), 2.0), pixel_scales=(0.25, 0.75), origin=(0.5, -1.5)),
        psf=objs["kernel"],
    )
    for prefix in ["", os.path.join("imaging_dir", "sub") + os.sep]:
        for ow in (False, False, True, True):
            attempt(
                ("imaging", prefix, ow),
                lambda: imaging.output_to_fits(
                    data_path=prefix + "im_data.fits",
                    psf_path=prefix + "im_psf.fits",
                    noise_map_path=prefix + "im_noise.fits",
                    overwrite=ow,
                ),
                root,
            )

    # does the helper mutate / alias its inputs?  (array and header_dict must be untouched)
    arr = ARRS[3].copy()
    hd = {"AAA": 1, "BBB": "two"}
    for ow in (False, True, True):
        attempt(
            ("alias", ow),
            lambda: array_2d_util.numpy_array_2d_to_fits(
                array_2d=arr, file_path="alias.fits", overwrite=ow, header_dict=hd
            ),
            root,
        )
        log("alias-state", arr.tobytes().hex(), sorted(hd.items()))


def main():
    start = os.getcwd()
    for as_path in (False, True):
        with tempfile.TemporaryDirectory(prefix="c16eq_") as root:
            root = os.path.realpath(root)
            os.chdir(root)
            try:
                util_scenarios(root, as_path)
            finally:
                os.chdir(start)
    with tempfile.TemporaryDirectory(prefix="c16eq_") as outer:
        # nested so that ".." targets stay inside a directory we own
        root = os.path.join(os.path.realpath(outer), "inner")
        os.makedirs(root)
        os.chdir(root)
        try:
            pathological_scenarios(root)
        finally:
            os.chdir(start)
        log("outer-state", tree_state(os.path.realpath(outer)))
    with tempfile.TemporaryDirectory(prefix="c16eq_") as root:
        root = os.path.realpath(root)
        os.chdir(root)
        try:
            api_scenarios(root)
        finally:
            os.chdir(start)

    blob = "\n".join(LOG).encode()
    if "--dump" in sys.argv:
        sys.stdout.write("\n".join(LOG) + "\n")
    n_raise = sum("('raise'" in line for line in LOG)
    print("records", len(LOG), "raised", n_raise)
    print("digest", hashlib.sha256(blob).hexdigest())


if __name__ == "__main__":
    main()
