"""
Differential test for OverSamplerIterate.array_via_func_from (and its helpers).

Prints a sha256 digest over every result (values, masks, pixel scales, origins, types, raised exception types) and
over the log of every call the library made to the user function (grid bytes, args, kwargs). Run on the clean tree
and on the twin tree: the two digests must be identical.
"""
import hashlib
import itertools
import warnings

import numpy as np

warnings.filterwarnings("ignore")

import autoarray as aa
from autoarray.operators.over_sampling import iterate as it

H = hashlib.sha256()
N_CASES = 0


def feed(*objs):
    for o in objs:
        if isinstance(o, np.ndarray):
            H.update(str(o.dtype).encode())
            H.update(str(o.shape).encode())
            H.update(np.ascontiguousarray(o).tobytes())
        else:
            H.update(repr(o).encode())
        H.update(b"|")


def feed_result(res):
    feed(type(res).__name__)
    if hasattr(res, "mask"):
        feed(
            np.array(res),
            np.array(res.native),
            np.array(res.mask),
            tuple(res.mask.pixel_scales),
            tuple(res.mask.origin),
            tuple(res.shape_native),
        )
    else:
        feed(np.asarray(res))


class Logger:
    """Wraps a profile so that every call made by the library is part of the digest."""

    def __init__(self, f):
        self.f = f
        self.calls = 0

    def __call__(self, obj, grid, *args, **kwargs):
        self.calls += 1
        g = np.array(grid)
        feed("call", type(grid).__name__, g, repr(obj), repr(args), repr(sorted(kwargs.items())))
        if hasattr(grid, "mask"):
            feed(np.array(grid.mask), tuple(grid.mask.pixel_scales), tuple(grid.mask.origin))
        return self.f(obj, g, *args, **kwargs)


# ---------------------------------------------------------------- profiles


def f_exp_sqrt(obj, g, *a, **k):
    r = np.sqrt((g[:, 0] - 0.13) ** 2 + (g[:, 1] + 0.21) ** 2)
    return np.exp(-3.0 * np.sqrt(r))


def f_sersic(obj, g, *a, **k):
    r = np.sqrt(g[:, 0] ** 2 + 0.6 * g[:, 1] ** 2) + 1e-3
    return np.exp(-7.67 * (r**0.25 - 1.0))


def f_gauss(obj, g, *a, **k):
    return np.exp(-0.5 * ((g[:, 0] - 0.3) ** 2 + (g[:, 1] + 0.2) ** 2) / 0.15**2)


def f_signed(obj, g, *a, **k):
    # negative / positive values: exercises the "lower <= 0 -> fractional accuracy 0" branch
    return np.sin(3.0 * g[:, 0]) * np.cos(2.0 * g[:, 1]) + 0.1 * g[:, 1]


def f_const(obj, g, *a, **k):
    return np.full(g.shape[0], 2.5)


def f_zero(obj, g, *a, **k):
    return np.zeros(g.shape[0])


def f_linear(obj, g, *a, **k):
    # linear: all levels agree exactly (means are identical up to rounding) but positive offset
    return 5.0 + 0.7 * g[:, 0] - 0.3 * g[:, 1]


def f_step(obj, g, *a, **k):
    # discontinuous; can produce exact zeros at one level and non-zeros at another (inf / nan ratios)
    return ((g[:, 0] > 0.07) & (g[:, 1] > -0.03)).astype(float)


def f_spike(obj, g, *a, **k):
    # zero at sub_size=1 centres in many pixels, non-zero at higher levels
    return np.where(np.abs(g[:, 0] * g[:, 1]) < 0.02, 1.0, 0.0) * (1.0 + g[:, 1] ** 2)


def f_args(obj, g, scale=1.0, *a, shift=0.0, **k):
    # NB the library forwards *args / **kwargs only to the first and the last evaluation
    r = np.sqrt((g[:, 0] - shift) ** 2 + g[:, 1] ** 2)
    return scale * np.exp(-2.0 * r)


def f_obj(obj, g, *a, **k):
    r = np.sqrt(g[:, 0] ** 2 + g[:, 1] ** 2)
    return obj["amp"] * np.exp(-obj["k"] * np.sqrt(r))


def f_bad_shape(obj, g, *a, **k):
    return np.ones(g.shape[0] + 1)


def f_raises(obj, g, *a, **k):
    if g.shape[0] > 40:
        raise ValueError("too many points")
    return np.exp(-np.abs(g[:, 0]) * 4)


PROFILES = [
    ("exp_sqrt", f_exp_sqrt, None, (), {}),
    ("sersic", f_sersic, None, (), {}),
    ("gauss", f_gauss, None, (), {}),
    ("signed", f_signed, None, (), {}),
    ("const", f_const, None, (), {}),
    ("zero", f_zero, None, (), {}),
    ("linear", f_linear, None, (), {}),
    ("step", f_step, None, (), {}),
    ("spike", f_spike, None, (), {}),
    # positional extra args: HEAD raises TypeError when the last level is reached (func= passed twice)
    ("args", f_args, None, (3.0,), {"shift": 0.4}),
    ("kwargs", f_args, None, (), {"shift": 0.4, "scale": 3.0}),
    ("obj", f_obj, {"amp": 2.0, "k": 3.0}, (), {}),
    ("bad_shape", f_bad_shape, None, (), {}),
    ("raises", f_raises, None, (), {}),
]

# ---------------------------------------------------------------- masks


def masks():
    out = []
    out.append(
        (
            "demo5x6",
            [
                [True, True, True, True, True, True],
                [True, False, False, False, False, True],
                [True, False, False, False, False, True],
                [True, False, False, False, True, True],
                [True, True, True, True, True, True],
            ],
            (0.4, 0.25),
            (0.05, -0.1),
        )
    )
    out.append(("edge3x4", np.zeros((3, 4), dtype=bool).tolist(), (0.5, 2.0), (0.3, -0.7)))
    out.append(("single1x1", [[False]], (1.0, 1.0), (0.0, 0.0)))
    out.append(("single_in_3x3", [[True, True, True], [True, False, True], [True, True, True]], (0.3, 0.3), (0.0, 0.0)))
    out.append(("row1x5", [[False, True, False, False, True]], (0.2, 0.7), (-0.4, 0.2)))
    out.append(("col4x1", [[False], [False], [True], [False]], (0.6, 0.1), (0.0, 0.3)))
    out.append(("all_masked", np.ones((3, 3), dtype=bool).tolist(), (1.0, 1.0), (0.0, 0.0)))
    rng = np.random.RandomState(7)
    m = rng.rand(7, 4) < 0.35
    out.append(("rand7x4", m.tolist(), (0.15, 0.3), (0.2, 0.1)))
    m = rng.rand(4, 9) < 0.5
    out.append(("rand4x9", m.tolist(), (0.25, 0.1), (-0.3, 0.0)))
    out.append(("iso6x6", aa.Mask2D.circular(shape_native=(6, 6), pixel_scales=0.2, radius=0.5), None, None))
    return out


SCHEDULES = [
    [2, 3, 4, 8],
    [2, 4, 8, 16],
    [2, 3],
    [2, 4],
    [3],
    [1, 2, 3, 4, 5, 6],
    [4, 2, 3],
    [2, 2, 2, 3],
    [2, 3, 5, 7, 9],
]

ACCURACIES = [
    (0.98, None),
    (0.9999, None),
    (0.9, None),
    (0.5, None),
    (1.0, None),
    (0.0, None),
    (None, 1e-3),
    (None, 1e-2),
    (None, 0.0),
    (0.99, 5e-3),
    (None, None),
]


def build_mask(spec):
    name, m, ps, origin = spec
    if isinstance(m, aa.Mask2D):
        return m
    return aa.Mask2D(mask=m, pixel_scales=ps, origin=origin)


def run_case(tag, mask, sub_steps, frac, rel, f, obj, args, kwargs, repeat=1):
    global N_CASES
    N_CASES += 1
    feed("CASE", tag, sub_steps, frac, rel)
    mask_before = np.array(mask).copy()
    ps_before = tuple(mask.pixel_scales)
    steps_in = list(sub_steps)
    try:
        sampler = aa.OverSamplerIterate(
            mask=mask, fractional_accuracy=frac, relative_accuracy=rel, sub_steps=steps_in
        )
    except Exception as e:  # noqa
        feed("ctor-exc", type(e).__name__)
        return
    for i in range(repeat):
        logger = Logger(f)
        try:
            with np.errstate(all="ignore"):
                res = sampler.array_via_func_from(logger, obj, *args, **kwargs)
            feed_result(res)
        except Exception as e:  # noqa
            feed("exc", type(e).__name__)
        feed("ncalls", logger.calls)
        # in-place effects on shared objects
        feed(np.array(mask), tuple(mask.pixel_scales), tuple(mask.origin), steps_in, sampler.sub_steps)
        feed(bool(np.array_equal(mask_before, np.array(mask))), ps_before == tuple(mask.pixel_scales))


def main():
    mask_specs = masks()

    # 1. full product on the most relevant profiles
    for spec in mask_specs:
        for sub_steps, (frac, rel) in itertools.product(SCHEDULES, ACCURACIES):
            for pname, f, obj, args, kwargs in PROFILES:
                if pname in ("bad_shape", "raises") and (sub_steps != [2, 3, 4, 8] or frac != 0.98):
                    continue
                mask = build_mask(spec)
                run_case(
                    f"{spec[0]}/{pname}", mask, sub_steps, frac, rel, f, obj, args, kwargs
                )

    # 2. repeated calls on one sampler / one shared mask object (no state may leak between calls)
    shared = build_mask(mask_specs[0])
    for pname, f, obj, args, kwargs in PROFILES[:5]:
        run_case("shared/" + pname, shared, [2, 3, 4, 8], 0.98, None, f, obj, args, kwargs, repeat=3)
        run_case("shared/" + pname, shared, [2, 3, 4, 8], None, 2e-3, f, obj, args, kwargs, repeat=2)

    # 3. fine sweep of accuracies on the trigger set-up so that pixels stop at each intermediate level
    for frac in np.linspace(0.80, 0.9999, 41):
        for sub_steps in ([2, 3, 4, 8], [2, 3, 4, 5, 6, 8], [2, 4, 8, 16]):
            for f in (f_exp_sqrt, f_sersic, f_gauss):
                run_case("sweep", build_mask(mask_specs[0]), sub_steps, float(frac), None, f, None, (), {})
    for rel in np.logspace(-5, -1, 25):
        for f in (f_exp_sqrt, f_sersic, f_gauss, f_signed):
            run_case("sweep-rel", build_mask(mask_specs[7]), [2, 3, 4, 8], None, float(rel), f, None, (), {})

    # 4. the public over-sampling entry point and the helper methods directly
    for spec in mask_specs[:4]:
        mask = build_mask(spec)
        over = aa.OverSamplingIterate(fractional_accuracy=0.97, sub_steps=[2, 3, 4, 8])
        sampler = over.over_sampler_from(mask=mask)
        try:
            feed_result(sampler.array_via_func_from(Logger(f_exp_sqrt), None))
        except Exception as e:  # noqa
            feed("exc", type(e).__name__)
        try:
            lo = sampler.array_at_sub_size_from(func=f_exp_sqrt, cls=None, mask=mask, sub_size=2)
            hi = sampler.array_at_sub_size_from(func=f_exp_sqrt, cls=None, mask=mask, sub_size=3)
            feed_result(lo)
            feed_result(hi)
            tm = sampler.threshold_mask_from(array_lower_sub_2d=lo, array_higher_sub_2d=hi)
            feed(np.array(tm), tuple(tm.pixel_scales), tuple(tm.origin))
        except Exception as e:  # noqa
            feed("exc", type(e).__name__)

    # 5. the jitted kernels directly
    rng = np.random.RandomState(3)
    for _ in range(20):
        shp = (rng.randint(1, 5), rng.randint(1, 6))
        lo = rng.randn(*shp)
        hi = lo * (1 + 0.05 * rng.randn(*shp))
        hm = rng.rand(*shp) < 0.3
        for frac, rel in ACCURACIES:
            tm = it.threshold_mask_via_arrays_jit_from(frac, rel, np.ones(shp, dtype=bool), hi, lo, hm)
            feed(tm)
            feed(it.iterated_array_jit_from(np.zeros(shp), tm, hm, hi))

    print("cases", N_CASES)
    print("digest", H.hexdigest())


if __name__ == "__main__":
    main()
