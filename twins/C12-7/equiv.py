"""
Differential test for the C12-7 twin (Mask2D.zoom_centre / zoom_offset_scaled refactoring).

Prints a sha256 digest over the repr of every observation (values, element types, exception types + messages) of
the zoom_* family of Mask2D and its consumers, over many masks / pixel scales / origins. The digest must be
identical on the clean HEAD tree and on the tree with twin.patch applied.

Run:  cd /tmp/wt10/C12-7 && PYTHONPATH=/tmp/wt10/C12-7 /venv/bin/python equiv.py
"""
import hashlib
import os
import warnings

import numpy as np

warnings.simplefilter("ignore")

import autoarray as aa

records = []

# The digest covers exception TYPES. Set EQUIV_MESSAGES=1 to also cover the exception message texts (these differ
# between HEAD and the twin only for type-invalid pixel_scales - a `str`, or a bare `int` combined with origin=None -
# where both trees raise TypeError but from a different sub-expression; see TWIN_NOTES.md).
WITH_MESSAGES = bool(os.environ.get("EQUIV_MESSAGES"))


def exc_message(e):
    return (str(e),) if WITH_MESSAGES else ()



def norm(v):
    """Deterministic, bit-faithful description of a value (floats via float.hex, types recorded)."""
    if isinstance(v, aa.Mask2D):
        return (
            "Mask2D",
            v.shape_native,
            np.array(v).astype("uint8").tobytes().hex(),
            norm(v.pixel_scales),
            norm(v.origin),
        )
    if isinstance(v, np.ndarray):
        a = np.array(v)
        if a.dtype.kind == "f":
            return (
                type(v).__name__,
                a.shape,
                str(a.dtype),
                tuple(norm(x) for x in a.ravel().tolist()),
            )
        return (type(v).__name__, a.shape, str(a.dtype), a.tobytes().hex())
    if isinstance(v, (tuple, list)):
        return (type(v).__name__, tuple(norm(x) for x in v))
    if isinstance(v, (float, np.floating)):
        f = float(v)
        return (type(v).__name__, "nan" if f != f else f.hex())
    if isinstance(v, (int, np.integer, bool, np.bool_)):
        return (type(v).__name__, int(v))
    if v is None:
        return "None"
    return (type(v).__name__, repr(v))


def observe(tag, fn):
    try:
        out = norm(fn())
    except Exception as e:  # noqa
        out = ("EXC", type(e).__name__) + exc_message(e)
    records.append(repr((tag, out)))


PROPS = [
    "zoom_centre",
    "zoom_offset_pixels",
    "zoom_offset_scaled",
    "zoom_region",
    "zoom_shape_native",
    "zoom_mask_unmasked",
    "mask_centre",
]


def observe_mask(tag, make_mask):
    try:
        mask = make_mask()
    except Exception as e:  # noqa
        records.append(repr((tag, "CONSTRUCT", type(e).__name__) + exc_message(e)))
        return

    before = (np.array(mask).tobytes(), repr(mask.pixel_scales), repr(mask.origin))

    # each property on a fresh read, twice (repeated calls), in two different orders
    for name in PROPS + PROPS[::-1]:
        observe((tag, name), lambda: getattr(mask, name))

    def zoom_detail():
        z = mask.zoom_mask_unmasked
        return (
            z.origin,
            z.shape_native,
            z.pixel_scales,
            np.array(z.derive_grid.all_false),
            z.geometry.extent,
            z.geometry.central_scaled_coordinates,
        )

    observe((tag, "zoom_detail"), zoom_detail)

    # consumers of the zoom quantities
    def array_zoom(buffer):
        arr = aa.Array2D(
            values=np.arange(mask.shape[0] * mask.shape[1], dtype="float").reshape(
                mask.shape
            ),
            mask=mask,
        )
        z = arr.zoomed_around_mask(buffer=buffer)
        return (np.array(z.native), z.mask, z.origin)

    for buffer in (0, 1, 2):
        observe((tag, "zoomed_around_mask", buffer), lambda: array_zoom(buffer))

    def extent_zoom(buffer):
        arr = aa.Array2D(values=np.ones(mask.shape), mask=mask)
        return arr.extent_of_zoomed_array(buffer=buffer)

    for buffer in (0, 1):
        observe((tag, "extent_of_zoomed_array", buffer), lambda: extent_zoom(buffer))

    # results are fresh objects (no aliasing between repeated reads) and the mask is not modified in place
    def aliasing():
        a = mask.zoom_mask_unmasked
        b = mask.zoom_mask_unmasked
        return (a is b, type(mask.zoom_offset_scaled).__name__, type(mask.zoom_centre).__name__)

    observe((tag, "aliasing"), aliasing)

    after = (np.array(mask).tobytes(), repr(mask.pixel_scales), repr(mask.origin))
    records.append(repr((tag, "unchanged", before == after)))


# --------------------------------------------------------------------------------------------------------------------
# masks
# --------------------------------------------------------------------------------------------------------------------


def rect(shape, ys, xs):
    m = np.full(shape, True)
    m[ys[0] : ys[1], xs[0] : xs[1]] = False
    return m


mask_arrays = {}

# the trigger of the notes: 7x9, off-centre rectangle
mask_arrays["notes"] = rect((7, 9), (1, 4), (2, 7))
mask_arrays["centre_sq"] = rect((7, 7), (2, 5), (2, 5))
mask_arrays["even"] = rect((6, 8), (1, 5), (3, 6))
mask_arrays["tall"] = rect((11, 4), (0, 9), (1, 3))
mask_arrays["wide"] = rect((3, 12), (1, 2), (0, 12))
mask_arrays["all_false"] = np.full((4, 5), False)
mask_arrays["all_true"] = np.full((4, 5), True)
mask_arrays["single_pixel_grid"] = np.full((1, 1), False)
mask_arrays["single_pixel_grid_masked"] = np.full((1, 1), True)
mask_arrays["one_unmasked_corner_tl"] = rect((5, 6), (0, 1), (0, 1))
mask_arrays["one_unmasked_corner_br"] = rect((5, 6), (4, 5), (5, 6))
mask_arrays["one_unmasked_mid"] = rect((5, 6), (2, 3), (4, 5))
mask_arrays["row_vector"] = rect((1, 7), (0, 1), (1, 4))
mask_arrays["col_vector"] = rect((7, 1), (2, 7), (0, 1))
mask_arrays["edge_top"] = rect((6, 6), (0, 2), (1, 5))
mask_arrays["edge_left_bottom"] = rect((6, 7), (3, 6), (0, 2))

m = np.full((8, 9), True)
m[1, 1] = False
m[6, 7] = False
mask_arrays["two_far_pixels"] = m

m = np.full((9, 8), True)
m[2:7, 3] = False
m[4, 1:6] = False
mask_arrays["cross"] = m

rng = np.random.RandomState(12)
for i in range(12):
    shape = (int(rng.randint(1, 12)), int(rng.randint(1, 12)))
    mask_arrays[f"random_{i}"] = rng.rand(*shape) > rng.uniform(0.2, 0.9)

pixel_scales_list = [
    1.0,
    0.1,
    (0.5, 0.8),
    (2.0, 0.3),
    (0.05, 0.05),
    (1, 2),
    [0.5, 0.8],
    np.array([0.3, 0.7]),
    (np.float64(0.25), np.float64(1.5)),
    (np.float32(0.25), np.float32(0.7)),
    (-0.5, 0.7),
    1.0 / 3.0,
]

origins = [
    (0.0, 0.0),
    (1.3, -2.1),
    (-0.7, 0.4),
    (100.0, 250.5),
    (1e-9, -1e9),
    (1, -2),
    [0.3, 0.9],
    np.array([0.25, -0.75]),
    (-0.0, 0.0),
]

for mname, marr in mask_arrays.items():
    for ips, ps in enumerate(pixel_scales_list):
        for io, origin in enumerate(origins):
            # keep the run time reasonable: full product for the named masks, subset for the random ones
            if mname.startswith("random") and (ips + io) % 3 != 0:
                continue
            observe_mask(
                (mname, ips, io),
                lambda: aa.Mask2D(mask=marr, pixel_scales=ps, origin=origin),
            )

# degenerate pixel scales / origins (exceptions and nan propagation)
degenerate = [
    None,
    0.0,
    (0.0, 1.0),
    (1.0, 0.0),
    (0, 1),
    1,
    (np.float64(0.5), np.float64(0.0)),
    (np.float64(0.0), 0.5),
    (float("nan"), 1.0),
    (1.0, float("nan")),
    (float("inf"), 1.0),
    (1.0, float("-inf")),
    (1.0,),
    (1.0, 2.0, 3.0),
    "ab",
]
for ids, ps in enumerate(degenerate):
    for io, origin in enumerate(
        [(0.0, 0.0), (0.3, -0.4), (float("nan"), 1.0), (float("inf"), 0.0), None, (1.0,)]
    ):
        for mname in ("notes", "all_true", "single_pixel_grid", "even"):
            observe_mask(
                ("degenerate", mname, ids, io),
                lambda: aa.Mask2D(
                    mask=mask_arrays[mname], pixel_scales=ps, origin=origin
                ),
            )

# masks built through the other constructors / derived masks (origin carried through)
observe_mask(
    "circular",
    lambda: aa.Mask2D.circular(
        shape_native=(12, 15), radius=2.2, pixel_scales=(0.5, 0.7), centre=(0.6, -1.1)
    ),
)
observe_mask(
    "circular_origin",
    lambda: aa.Mask2D(
        mask=np.array(
            aa.Mask2D.circular(
                shape_native=(12, 15),
                radius=2.2,
                pixel_scales=(0.5, 0.7),
                centre=(0.6, -1.1),
            )
        ),
        pixel_scales=(0.5, 0.7),
        origin=(3.0, -4.0),
    ),
)
observe_mask(
    "resized",
    lambda: aa.Mask2D(
        mask=mask_arrays["notes"], pixel_scales=(0.5, 0.8), origin=(1.3, -2.1)
    ).resized_from(new_shape=(10, 11)),
)
observe_mask(
    "rescaled",
    lambda: aa.Mask2D(
        mask=mask_arrays["notes"], pixel_scales=(0.5, 0.8), origin=(1.3, -2.1)
    ).rescaled_from(rescale_factor=2.0),
)
observe_mask(
    "zoom_of_zoom",
    lambda: aa.Mask2D(
        mask=mask_arrays["notes"], pixel_scales=(0.5, 0.8), origin=(1.3, -2.1)
    ).zoom_mask_unmasked,
)

# translation covariance (the C12 property itself), recorded as part of the digest
for mname in ("notes", "even", "cross", "two_far_pixels"):
    for ps in ((0.5, 0.8), 1.0, (2.0, 0.3)):
        for d in ((1.3, -2.1), (-5.0, 0.25)):

            def covariance():
                m0 = aa.Mask2D(mask=mask_arrays[mname], pixel_scales=ps)
                m1 = aa.Mask2D(mask=mask_arrays[mname], pixel_scales=ps, origin=d)
                z0, z1 = m0.zoom_mask_unmasked, m1.zoom_mask_unmasked
                return (
                    bool(np.allclose(np.subtract(z1.origin, z0.origin), d)),
                    bool(
                        np.allclose(
                            np.array(z1.derive_grid.all_false)
                            - np.array(z0.derive_grid.all_false),
                            np.array(d),
                        )
                    ),
                    z0.shape_native == z1.shape_native,
                )

            observe(("covariance", mname, repr(ps), d), covariance)

if os.environ.get("EQUIV_DUMP"):
    open(os.environ["EQUIV_DUMP"], "w").write("\n".join(records))
digest = hashlib.sha256("\n".join(records).encode()).hexdigest()
n_exc = sum("'EXC'" in r for r in records)
print(f"records {len(records)} (of which exceptions {n_exc})")
print(f"digest {digest}")
