"""
Differential test for C16-5 (array_2d_util.numpy_array_2d_to_fits: makedirs / remove-before-write logic).

Run:  cd /tmp/wt8/C16-5 && PYTHONPATH=/tmp/wt8/C16-5 /venv/bin/python equiv.py
Prints a sha256 digest over every observable result (exception type + message, the resulting directory tree with
file kinds / symlink targets, and the content + header of every .fits file read back). The digest must be identical on
the clean HEAD tree and on the twin tree.
"""
import hashlib
import os
import shutil
import sys
import tempfile
import warnings
from pathlib import Path

warnings.filterwarnings("ignore")

import numpy as np
from astropy.io import fits

import autoarray as aa
from autoarray.structures.arrays import array_2d_util

ROOT = os.path.realpath(tempfile.mkdtemp(prefix="c16equiv_"))
LOG = []


def norm(text):
    return str(text).replace(ROOT, "<ROOT>")


def log(*items):
    LOG.append(" | ".join(norm(i) for i in items))


def tree(top):
    """Deterministic description of everything below `top` (names, kinds, link targets, fits content)."""
    out = []
    for dirpath, dirnames, filenames in os.walk(top):
        dirnames.sort()
        rel = os.path.relpath(dirpath, top)
        out.append(f"D {rel}")
        for name in sorted(dirnames):
            full = os.path.join(dirpath, name)
            if os.path.islink(full):
                out.append(f"L {os.path.join(rel, name)} -> {norm(os.readlink(full))}")
        for name in sorted(filenames):
            full = os.path.join(dirpath, name)
            relname = os.path.join(rel, name)
            if os.path.islink(full):
                out.append(f"L {relname} -> {norm(os.readlink(full))}")
                if not os.path.exists(full):
                    continue
            try:
                with fits.open(full) as hdul:
                    data = hdul[0].data
                    hdr = [(k, repr(v)) for k, v in hdul[0].header.items()]
                    out.append(
                        f"F {relname} {None if data is None else (data.shape, str(data.dtype), hashlib.sha256(np.ascontiguousarray(data).tobytes()).hexdigest())} {hdr}"
                    )
            except Exception as e:  # not a fits file
                with open(full, "rb") as f:
                    out.append(
                        f"B {relname} {type(e).__name__} {hashlib.sha256(f.read()).hexdigest()}"
                    )
    return out


def call(label, func, *args, **kwargs):
    try:
        result = func(*args, **kwargs)
        log(label, "OK", repr(result))
    except BaseException as e:
        log(
            label,
            "EXC",
            type(e).__name__,
            getattr(e, "errno", None),
            norm(getattr(e, "filename", None)),
            norm(e),
        )


ARR_A = np.array([[1.0, -2.0, 3.0], [4.0, 5.0e-12, -6.0e9]])
ARR_B = np.array([[7.0, 8.0], [-9.0, 10.0], [11.0, 12.0], [13.0, 14.0]])
ARR_C = np.array([[0.5]])
HEADER = {"PIXSCALE": 0.25, "FOO": "bar"}

scenario_count = [0]


def fresh_cwd():
    scenario_count[0] += 1
    d = os.path.join(ROOT, f"s{scenario_count[0]:04d}")
    os.makedirs(d)
    os.chdir(d)
    return d


def write(path, array=ARR_A, **kw):
    array_2d_util.numpy_array_2d_to_fits(array_2d=array, file_path=path, **kw)


# ---------------------------------------------------------------------------------------------------------------
# 1) util-level matrix: path kind x pre-existing state x overwrite
# ---------------------------------------------------------------------------------------------------------------


def pre_none(d):
    pass


def pre_file_bare(d):
    fits.PrimaryHDU(ARR_C).writeto("a.fits")


def pre_dir_empty(d):
    os.makedirs("d")


def pre_dir_with_file(d):
    os.makedirs("d")
    fits.PrimaryHDU(ARR_C).writeto("d/a.fits")


def pre_nested_with_file(d):
    os.makedirs("d/e/f")
    fits.PrimaryHDU(ARR_C).writeto("d/e/f/a.fits")


def pre_partial_nested(d):
    os.makedirs("d/e")
    fits.PrimaryHDU(ARR_C).writeto("d/a.fits")


def pre_target_is_dir(d):
    os.makedirs("d/a.fits")


def pre_target_is_nonempty_dir(d):
    os.makedirs("d/a.fits/inner")


def pre_bare_target_is_dir(d):
    os.makedirs("a.fits")


def pre_dir_is_file(d):
    fits.PrimaryHDU(ARR_C).writeto("d")


def pre_dir_dangling_symlink(d):
    os.symlink("nowhere", "d")


def pre_dir_symlink_to_dir(d):
    os.makedirs("real")
    fits.PrimaryHDU(ARR_C).writeto("real/a.fits")
    os.symlink("real", "d")


def pre_file_symlink(d):
    os.makedirs("d")
    fits.PrimaryHDU(ARR_C).writeto("d/real.fits")
    os.symlink("real.fits", "d/a.fits")
    os.symlink("d/real.fits", "a.fits")


def pre_file_dangling_symlink(d):
    os.makedirs("d")
    os.symlink("gone.fits", "d/a.fits")
    os.symlink("gone.fits", "a.fits")


def pre_both(d):
    os.makedirs("d")
    fits.PrimaryHDU(ARR_C).writeto("d/a.fits")
    fits.PrimaryHDU(ARR_C).writeto("a.fits")


def pre_readonly_file(d):
    os.makedirs("d")
    fits.PrimaryHDU(ARR_C).writeto("d/a.fits")
    fits.PrimaryHDU(ARR_C).writeto("a.fits")
    os.chmod("d/a.fits", 0o444)
    os.chmod("a.fits", 0o444)


PRES = [
    pre_none,
    pre_file_bare,
    pre_dir_empty,
    pre_dir_with_file,
    pre_nested_with_file,
    pre_partial_nested,
    pre_target_is_dir,
    pre_target_is_nonempty_dir,
    pre_bare_target_is_dir,
    pre_dir_is_file,
    pre_dir_dangling_symlink,
    pre_dir_symlink_to_dir,
    pre_file_symlink,
    pre_file_dangling_symlink,
    pre_both,
    pre_readonly_file,
]


def path_kinds(d):
    return [
        ("bare", "a.fits"),
        ("dot", "./a.fits"),
        ("dotdot_bare", os.path.join("..", os.path.basename(d), "a.fits")),
        ("rel", "d/a.fits"),
        ("rel_dblslash", "d//a.fits"),
        ("rel_dot", "./d/a.fits"),
        ("nested", "d/e/f/a.fits"),
        ("nested2", "x/y/a.fits"),
        ("abs", os.path.join(d, "d", "a.fits")),
        ("abs_bare", os.path.join(d, "a.fits")),
        ("abs_new", os.path.join(d, "n1", "n2", "a.fits")),
        ("path_bare", Path("a.fits")),
        ("path_rel", Path("d") / "a.fits"),
        ("path_new", Path("p1") / "p2" / "a.fits"),
        ("path_abs", Path(d) / "d" / "a.fits"),
        ("trail_slash", "d/"),
        ("trail_slash_new", "q/"),
        ("trail_dblslash_new", "q//"),
        ("nested_trail_slash_new", "q/r/"),
        ("dir_dot", "d/."),
        ("dir_dot_new", "q/."),
        ("dir_dotdot", "d/.."),
        ("dir_dotdot_new", "q/.."),
        ("nested_dotdot_new", "q/r/.."),
        ("dir_3dots_new", "q/..."),
        ("dir_hidden_new", "q/.a.fits"),
        ("empty", ""),
        ("curdir", "."),
        ("pardir", ".."),
        ("missing_up", "zz/../a.fits"),
        ("existing_up", "d/../a.fits"),
        ("up_then_down", "zz/../d/a.fits"),
        ("noext", "d/a"),
        ("bytes_bare", b"a.fits"),
        ("bytes_rel", b"d/a.fits"),
        ("bytes_new", b"bn/a.fits"),
        ("bytes_trail_new", b"bq/"),
        ("bytes_dot_new", b"bq/."),
    ]


for pre in PRES:
    for overwrite in (False, True):
        n_kinds = len(path_kinds("/x"))
        for i in range(n_kinds):
            d = fresh_cwd()
            kind, path = path_kinds(d)[i]
            try:
                pre(d)
            except Exception as e:
                log("PRE-FAIL", pre.__name__, type(e).__name__)
            label = f"util {pre.__name__} {kind} ow={overwrite}"
            call(label, write, path, ARR_A, overwrite=overwrite)
            # second call on the same path: now the file (usually) exists
            call(label + " again", write, path, ARR_B, overwrite=overwrite, header_dict=HEADER)
            # and the opposite overwrite flag
            call(label + " flipflag", write, path, ARR_C, overwrite=not overwrite)
            for p in ("a.fits", "d/a.fits"):
                if os.path.exists(p) and not os.path.isdir(p):
                    os.chmod(p, 0o644)
            log(label, "TREE", tree(d))

# default overwrite argument (positional / default)
d = fresh_cwd()
call("default first", array_2d_util.numpy_array_2d_to_fits, ARR_A, "a.fits")
call("default second", array_2d_util.numpy_array_2d_to_fits, ARR_B, "a.fits")
call("positional ow", array_2d_util.numpy_array_2d_to_fits, ARR_B, "a.fits", True)
call("positional ow hdr", array_2d_util.numpy_array_2d_to_fits, ARR_C, "a.fits", True, HEADER)
call("new dir default", array_2d_util.numpy_array_2d_to_fits, ARR_A, "k/a.fits")
call("new dir second", array_2d_util.numpy_array_2d_to_fits, ARR_A, "k/a.fits")
log("default TREE", tree(d))

# public alias
d = fresh_cwd()
call("aa.util first", aa.util.array_2d.numpy_array_2d_to_fits, array_2d=ARR_A, file_path="a.fits")
call("aa.util ow", aa.util.array_2d.numpy_array_2d_to_fits, array_2d=ARR_B, file_path="a.fits", overwrite=True)
call("aa.util no-ow", aa.util.array_2d.numpy_array_2d_to_fits, array_2d=ARR_C, file_path="a.fits")
log("aa.util TREE", tree(d))

# ---------------------------------------------------------------------------------------------------------------
# 2) high-level writers that go through numpy_array_2d_to_fits
# ---------------------------------------------------------------------------------------------------------------

arr_first = aa.Array2D.no_mask(values=ARR_A, pixel_scales=0.1)
arr_second = aa.Array2D.no_mask(values=ARR_B, pixel_scales=(0.25, 0.5), origin=(1.0, -2.0))
mask2d = aa.Mask2D(mask=[[True, False, False], [False, False, True]], pixel_scales=(2.0, 1.0), origin=(0.5, 0.5))
arr_masked = aa.Array2D(values=[1.0, 2.0, 3.0, 4.0], mask=mask2d)
kernel = aa.Kernel2D.no_mask(values=[[0.0, 1.0, 0.0], [1.0, 2.0, 1.0], [0.0, 1.0, 0.0]], pixel_scales=1.0)
vis = aa.Visibilities(visibilities=[1.0 + 2.0j, -3.0 + 4.0j, 5.0 - 6.0j])
single = aa.Array2D.no_mask(values=[[3.0]], pixel_scales=1.0)

OBJS = [
    ("arr_first", arr_first),
    ("arr_second", arr_second),
    ("mask2d", mask2d),
    ("arr_masked", arr_masked),
    ("kernel", kernel),
    ("vis", vis),
    ("single", single),
]

for kind_index in range(6):
    d = fresh_cwd()
    path = ["o.fits", "./o.fits", "od/o.fits", "od/deep/er/o.fits", os.path.join(d, "o.fits"), Path("o.fits")][
        kind_index
    ]
    for name, obj in OBJS:
        call(f"hl {kind_index} {name} no-ow", obj.output_to_fits, file_path=path)
        call(f"hl {kind_index} {name} ow", obj.output_to_fits, file_path=path, overwrite=True)
        call(f"hl {kind_index} {name} ow2", obj.output_to_fits, path, True)
        log(f"hl {kind_index} {name} TREE", tree(d))
        try:
            if name == "mask2d":
                back = aa.Mask2D.from_fits(file_path=path, pixel_scales=1.0)
            elif name == "vis":
                back = aa.Visibilities.from_fits(file_path=path, hdu=0)
            else:
                back = aa.Array2D.from_fits(file_path=path, pixel_scales=1.0)
            log(f"hl {kind_index} {name} BACK", np.array(back).shape, np.array(back).tobytes().hex())
        except Exception as e:
            log(f"hl {kind_index} {name} BACK-EXC", type(e).__name__, e)

# Imaging.output_to_fits with bare names, repeated with and without overwrite
noise = aa.Array2D.no_mask(values=np.full((2, 3), 2.0), pixel_scales=0.1)
psf = aa.Kernel2D.no_mask(values=[[0.0, 1.0, 0.0], [1.0, 2.0, 1.0], [0.0, 1.0, 0.0]], pixel_scales=0.1)
imaging = aa.Imaging(data=arr_first, noise_map=noise, psf=psf)
for base in ("", "im/", "im/deeper/"):
    d = fresh_cwd()
    kw = dict(data_path=base + "data.fits", psf_path=base + "psf.fits", noise_map_path=base + "noise.fits")
    call(f"imaging {base!r} first", imaging.output_to_fits, **kw)
    call(f"imaging {base!r} second no-ow", imaging.output_to_fits, **kw)
    call(f"imaging {base!r} ow", imaging.output_to_fits, overwrite=True, **kw)
    call(f"imaging {base!r} only-data", imaging.output_to_fits, data_path=base + "data.fits", overwrite=True)
    log(f"imaging {base!r} TREE", tree(d))

# shared object / repeated writes to many bare names in the same cwd
d = fresh_cwd()
for i in range(4):
    for name in ("r0.fits", "r1.fits"):
        call(f"repeat {i} {name}", arr_second.output_to_fits, file_path=name, overwrite=bool(i % 2))
log("repeat TREE", tree(d))
log("inputs untouched", ARR_A.tobytes().hex(), ARR_B.tobytes().hex(), ARR_C.tobytes().hex(), sorted(HEADER.items()))

os.chdir("/")
shutil.rmtree(ROOT, ignore_errors=True)

blob = "\n".join(LOG).encode()
if len(sys.argv) > 1:
    with open(sys.argv[1], "wb") as f:
        f.write(blob)
print("lines", len(LOG))
print("digest", hashlib.sha256(blob).hexdigest())
