"""
Differential test for the C03-5 twin (Convolver frame tables extracted into `Convolver.frame_tables_from`).

Builds many Convolvers (random / structured masks, kernel shapes 1..7 x 1..7 incl. non-square, kernels which contain
exactly -1.0 / -1 / 0 / NaN entries, masks which touch the edges and so must raise, empty masks, single pixel masks,
plain ndarray masks of dtype bool / int / float, anisotropic pixel scales, non-zero origins, shared mask / kernel
objects and repeated construction) and hashes every attribute of the convolver state (values, shapes, dtypes,
types), the results of the three convolution methods and every raised exception type.

Prints one sha256 digest: it must be identical on the clean HEAD tree and on the tree with twin.patch applied.
"""
import hashlib
import warnings

import numpy as np

warnings.filterwarnings("ignore")

import autoarray as aa  # noqa: E402

H = hashlib.sha256()
N_CASES = [0]


def feed(tag, obj):
    H.update(tag.encode())
    if isinstance(obj, np.ndarray):
        arr = np.ascontiguousarray(np.asarray(obj))
        H.update(type(obj).__name__.encode())
        H.update(str(arr.dtype).encode())
        H.update(repr(arr.shape).encode())
        H.update(arr.tobytes())
    else:
        H.update(type(obj).__name__.encode())
        H.update(repr(obj).encode())


STATE = [
    "mask_index_array",
    "pixels_in_mask",
    "kernel_max_size",
    "image_frame_1d_indexes",
    "image_frame_1d_kernels",
    "image_frame_1d_lengths",
    "blurring_mask",
    "pixels_in_blurring_mask",
    "blurring_frame_1d_indexes",
    "blurring_frame_1d_kernels",
    "blurring_frame_1d_lengths",
]


def feed_state(convolver, mask, kernel):
    feed("keys", sorted(convolver.__dict__.keys()))
    for name in STATE:
        feed(name, getattr(convolver, name))
    feed("mask_is", convolver.mask is mask)
    feed("kernel_is", convolver.kernel is kernel)
    # aliasing between the tables (none expected) and ownership / writability / contiguity of the tables
    for name in STATE:
        value = getattr(convolver, name)
        if isinstance(value, np.ndarray):
            feed(name + "_flags", (value.flags.c_contiguous, value.flags.writeable, value.flags.owndata))
    feed(
        "shares",
        (
            np.shares_memory(convolver.image_frame_1d_indexes, convolver.blurring_frame_1d_indexes),
            np.shares_memory(convolver.image_frame_1d_kernels, convolver.blurring_frame_1d_kernels),
            np.shares_memory(convolver.image_frame_1d_kernels, np.asarray(kernel)),
            np.shares_memory(convolver.mask_index_array, np.asarray(mask)),
        ),
    )


def run_case(tag, mask, kernel, rng, use_methods=True):
    """mask: Mask2D or ndarray, kernel: Kernel2D"""
    N_CASES[0] += 1
    feed("case", tag)
    mask_before = np.array(mask).copy()
    kernel_before = np.array(kernel).copy()
    try:
        convolver = aa.Convolver(mask=mask, kernel=kernel)
    except Exception as e:  # noqa
        feed("init_exc", type(e).__name__)
        feed("mask_after_exc", np.array(mask))
        return None

    feed_state(convolver, mask, kernel)
    # the inputs are not modified
    feed("mask_unchanged", np.array_equal(mask_before, np.array(mask)))
    feed("kernel_unchanged", np.array_equal(kernel_before, np.array(kernel), equal_nan=True))

    if not use_methods or not isinstance(mask, aa.Mask2D):
        return convolver

    n = convolver.pixels_in_mask
    nb = convolver.pixels_in_blurring_mask
    image_1d = rng.normal(size=n)
    blurring_1d = rng.normal(size=nb)

    try:
        blurring_mask = mask.derive_mask.blurring_from(kernel_shape_native=kernel.shape_native)
        image = aa.Array2D(values=image_1d, mask=mask)
        blurring_image = aa.Array2D(values=blurring_1d, mask=blurring_mask)
    except Exception as e:  # noqa
        feed("setup_exc", type(e).__name__)
        return convolver

    for name, call in (
        ("convolve_image", lambda: convolver.convolve_image(image=image, blurring_image=blurring_image)),
        ("convolve_image_no_blurring", lambda: convolver.convolve_image_no_blurring(image=image)),
        (
            "convolve_mapping_matrix",
            lambda: convolver.convolve_mapping_matrix(mapping_matrix=rng.normal(size=(n, 3))),
        ),
    ):
        try:
            result = call()
            feed(name + "_type", type(result).__name__)
            feed(name, np.array(result))
        except Exception as e:  # noqa
            feed(name + "_exc", type(e).__name__)

    # the state is not altered by the convolution calls
    feed_state(convolver, mask, kernel)
    return convolver


def special_values(rng, kernel_2d, mode):
    kernel_2d = np.array(kernel_2d, dtype=float)
    if mode == 0:
        return kernel_2d
    if mode == 1:  # integer valued signed kernel (contains -1.0, 0.0, 1.0 ...)
        return np.round(rng.uniform(-2.5, 2.5, size=kernel_2d.shape))
    if mode == 2:  # all -1.0
        return np.full(kernel_2d.shape, -1.0)
    if mode == 3:  # a few -1.0 in a float kernel
        flat = kernel_2d.ravel()
        flat[rng.integers(0, flat.size, size=max(1, flat.size // 3))] = -1.0
        return flat.reshape(kernel_2d.shape)
    if mode == 4:  # zeros and negative zeros
        flat = kernel_2d.ravel()
        flat[rng.integers(0, flat.size, size=max(1, flat.size // 3))] = 0.0
        flat[rng.integers(0, flat.size)] = -0.0
        return flat.reshape(kernel_2d.shape)
    if mode == 5:  # NaN / inf entries
        flat = kernel_2d.ravel()
        flat[rng.integers(0, flat.size)] = np.nan
        flat[rng.integers(0, flat.size)] = -np.inf
        return flat.reshape(kernel_2d.shape)
    if mode == 6:  # values close to, but not equal to, -1.0
        flat = kernel_2d.ravel()
        flat[rng.integers(0, flat.size)] = np.nextafter(-1.0, 0.0)
        flat[rng.integers(0, flat.size)] = np.nextafter(-1.0, -2.0)
        return flat.reshape(kernel_2d.shape)
    raise ValueError(mode)


def random_mask(rng, shape, border, fill):
    mask_2d = np.full(shape, True)
    inner = (max(shape[0] - 2 * border[0], 0), max(shape[1] - 2 * border[1], 0))
    if inner[0] > 0 and inner[1] > 0:
        mask_2d[border[0] : shape[0] - border[0], border[1] : shape[1] - border[1]] = rng.uniform(size=inner) > fill
    return mask_2d


def main():
    rng = np.random.default_rng(20240305)

    # ---- 1. the trigger of the notes / demo --------------------------------------------------------------------
    mask_a = np.full((7, 7), True)
    mask_a[2:5, 2:5] = False
    mask_b = np.full((8, 10), True)
    mask_b[2:6, 3:7] = False
    mask_b[3, 4] = True
    mask_b[2, 6] = True
    laplacian = [[0.0, -1.0, 0.0], [-1.0, 4.0, -1.0], [0.0, -1.0, 0.0]]
    unsharp_3x5 = [
        [0.25, 0.5, -1.0, 0.5, 0.25],
        [0.5, 1.5, 3.0, 1.25, 0.75],
        [0.125, 0.5, 0.75, 0.5, 2.0],
    ]
    control = [[0.1, -0.9, 0.3], [-1.5, 4.0, -0.5], [0.2, -1.1, 0.7]]
    int_kernel = np.array([[0, -1, 0], [-1, 4, -1], [0, -1, 0]])  # integer dtype values
    for mi, mask_2d in enumerate((mask_a, mask_b)):
        for ki, kernel_2d in enumerate((laplacian, unsharp_3x5, control, int_kernel, np.transpose(unsharp_3x5))):
            for pixel_scales, origin in ((1.0, (0.0, 0.0)), ((0.3, 2.0), (1.5, -0.7))):
                mask = aa.Mask2D(mask=mask_2d, pixel_scales=pixel_scales, origin=origin)
                kernel = aa.Kernel2D.no_mask(values=kernel_2d, pixel_scales=pixel_scales)
                run_case(f"trigger-{mi}-{ki}-{pixel_scales}", mask, kernel, rng)

    # ---- 2. random masks x every odd kernel shape x special kernel contents ------------------------------------
    sizes = (1, 3, 5, 7)
    for k0 in sizes:
        for k1 in sizes:
            for mode in range(7):
                for rep in range(3):
                    shape = (int(rng.integers(k0, 13)), int(rng.integers(k1, 13)))
                    if rep == 0:
                        # valid: unmasked pixels stay half a kernel away from the edges
                        border = (k0 // 2, k1 // 2)
                    elif rep == 1:
                        border = (k0 // 2 + int(rng.integers(0, 3)), k1 // 2 + int(rng.integers(0, 3)))
                    else:
                        # may touch the edges -> blurring mask raises a MaskException (after the image frames)
                        border = (int(rng.integers(0, k0 // 2 + 1)), int(rng.integers(0, k1 // 2 + 1)))
                    fill = float(rng.choice([0.0, 0.2, 0.5, 0.8, 0.95]))
                    mask_2d = random_mask(rng, shape, border, fill)
                    kernel_2d = special_values(rng, rng.normal(size=(k0, k1)), mode)
                    pixel_scales = (float(rng.uniform(0.05, 2.0)), float(rng.uniform(0.05, 2.0)))
                    origin = (float(rng.normal()), float(rng.normal()))
                    mask = aa.Mask2D(mask=mask_2d, pixel_scales=pixel_scales, origin=origin)
                    kernel = aa.Kernel2D.no_mask(values=kernel_2d, pixel_scales=pixel_scales)
                    run_case(f"rand-{k0}x{k1}-{mode}-{rep}", mask, kernel, rng)

    # ---- 3. degenerate masks ------------------------------------------------------------------------------------
    for shape in ((1, 1), (1, 5), (5, 1), (3, 3), (6, 9), (9, 6)):
        for kshape in ((1, 1), (3, 3), (1, 3), (3, 1), (5, 3), (7, 7)):
            kernel_2d = special_values(rng, rng.normal(size=kshape), 3)
            kernel = aa.Kernel2D.no_mask(values=kernel_2d, pixel_scales=1.0)
            # fully masked (no pixels at all), fully unmasked, single central pixel, single corner pixel
            all_masked = np.full(shape, True)
            all_unmasked = np.full(shape, False)
            centre = np.full(shape, True)
            centre[shape[0] // 2, shape[1] // 2] = False
            corner = np.full(shape, True)
            corner[-1, -1] = False
            for ti, mask_2d in enumerate((all_masked, all_unmasked, centre, corner)):
                try:
                    mask = aa.Mask2D(mask=mask_2d, pixel_scales=(0.5, 1.5), origin=(0.25, -3.0))
                except Exception as e:  # noqa
                    feed("mask_exc", type(e).__name__)
                    continue
                run_case(f"degenerate-{shape}-{kshape}-{ti}", mask, kernel, rng)

    # ---- 4. even kernels are rejected ---------------------------------------------------------------------------
    mask = aa.Mask2D(mask=mask_a, pixel_scales=1.0)
    for kshape in ((2, 2), (2, 3), (3, 4), (4, 4)):
        kernel = aa.Kernel2D.no_mask(values=-np.ones(kshape), pixel_scales=1.0)
        run_case(f"even-{kshape}", mask, kernel, rng)

    # ---- 5. plain ndarray masks (bool / 0-1 int / 0-1 float, C and Fortran order, non-contiguous views) -----------
    for rep in range(30):
        k0, k1 = int(rng.choice(sizes)), int(rng.choice(sizes))
        shape = (int(rng.integers(k0 + 1, 12)), int(rng.integers(k1 + 1, 12)))
        mask_2d = random_mask(rng, shape, (k0 // 2, k1 // 2), 0.5)
        kernel = aa.Kernel2D.no_mask(
            values=special_values(rng, rng.normal(size=(k0, k1)), int(rng.integers(0, 7))), pixel_scales=1.0
        )
        big = np.full((2 * shape[0], 2 * shape[1]), True)
        big[::2, ::2] = mask_2d
        variants = (
            mask_2d,
            mask_2d.astype(int),
            mask_2d.astype(float),
            mask_2d.astype(np.uint8),
            np.asfortranarray(mask_2d),
            big[::2, ::2],
        )
        for vi, variant in enumerate(variants):
            run_case(f"ndarray-{rep}-{vi}", variant, kernel, rng)

    # ---- 6. shared objects / repeated construction ---------------------------------------------------------------
    mask = aa.Mask2D(mask=mask_b, pixel_scales=(0.4, 0.9), origin=(0.1, 0.2))
    kernel = aa.Kernel2D.no_mask(values=laplacian, pixel_scales=(0.4, 0.9))
    first = run_case("shared-0", mask, kernel, rng)
    second = run_case("shared-1", mask, kernel, rng)
    for name in STATE:
        a, b = getattr(first, name), getattr(second, name)
        if isinstance(a, np.ndarray):
            feed("shared_" + name, (np.shares_memory(a, b), bool(np.array_equal(a, b))))
    # writing into the tables of one convolver does not affect the other, the mask or the kernel
    first.image_frame_1d_kernels[:] = 7.0
    first.image_frame_1d_indexes[:] = 0
    first.image_frame_1d_lengths[:] = 1
    first.blurring_frame_1d_kernels[:] = 7.0
    first.mask_index_array[:] = 3
    feed_state(second, mask, kernel)
    feed("mask_after", np.array(mask))
    feed("kernel_after", np.array(kernel))
    feed("kernel_native_after", np.array(kernel.native))
    run_case("shared-2", mask, kernel, rng)

    # other kernel / mask constructors
    mask_c = aa.Mask2D.circular(shape_native=(15, 12), radius=2.2, pixel_scales=(0.6, 0.5), centre=(0.3, -0.2))
    for ki, kernel in enumerate(
        (
            aa.Kernel2D.from_gaussian(shape_native=(5, 3), pixel_scales=0.5, sigma=0.8, normalize=True),
            aa.Kernel2D.no_mask(values=-np.ones((3, 5)), pixel_scales=0.5, normalize=True),
            aa.Kernel2D.no_mask(values=-np.ones((3, 5)), pixel_scales=0.5),
            aa.Kernel2D.ones(shape_native=(3, 3), pixel_scales=0.5),
        )
    ):
        run_case(f"constructors-{ki}", mask_c, kernel, rng)

    # the helper static method still behaves the same when called directly
    frame, kernel_frame = aa.Convolver.frame_at_coordinates_jit(
        coordinates=(2, 2),
        mask=mask_a,
        mask_index_array=first.mask_index_array[:7, :7],
        kernel_2d=np.array(laplacian),
    )
    feed("frame", frame)
    feed("kernel_frame", kernel_frame)

    print("cases", N_CASES[0])
    print("digest", H.hexdigest())


if __name__ == "__main__":
    main()
