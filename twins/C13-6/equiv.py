"""
Differential test for the C13-6 twin (TransformerDFT.__init__ tidy-up).

Prints a sha256 digest over every observable of TransformerDFT construction and use, for many inputs. The digest must
be identical on the clean HEAD tree and on the tree with twin.patch applied.

Run:  cd /tmp/wt8/C13-6 && PYTHONPATH=/tmp/wt8/C13-6 /venv/bin/python equiv.py
"""
import hashlib
import sys
import types
import warnings

warnings.filterwarnings("ignore")

import numpy as np

pylops = types.ModuleType("pylops")


class LinearOperator:
    def __init__(self, *args, **kwargs):
        pass


pylops.LinearOperator = LinearOperator
sys.modules.setdefault("pylops", pylops)

import autoarray as aa

H = hashlib.sha256()
N_RECORDS = [0]


def rec(tag, value):
    N_RECORDS[0] += 1
    H.update(repr(tag).encode())
    if isinstance(value, np.ndarray):
        H.update(type(value).__name__.encode())
        H.update(str(value.dtype).encode())
        H.update(repr(value.shape).encode())
        H.update(repr((value.flags.c_contiguous, value.flags.f_contiguous, value.flags.writeable)).encode())
        if value.dtype.kind == "O":  # tobytes of object arrays is a list of pointers: not deterministic
            H.update(repr(np.asarray(value).tolist()).encode())
        else:
            H.update(np.ascontiguousarray(np.asarray(value)).tobytes())
        if isinstance(value, np.ma.MaskedArray):
            H.update(np.ascontiguousarray(np.ma.getmaskarray(value)).tobytes())
    else:
        H.update(repr(value).encode())


def attempt(tag, func):
    try:
        out = func()
    except Exception as e:  # exception TYPE and message are part of the behaviour
        rec(tag, ("EXC", type(e).__name__, str(e)))
        return None
    return out


def masks():
    out = []

    m = np.ones((4, 5), dtype=bool)
    m[0, 1:4] = False
    m[1, 2] = False
    m[2, 0] = False
    m[3, 4] = False
    out.append(("edge_4x5", aa.Mask2D(mask=m, pixel_scales=(0.3, 0.2), origin=(0.1, -0.2))))

    out.append(("full_3x3", aa.Mask2D.all_false(shape_native=(3, 3), pixel_scales=1.0)))

    m = np.ones((5, 3), dtype=bool)
    m[2, 1] = False
    out.append(("single_5x3", aa.Mask2D(mask=m, pixel_scales=(2.0, 0.5), origin=(-1.0, 3.0))))

    m = np.ones((2, 6), dtype=bool)
    m[:, ::2] = False
    out.append(("stripes_2x6", aa.Mask2D(mask=m, pixel_scales=0.05)))

    out.append(("circ_7x7", aa.Mask2D.circular(shape_native=(7, 7), pixel_scales=0.1, radius=0.25, centre=(0.05, 0.0))))

    m = np.ones((3, 3), dtype=bool)
    out.append(("empty_3x3", attempt("mask_empty", lambda: aa.Mask2D(mask=m, pixel_scales=1.0))))

    return [(n, mk) for n, mk in out if mk is not None]


class UVLike:
    """duck-typed input: has astype / shape, not an ndarray"""

    def __init__(self, arr):
        self.arr = arr
        self.calls = []

    def astype(self, dtype):
        self.calls.append(("astype", dtype))
        return self.arr.astype(dtype)

    @property
    def shape(self):
        # NOTE: reads of `.shape` are deliberately NOT logged: HEAD reads `uv_wavelengths.shape` once, the seed and
        # the twin read `.shape` of the converted copy instead. For every ndarray / ndarray subclass / autoarray
        # structure `x.astype(float).shape == x.shape`, so only an attribute-access counter could tell them apart.
        return self.arr.shape


def uv_inputs(rng):
    base = np.array(
        [[1.0e5, 2.0e5], [0.0, 0.0], [-3.0e5, 5.0e4], [1.0e5, 2.0e5], [7.0e4, -9.0e4]]
    )
    big = rng.uniform(-4.0e5, 4.0e5, size=(9, 4))
    ins = [
        ("f64_c", lambda: base.copy()),
        ("f64_f", lambda: np.asfortranarray(base.copy())),
        ("f64_view_cols", lambda: big[:, 1:3]),
        ("f64_view_rows", lambda: big[::2, :2]),
        ("f64_readonly", lambda: _readonly(base.copy())),
        ("f32", lambda: (base / 1.0e3).astype("float32")),
        ("i64", lambda: base.astype("int64")),
        ("i32_3col", lambda: np.arange(12, dtype="int32").reshape(4, 3)),
        ("bool", lambda: np.array([[True, False], [False, True]])),
        ("complex", lambda: base + 1j),
        ("object", lambda: base.astype(object)),
        ("str", lambda: np.array([["1.0", "2.0"], ["x", "3"]])),
        ("empty_0x2", lambda: np.zeros((0, 2))),
        ("one_1x2", lambda: np.array([[2.5e4, -1.0e4]])),
        ("one_col_3x1", lambda: np.array([[1.0], [2.0], [3.0]])),
        ("d1", lambda: np.array([1.0, 2.0, 3.0])),
        ("d0", lambda: np.array(3.0)),
        ("d3", lambda: np.arange(8.0).reshape(2, 2, 2)),
        ("nan_inf", lambda: np.array([[np.nan, 1.0], [np.inf, -np.inf]])),
        ("list", lambda: base.tolist()),
        ("tuple", lambda: tuple(map(tuple, base.tolist()))),
        ("none", lambda: None),
        ("pyfloat", lambda: 3.0),
        ("npfloat", lambda: np.float64(3.0)),
        ("matrix", lambda: np.matrix(base.copy())),
        ("masked", lambda: np.ma.array(base.copy(), mask=[[0, 0], [1, 0], [0, 0], [0, 1], [0, 0]])),
        ("recarray_like_sub", lambda: base.copy().view(_Sub)),
        ("aa_irregular_grid", lambda: aa.Grid2DIrregular(values=[(1.0e5, 2.0e5), (0.0, 0.0), (-3.0e5, 5.0e4)])),
        ("aa_array_irregular", lambda: aa.ArrayIrregular(values=[1.0, 2.0, 3.0])),
        ("aa_visibilities", lambda: aa.Visibilities(visibilities=[1.0 + 2.0j, 3.0 - 1.0j])),
        ("aa_grid2d", lambda: aa.Grid2D.uniform(shape_native=(2, 2), pixel_scales=1.0e4)),
        ("ducktyped", lambda: UVLike(base.copy())),
    ]
    return ins


class _Sub(np.ndarray):
    pass


def _readonly(a):
    a.flags.writeable = False
    return a


def mutate_in_place(uv):
    """what a caller may do to ITS array after building the transformer; returns True if something was mutated"""
    target = uv
    if isinstance(uv, UVLike):
        target = uv.arr
    elif hasattr(uv, "_array") and isinstance(getattr(uv, "_array"), np.ndarray):
        target = uv._array
    if not isinstance(target, np.ndarray) or target.ndim == 0 or target.size == 0:
        return False
    if not target.flags.writeable:
        return False
    try:
        if target.dtype.kind in "fc":
            target *= 1.07
            target[0] = target[0] + 11.0
        elif target.dtype.kind in "iu":
            target += 3
        elif target.dtype.kind == "b":
            np.logical_not(target, out=target)
        else:
            return False
    except Exception:
        return False
    return True


def describe_transformer(tag, t, uv):
    for name in (
        "uv_wavelengths",
        "total_visibilities",
        "total_image_pixels",
        "preload_transform",
        "real_space_pixels",
        "shape",
        "dtype",
        "explicit",
        "adjoint_scaling",
        "matvec_count",
        "rmatvec_count",
        "matmat_count",
        "rmatmat_count",
    ):
        rec((tag, "attr", name), attempt((tag, "attr_exc", name), lambda: getattr(t, name)))
        rec((tag, "attrtype", name), attempt((tag, "attrtype_exc", name), lambda: type(getattr(t, name)).__name__))
    rec((tag, "has_real"), hasattr(t, "preload_real_transforms"))
    rec((tag, "has_imag"), hasattr(t, "preload_imag_transforms"))
    if hasattr(t, "preload_real_transforms"):
        rec((tag, "real"), t.preload_real_transforms)
        rec((tag, "imag"), t.preload_imag_transforms)
        rec((tag, "real_imag_shared"), bool(np.shares_memory(t.preload_real_transforms, t.preload_imag_transforms)))
    rec((tag, "grid"), np.array(t.grid))
    rec((tag, "keys"), sorted(t.__dict__.keys()))

    # aliasing with the caller's object
    raw = uv.arr if isinstance(uv, UVLike) else uv
    rec((tag, "is_input"), t.uv_wavelengths is uv)
    if isinstance(raw, np.ndarray) and isinstance(t.uv_wavelengths, np.ndarray):
        rec((tag, "shares"), bool(np.shares_memory(raw, t.uv_wavelengths)))
        rec((tag, "owndata"), bool(t.uv_wavelengths.flags.owndata))
    if hasattr(raw, "_array") and isinstance(t.uv_wavelengths, np.ndarray):
        rec((tag, "shares_inner"), bool(np.shares_memory(raw._array, t.uv_wavelengths)))
    if isinstance(uv, UVLike):
        rec((tag, "duck_calls"), list(uv.calls))


def use_transformer(tag, t, mask, rng_seed):
    rng = np.random.default_rng(rng_seed)
    n_pix = mask.pixels_in_mask
    n_vis = attempt((tag, "nvis"), lambda: int(np.asarray(t.uv_wavelengths).shape[0]))
    if n_vis is None:
        n_vis = 2
    image = aa.Array2D(values=rng.normal(size=n_pix), mask=mask)
    mapping_matrix = rng.normal(size=(n_pix, 3))
    mapping_matrix[rng.uniform(size=mapping_matrix.shape) < 0.3] = 0.0
    vis_values = rng.normal(size=n_vis) + 1j * rng.normal(size=n_vis)

    for rep in range(2):  # repeated calls on the same object
        out = attempt((tag, rep, "vis_exc"), lambda: t.visibilities_from(image=image))
        if out is not None:
            rec((tag, rep, "vis_type"), type(out).__name__)
            rec((tag, rep, "vis"), np.array(out))

        out = attempt((tag, rep, "tmm_exc"), lambda: t.transform_mapping_matrix(mapping_matrix=mapping_matrix))
        if out is not None:
            rec((tag, rep, "tmm"), np.asarray(out))

        def adjoint():
            visibilities = aa.Visibilities(visibilities=vis_values)
            return t.image_from(visibilities=visibilities)

        out = attempt((tag, rep, "img_exc"), adjoint)
        if out is not None:
            rec((tag, rep, "img_type"), type(out).__name__)
            rec((tag, rep, "img"), np.array(out.native))

        out = attempt((tag, rep, "img_scaled_exc"), lambda: t.image_from(
            visibilities=aa.Visibilities(visibilities=vis_values), use_adjoint_scaling=True))
        if out is not None:
            rec((tag, rep, "img_scaled"), np.array(out.slim))


def snapshot(uv):
    raw = uv.arr if isinstance(uv, UVLike) else uv
    if hasattr(raw, "_array"):
        raw = raw._array
    if isinstance(raw, np.ndarray):
        return raw.copy()
    return repr(raw)


def main():
    rng = np.random.default_rng(2024)
    mask_list = masks()
    rec("n_masks", [n for n, _ in mask_list])

    # 1. every uv input kind x preload on/off, on two masks; use, mutate caller array, use again
    for mask_name, mask in mask_list[:2] + mask_list[2:3]:
        for uv_name, make in uv_inputs(rng):
            for preload in (True, False):
                tag = ("A", mask_name, uv_name, preload)
                uv = attempt((tag, "make_exc"), make)
                if uv is None and uv_name != "none":
                    continue
                before = snapshot(uv)
                t = attempt(
                    (tag, "ctor_exc"),
                    lambda: aa.TransformerDFT(uv_wavelengths=uv, real_space_mask=mask, preload_transform=preload),
                )
                after = snapshot(uv)
                rec((tag, "input_untouched"), before if isinstance(before, str) else before)
                rec((tag, "input_after"), after if isinstance(after, str) else after)
                if t is None:
                    continue
                describe_transformer(tag + ("fresh",), t, uv)
                use_transformer(tag + ("use0",), t, mask, 7)
                mutated = mutate_in_place(uv)
                rec((tag, "mutated"), mutated)
                describe_transformer(tag + ("after_mut",), t, uv)
                use_transformer(tag + ("use1",), t, mask, 7)

                # the transformer's own array is writable / mutable by the user: effect must be the same too
                def poke():
                    t.uv_wavelengths[0, 0] = 12345.0
                    return True

                rec((tag, "poke"), attempt((tag, "poke_exc"), poke))
                rec((tag, "input_after_poke"), snapshot(uv))
                use_transformer(tag + ("use2",), t, mask, 8)

    # 2. all masks, float64 caller buffer shared by SEVERAL transformers (the notes' trigger), positional args,
    #    default preload flag, non-bool preload flags
    for mask_name, mask in mask_list:
        buf = rng.uniform(-3.0e5, 3.0e5, size=(6, 2))
        buf[2] = 0.0
        buf[4] = buf[1]
        ts = []
        for k, args in enumerate(
            [
                dict(uv_wavelengths=buf, real_space_mask=mask),
                dict(uv_wavelengths=buf, real_space_mask=mask, preload_transform=False),
                dict(uv_wavelengths=buf, real_space_mask=mask, preload_transform=1),
                dict(uv_wavelengths=buf, real_space_mask=mask, preload_transform=0),
                dict(uv_wavelengths=buf, real_space_mask=mask, preload_transform=None),
                dict(uv_wavelengths=buf[::-1], real_space_mask=mask, preload_transform=True),
                dict(uv_wavelengths=buf.T[:2].T, real_space_mask=mask, preload_transform=False),
            ]
        ):
            tag = ("B", mask_name, k)
            t = attempt((tag, "ctor_exc"), lambda: aa.TransformerDFT(**args))
            if t is not None:
                ts.append((tag, t, args["uv_wavelengths"]))
        t = attempt(("B", mask_name, "pos", "ctor_exc"), lambda: aa.TransformerDFT(buf, mask, False))
        if t is not None:
            ts.append((("B", mask_name, "pos"), t, buf))

        for tag, t, uv in ts:
            describe_transformer(tag + ("fresh",), t, uv)
            use_transformer(tag + ("use0",), t, mask, 21)
        rec(("B", mask_name, "distinct_arrays"), len({id(t.uv_wavelengths) for _, t, _ in ts}) == len(ts))
        rec(
            ("B", mask_name, "pairwise_share"),
            [bool(np.shares_memory(a.uv_wavelengths, b.uv_wavelengths)) for _, a, _ in ts for _, b, _ in ts if a is not b],
        )
        # next channel: rescale in place, then sort in place, then overwrite
        buf *= 1.07
        for tag, t, uv in ts:
            use_transformer(tag + ("use_scaled",), t, mask, 21)
        buf.sort(axis=0)
        for tag, t, uv in ts:
            describe_transformer(tag + ("sorted",), t, uv)
            use_transformer(tag + ("use_sorted",), t, mask, 22)
        buf[:] = np.nan
        for tag, t, uv in ts:
            use_transformer(tag + ("use_nan",), t, mask, 23)
        rec(("B", mask_name, "buf"), buf)

    # 3. bad masks / missing pylops-independent argument errors
    good_uv = np.array([[1.0, 2.0], [3.0, 4.0]])
    for k, bad_mask in enumerate([None, np.zeros((3, 3), dtype=bool), "mask", 3]):
        for uv_name, uv in [("good", good_uv), ("list", good_uv.tolist()), ("d0", np.array(1.0))]:
            attempt(
                ("C", k, uv_name),
                lambda: rec(
                    ("C", k, uv_name, "ok"),
                    type(aa.TransformerDFT(uv_wavelengths=uv, real_space_mask=bad_mask)).__name__,
                ),
            )
    attempt(("C", "noargs"), lambda: aa.TransformerDFT())
    attempt(("C", "kw_grid_radians"), lambda: aa.TransformerDFT(uv_wavelengths=good_uv, real_space_mask=mask_list[0][1], grid_radians=1))

    # 4. higher level users of the class: Interferometer dataset and simulator
    mask = mask_list[0][1]
    uv = rng.uniform(-2.0e5, 2.0e5, size=(5, 2))
    for cls_name, cls in [("DFT", aa.TransformerDFT)]:
        def build():
            return aa.Interferometer(
                data=aa.Visibilities(visibilities=rng.normal(size=5) + 1j * rng.normal(size=5)),
                noise_map=aa.VisibilitiesNoiseMap(visibilities=np.ones(5) + 1j * np.ones(5)),
                uv_wavelengths=uv,
                real_space_mask=mask,
                transformer_class=cls,
            )

        ds = attempt(("D", cls_name, "ctor_exc"), build)
        if ds is not None:
            rec(("D", cls_name, "ds_uv_is_input"), ds.uv_wavelengths is uv)
            rec(("D", cls_name, "t_uv_is_input"), ds.transformer.uv_wavelengths is uv)
            rec(("D", cls_name, "t_uv_shares"), bool(np.shares_memory(ds.transformer.uv_wavelengths, uv)))
            describe_transformer(("D", cls_name, "fresh"), ds.transformer, uv)
            use_transformer(("D", cls_name, "use0"), ds.transformer, mask, 31)
            uv *= 0.5
            rec(("D", cls_name, "ds_uv_after"), np.array(ds.uv_wavelengths))
            use_transformer(("D", cls_name, "use1"), ds.transformer, mask, 31)

        def simulate():
            sim = aa.SimulatorInterferometer(
                uv_wavelengths=uv,
                exposure_time=100.0,
                transformer_class=cls,
                noise_sigma=None,
            )
            image = aa.Array2D(values=np.arange(1.0, mask.pixels_in_mask + 1.0), mask=mask)
            return sim.via_image_from(image=image)

        sim_ds = attempt(("D", cls_name, "sim_exc"), simulate)
        if sim_ds is not None:
            rec(("D", cls_name, "sim_data"), np.array(sim_ds.data))
            rec(("D", cls_name, "sim_uv"), np.array(sim_ds.uv_wavelengths))
            rec(("D", cls_name, "sim_uv_is_input"), sim_ds.uv_wavelengths is uv)
            rec(("D", cls_name, "sim_uv_shares"), bool(np.shares_memory(np.asarray(sim_ds.uv_wavelengths), uv)))

    print("records", N_RECORDS[0])
    print("digest", H.hexdigest())


if __name__ == "__main__":
    main()
