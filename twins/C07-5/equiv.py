"""
Differential test for the C07-5 twin (AdaptiveBrightness.regularization_matrix_from).

Prints a sha256 digest over every result (type, dtype, shape, raw bytes) or raised exception (type name and message) of
`regularization_matrix_from` / `regularization_weights_from` for the adaptive-brightness family of schemes on many
linear objects. Run on the clean tree and on the twin tree: the two digests must be identical.

    cd /tmp/wt8/C07-5 && PYTHONPATH=/tmp/wt8/C07-5 /venv/bin/python equiv.py
"""
import hashlib
import warnings

warnings.filterwarnings("ignore")

import numpy as np

np.seterr(all="ignore")

import autoarray as aa
from autoarray.inversion.linear_obj.neighbors import Neighbors

H = hashlib.sha256()
N_CASES = 0
N_EXC = 0
N_ZERO = 0  # cases whose reported weights are all exactly zero (these reach the twin's fast path)
N_NAN = 0


def feed(label, fn, exc_message=True):
    global N_CASES, N_EXC
    N_CASES += 1
    H.update(label.encode())
    try:
        out = fn()
    except Exception as e:  # noqa
        N_EXC += 1
        H.update(b"EXC")
        H.update(type(e).__name__.encode())
        if exc_message:
            H.update(str(e).encode())
        return None
    arr = np.asarray(out)
    H.update(type(out).__name__.encode())
    H.update(str(arr.dtype).encode())
    H.update(repr(arr.shape).encode())
    H.update(np.ascontiguousarray(arr).tobytes())
    return arr


# ---------------------------------------------------------------------------------------------------------------
# linear objects
# ---------------------------------------------------------------------------------------------------------------


def make_mask(kind):
    if kind == "full_6x5":
        return aa.Mask2D.all_false(
            shape_native=(6, 5), pixel_scales=(0.3, 0.2), origin=(0.4, -0.3)
        )
    if kind == "full_4x7":
        return aa.Mask2D.all_false(shape_native=(4, 7), pixel_scales=0.25)
    if kind == "circ_9x11":
        return aa.Mask2D.circular(
            shape_native=(9, 11), pixel_scales=(0.2, 0.15), radius=0.8, centre=(0.1, -0.05)
        )
    if kind == "edge_7x6":
        m = np.ones((7, 6), dtype=bool)
        m[0, :] = False  # touches the top edge
        m[:, 0] = False  # touches the left edge
        m[3:6, 2:5] = False
        m[6, 5] = False  # corner pixel
        return aa.Mask2D(mask=m, pixel_scales=(0.1, 0.35), origin=(-1.0, 2.0))
    if kind == "single":
        m = np.ones((3, 3), dtype=bool)
        m[1, 1] = False
        return aa.Mask2D(mask=m, pixel_scales=1.0)
    raise ValueError(kind)


def make_mapper(mask_kind, mesh_kind, adapt_kind, sub_size=1, mesh_shape=(3, 5), n_points=12, seed=0):
    rng = np.random.default_rng(seed)
    mask = make_mask(mask_kind)
    over_sampler = aa.OverSamplerUniform(mask=mask, sub_size=sub_size)
    grid = over_sampler.over_sampled_grid
    n = mask.pixels_in_mask

    if adapt_kind == "random":
        adapt = aa.Array2D(values=rng.uniform(0.1, 2.0, size=n), mask=mask)
    elif adapt_kind == "zeros":
        adapt = aa.Array2D(values=np.zeros(n), mask=mask)
    elif adapt_kind == "negative":
        adapt = aa.Array2D(values=rng.uniform(-1.0, 1.0, size=n), mask=mask)
    elif adapt_kind == "hot":
        v = np.zeros(n)
        v[n // 2] = 3.0
        adapt = aa.Array2D(values=v, mask=mask)
    elif adapt_kind == "ones":
        adapt = aa.Array2D(values=np.ones(n), mask=mask)
    elif adapt_kind == "none":
        adapt = None
    else:
        raise ValueError(adapt_kind)

    g = np.asarray(grid)
    lo, hi = g.min(axis=0), g.max(axis=0)

    if mesh_kind == "rect":
        mesh_grid = aa.Mesh2DRectangular.overlay_grid(shape_native=mesh_shape, grid=grid)
        cls = aa.MapperRectangular
    elif mesh_kind == "delaunay":
        pts = rng.uniform(lo - 0.05, hi + 0.05, size=(n_points, 2))
        mesh_grid = aa.Mesh2DDelaunay(values=pts)
        cls = aa.MapperDelaunay
    elif mesh_kind == "voronoi":
        pts = rng.uniform(lo - 0.05, hi + 0.05, size=(n_points, 2))
        mesh_grid = aa.Mesh2DVoronoi(values=pts)
        cls = aa.MapperVoronoi
    else:
        raise ValueError(mesh_kind)

    mapper_grids = aa.MapperGrids(
        mask=mask,
        source_plane_data_grid=grid,
        source_plane_mesh_grid=mesh_grid,
        image_plane_mesh_grid=None,
        adapt_data=adapt,
    )
    return cls(
        mapper_grids=mapper_grids,
        over_sampler=over_sampler,
        border_relocator=None,
        regularization=None,
    )


class StubMeshGrid:
    def __init__(self, neighbors):
        self.neighbors = neighbors


class StubLinearObj:
    """Minimal linear object: fixed pixel signals and a hand-made neighbors array (lets us desynchronise them)."""

    def __init__(self, signals, neighbors=None, with_mesh=True):
        self._signals = signals
        if with_mesh:
            self.source_plane_mesh_grid = StubMeshGrid(neighbors)

    def pixel_signals_from(self, signal_scale):
        if isinstance(self._signals, Exception):
            raise self._signals
        return np.asarray(self._signals, dtype=float) ** signal_scale


def ring_neighbors(n, one_way=False):
    arr = -1 * np.ones((n, 2), dtype=int)
    sizes = np.zeros(n, dtype=int)
    for i in range(n):
        if one_way:
            arr[i, 0] = (i + 1) % n
            sizes[i] = 1
        else:
            arr[i, 0] = (i - 1) % n
            arr[i, 1] = (i + 1) % n
            sizes[i] = 2
    return Neighbors(arr=arr, sizes=sizes)


linear_objs = {}

for mask_kind, mesh_kind, adapt_kind, kw in [
    ("full_6x5", "rect", "random", dict(mesh_shape=(3, 5))),
    ("full_6x5", "rect", "random", dict(mesh_shape=(5, 3), seed=1)),
    ("full_6x5", "rect", "random", dict(mesh_shape=(3, 3), sub_size=2)),
    ("full_6x5", "rect", "zeros", dict(mesh_shape=(3, 4))),
    ("full_6x5", "rect", "negative", dict(mesh_shape=(4, 3))),
    ("full_6x5", "rect", "hot", dict(mesh_shape=(4, 4))),
    ("full_6x5", "rect", "ones", dict(mesh_shape=(3, 3))),
    ("full_6x5", "rect", "none", dict(mesh_shape=(3, 3))),
    ("full_4x7", "rect", "random", dict(mesh_shape=(3, 6), seed=2)),
    ("full_4x7", "rect", "random", dict(mesh_shape=(7, 3), seed=3, sub_size=2)),
    ("circ_9x11", "rect", "random", dict(mesh_shape=(4, 6), seed=4)),
    ("circ_9x11", "rect", "hot", dict(mesh_shape=(6, 4), seed=4)),
    ("edge_7x6", "rect", "random", dict(mesh_shape=(3, 4), seed=5)),
    ("edge_7x6", "rect", "negative", dict(mesh_shape=(5, 5), seed=5)),
    ("single", "rect", "random", dict(mesh_shape=(3, 3), seed=6)),
    ("single", "rect", "zeros", dict(mesh_shape=(3, 3), seed=6)),
    ("full_6x5", "delaunay", "random", dict(n_points=14, seed=7)),
    ("full_6x5", "delaunay", "zeros", dict(n_points=9, seed=8)),
    ("full_6x5", "delaunay", "hot", dict(n_points=9, seed=8)),
    ("full_6x5", "delaunay", "none", dict(n_points=9, seed=8)),
    ("full_4x7", "delaunay", "random", dict(n_points=4, seed=9)),
    ("circ_9x11", "delaunay", "random", dict(n_points=20, seed=10, sub_size=2)),
    ("edge_7x6", "delaunay", "negative", dict(n_points=11, seed=11)),
    ("edge_7x6", "delaunay", "random", dict(n_points=3, seed=12)),
    ("full_6x5", "voronoi", "random", dict(n_points=10, seed=13)),
    ("circ_9x11", "voronoi", "hot", dict(n_points=8, seed=14)),
]:
    label = f"{mesh_kind}|{mask_kind}|{adapt_kind}|{sorted(kw.items())}"
    try:
        linear_objs[label] = make_mapper(mask_kind, mesh_kind, adapt_kind, **kw)
    except Exception as e:  # construction does not touch the code under test: identical on both trees
        H.update(("BUILD-EXC " + label + type(e).__name__).encode())

rng = np.random.default_rng(123)
linear_objs["stub|ring5"] = StubLinearObj(rng.uniform(0, 1, 5), ring_neighbors(5))
linear_objs["stub|ring6 one-way (asymmetric neighbors)"] = StubLinearObj(
    rng.uniform(0, 1, 6), ring_neighbors(6, one_way=True)
)
linear_objs["stub|signals all 1"] = StubLinearObj(np.ones(4), ring_neighbors(4))
linear_objs["stub|signals all 0"] = StubLinearObj(np.zeros(4), ring_neighbors(4))
linear_objs["stub|signals 0/1"] = StubLinearObj(np.array([0.0, 1.0, 1.0, 0.0]), ring_neighbors(4))
linear_objs["stub|signals nan"] = StubLinearObj(np.array([0.5, np.nan, 1.0]), ring_neighbors(3))
linear_objs["stub|signals inf"] = StubLinearObj(np.array([0.5, np.inf, 1.0]), ring_neighbors(3))
linear_objs["stub|signals > 1"] = StubLinearObj(np.array([0.5, 2.0, 1.0, 3.0]), ring_neighbors(4))
linear_objs["stub|single pixel no neighbors"] = StubLinearObj(
    np.array([1.0]), Neighbors(arr=-1 * np.ones((1, 1), dtype=int), sizes=np.zeros(1, dtype=int))
)
linear_objs["stub|empty"] = StubLinearObj(
    np.zeros(0), Neighbors(arr=np.zeros((0, 1), dtype=int), sizes=np.zeros(0, dtype=int))
)
linear_objs["stub|neighbors longer than signals"] = StubLinearObj(rng.uniform(0, 1, 3), ring_neighbors(5))
linear_objs["stub|neighbors shorter than signals"] = StubLinearObj(rng.uniform(0, 1, 5), ring_neighbors(3))
linear_objs["stub|neighbor index -1 used"] = StubLinearObj(
    rng.uniform(0, 1, 3),
    Neighbors(arr=np.array([[1, -1], [0, 2], [1, -1]]), sizes=np.array([2, 2, 1])),
)
linear_objs["stub|sizes too short"] = StubLinearObj(
    rng.uniform(0, 1, 4), Neighbors(arr=ring_neighbors(4), sizes=np.array([2, 2]))
)
linear_objs["stub|signals raise"] = StubLinearObj(KeyError("boom"), ring_neighbors(4))
linear_objs["stub|no mesh grid"] = StubLinearObj(rng.uniform(0, 1, 4), with_mesh=False)
linear_objs["stub|no mesh grid and signals raise"] = StubLinearObj(ZeroDivisionError("zd"), with_mesh=False)
linear_objs["stub|neighbors None"] = StubLinearObj(rng.uniform(0, 1, 4), None)
linear_objs["stub|neighbors plain ndarray (no sizes)"] = StubLinearObj(
    rng.uniform(0, 1, 4), np.asarray(ring_neighbors(4))
)
linear_objs["not a linear obj"] = object()

# ---------------------------------------------------------------------------------------------------------------
# schemes
# ---------------------------------------------------------------------------------------------------------------

coefficient_sets = [
    (0.7, 1.9, 0.8),
    (1.3, 0.2, 1.5),
    (0.7, 0.7, 0.8),  # the seed's trigger: inner == outer
    (1.0, 1.0, 1.0),  # class defaults
    (3.0, 3.0, 0.0),
    (0.1, 0.1, 2.5),
    (1e-3, 1e-3, 1.0),
    (0.0, 0.0, 1.0),  # all weights exactly zero
    (0.0, 0.0, 0.5),
    (-0.0, 0.0, 1.0),
    (0.0, 2.0, 1.0),
    (2.0, 0.0, 1.0),
    (0.0, 2.0, 0.0),  # signal_scale 0 -> signals all 1 -> weights all zero although inner != outer
    (2.0, 0.0, 0.0),
    (-1.0, 1.0, 1.0),  # weights vanish where the signal is 0.5
    (-2.0, -2.0, 1.0),
    (1e-200, 1e-200, 1.0),  # weights underflow to exactly zero
    (1e-170, 3e-170, 1.0),
    (1e200, 1e200, 1.0),  # weights overflow to inf
    (np.nan, np.nan, 1.0),
    (np.inf, np.inf, 1.0),
    (2, 2, 1),  # python ints
    (np.float32(0.3), np.float32(0.3), 1.0),
    (0.3, 0.3, -1.0),  # negative signal scale -> inf signals where the signal is 0
]

for _ in range(12):
    a, b = rng.uniform(0.01, 5.0, size=2)
    coefficient_sets.append((float(a), float(b), float(rng.uniform(0.1, 2.0))))
    coefficient_sets.append((float(a), float(a), float(rng.uniform(0.1, 2.0))))


def schemes():
    for inner, outer, scale in coefficient_sets:
        yield f"AB({inner!r},{outer!r},{scale!r})", aa.reg.AdaptiveBrightness(inner, outer, scale)
    yield "AB()", aa.reg.AdaptiveBrightness()
    yield "AB(inner_coefficient=2.0)", aa.reg.AdaptiveBrightness(inner_coefficient=2.0)
    yield "AB(outer_coefficient=0.0, inner_coefficient=0.0)", aa.reg.AdaptiveBrightness(
        outer_coefficient=0.0, inner_coefficient=0.0
    )


for scheme_label, reg in schemes():
    for obj_label, obj in linear_objs.items():
        label = f"{scheme_label}@{obj_label}"
        w = feed("W " + label, lambda: reg.regularization_weights_from(linear_obj=obj))
        m1 = feed("M " + label, lambda: reg.regularization_matrix_from(linear_obj=obj))
        # repeated call on the same (shared, cached) objects, and fresh-result / aliasing check: mutate the first
        # result in place and make sure a second call is unaffected.
        if m1 is not None and m1.size:
            m1 += 1.0
        feed("M2 " + label, lambda: reg.regularization_matrix_from(linear_obj=obj))
        feed("W2 " + label, lambda: reg.regularization_weights_from(linear_obj=obj))
        if w is not None and w.size:
            if not np.any(w):
                N_ZERO += 1
            if np.isnan(w).any():
                N_NAN += 1

# attributes mutated between calls on one shared instance (no stale state may be kept)
reg = aa.reg.AdaptiveBrightness(0.0, 0.0, 1.0)
obj = linear_objs["rect|full_6x5|random|[('mesh_shape', (3, 5))]"]
feed("mut 0", lambda: reg.regularization_matrix_from(linear_obj=obj))
reg.inner_coefficient = 0.4
feed("mut 1", lambda: reg.regularization_matrix_from(linear_obj=obj))
reg.outer_coefficient = 0.4
feed("mut 2", lambda: reg.regularization_matrix_from(linear_obj=obj))
reg.inner_coefficient = reg.outer_coefficient = 0.0
feed("mut 3", lambda: reg.regularization_matrix_from(linear_obj=obj))
reg.signal_scale = 0.0
reg.outer_coefficient = 5.0
feed("mut 4", lambda: reg.regularization_matrix_from(linear_obj=obj))

# corrupt neighbors (an index beyond the pixel count, lengths consistent). Both trees raise IndexError; when all weights
# are exactly zero the twin's IndexError comes from the matrix column instead of the weight lookup, so its *message*
# names axis 1 instead of axis 0. Only the exception type is digested for this one object.
bad = StubLinearObj(
    np.array([0.2, 1.0, 0.6]),
    Neighbors(arr=np.array([[1, 9], [0, 2], [1, -1]]), sizes=np.array([2, 2, 1])),
)
for inner, outer, scale in [(0.7, 1.9, 0.8), (0.7, 0.7, 1.0), (0.0, 0.0, 1.0), (0.0, 3.0, 0.0)]:
    reg = aa.reg.AdaptiveBrightness(inner, outer, scale)
    feed(f"bad-index({inner},{outer},{scale})", lambda: reg.regularization_matrix_from(linear_obj=bad), exc_message=False)

# the subclasses which override the method, and the sibling schemes, for completeness
mappers_only = {k: v for k, v in linear_objs.items() if not k.startswith(("stub", "not"))}
for scheme_label, reg in [
    ("ABSplit(0.5,0.5,1)", aa.reg.AdaptiveBrightnessSplit(0.5, 0.5, 1.0)),
    ("ABSplit(0,0,1)", aa.reg.AdaptiveBrightnessSplit(0.0, 0.0, 1.0)),
    ("ABSplit(0.5,1.5,0.7)", aa.reg.AdaptiveBrightnessSplit(0.5, 1.5, 0.7)),
    ("Constant(0)", aa.reg.Constant(0.0)),
    ("Constant(1.3)", aa.reg.Constant(1.3)),
]:
    for obj_label, obj in mappers_only.items():
        feed(f"{scheme_label}@{obj_label}", lambda: reg.regularization_matrix_from(linear_obj=obj))

# inversion level: the scheme attached to mappers of a two-mapper inversion (block placement + reduced matrix)
for inner, outer in [(0.6, 0.6), (0.0, 0.0), (0.3, 1.7)]:

    def run():
        mask = make_mask("full_6x5")
        m_a = make_mapper("full_6x5", "rect", "random", mesh_shape=(3, 4), seed=20)
        m_b = make_mapper("full_6x5", "delaunay", "random", n_points=9, seed=21)
        m_a.regularization = aa.reg.AdaptiveBrightness(inner, outer, 0.9)
        m_b.regularization = aa.reg.AdaptiveBrightness(outer, inner, 1.1)
        r = np.random.default_rng(5)
        n = mask.pixels_in_mask
        dataset = aa.Imaging(
            data=aa.Array2D(values=r.uniform(0.5, 1.5, n), mask=mask),
            noise_map=aa.Array2D(values=r.uniform(0.1, 0.2, n), mask=mask),
            psf=aa.Kernel2D.no_mask(values=[[0.0, 0.1, 0.0], [0.1, 0.6, 0.1], [0.0, 0.1, 0.0]], pixel_scales=(0.3, 0.2)),
        )
        inv = aa.Inversion(
            dataset=dataset,
            linear_obj_list=[m_a, m_b],
            settings=aa.SettingsInversion(use_w_tilde=False),
        )
        return np.concatenate(
            [np.asarray(inv.regularization_matrix).ravel(), np.asarray(inv.regularization_matrix_reduced).ravel()]
        )

    feed(f"inversion({inner},{outer})", run)

print(
    f"cases {N_CASES}  exceptions {N_EXC}  all-zero-weight cases {N_ZERO}  nan-weight cases {N_NAN}  "
    f"linear objects {len(linear_objs)}"
)
print("digest", H.hexdigest())
