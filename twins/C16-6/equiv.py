"""
Differential test for the C16-6 twin (1D ``hdu_for_output_from`` delegating to the 2D one).

Prints a sha256 digest over every observable result (HDU data bytes / dtype / shape, full header card list,
aliasing between input and HDU data, file round trips, raised exception types) for the 1D and 2D FITS output routes,
under flip_for_ds9 = False and True.

Run:  cd /tmp/wt8/C16-6 && PYTHONPATH=/tmp/wt8/C16-6 /venv/bin/python equiv.py
The digest must be identical on the clean HEAD tree and on the tree with twin.patch applied.
"""
import hashlib
import os
import tempfile
import warnings

import numpy as np
from astropy.io import fits
from autoconf import conf

import autoarray as aa
from autoarray.structures.arrays import array_1d_util, array_2d_util

warnings.filterwarnings("ignore")

workdir = tempfile.mkdtemp()
records = []


def rec(tag, value):
    records.append(f"{tag} :: {value}")


def desc_array(a):
    if a is None:
        return "None"
    a = np.asarray(a)
    if a.dtype == object:  # tobytes() of an object array is memory addresses: not deterministic across processes
        return f"{a.dtype.str}|{a.shape}|{a.tolist()!r}"
    return f"{a.dtype.str}|{a.shape}|{hashlib.sha256(np.ascontiguousarray(a).tobytes()).hexdigest()}"


def desc_header(header):
    return repr([(c.keyword, repr(c.value), c.comment) for c in header.cards])


def desc_hdu(hdu):
    return f"{type(hdu).__name__}|{desc_array(hdu.data)}|{desc_header(hdu.header)}"


def attempt(tag, func):
    try:
        value = func()
    except BaseException as e:  # noqa
        rec(tag, f"EXC {type(e).__name__}")
        return None
    rec(tag, value)
    return value


def push_flip_config(flip):
    config_path = os.path.join(workdir, f"config_flip_{flip}")
    os.makedirs(config_path, exist_ok=True)
    with open(os.path.join(config_path, "general.yaml"), "w") as f:
        f.write(f"fits:\n  flip_for_ds9: {'true' if flip else 'false'}\n")
    conf.instance.push(new_path=config_path, output_path=os.path.join(workdir, "output"))
    assert conf.instance["general"]["fits"]["flip_for_ds9"] is flip


rng = np.random.RandomState(12345)


def inputs_1d():
    """(name, factory) pairs; factories so each call gets a fresh object."""
    out = []
    for n in (0, 1, 2, 3, 5, 8, 17):
        out.append((f"float{n}", lambda n=n: np.arange(n, dtype="float64") * 1.5 - 2.0))
        out.append((f"rand{n}", lambda n=n: np.random.RandomState(n).normal(size=n)))
    out.append(("int64", lambda: np.array([3, 1, 4, 1, 5, 9, 2, 6], dtype="int64")))
    out.append(("int32", lambda: np.array([3, 1, 4, 1, 5], dtype="int32")))
    out.append(("int16", lambda: np.array([3, -1, 4], dtype="int16")))
    out.append(("uint8", lambda: np.array([3, 1, 4, 250], dtype="uint8")))
    out.append(("uint16", lambda: np.array([3, 1, 65535], dtype="uint16")))
    out.append(("float32", lambda: np.array([1.0, -2.0, 3.5], dtype="float32")))
    out.append(("bool", lambda: np.array([True, False, False, True, True])))
    out.append(("complex", lambda: np.array([1 + 2j, 3 - 1j, 0.5j])))
    out.append(("bigendian", lambda: np.array([1.0, 2.0, 4.0], dtype=">f8")))
    out.append(("noncontig", lambda: np.arange(12, dtype="float64")[::3]))
    out.append(("reversed_view", lambda: np.arange(6, dtype="float64")[::-1]))
    out.append(("readonly", lambda: _readonly(np.array([1.0, 2.0, 3.0]))))
    out.append(("nan_inf", lambda: np.array([np.nan, np.inf, -np.inf, 0.0, -0.0])))
    out.append(("zero_d", lambda: np.array(3.0)))
    out.append(("two_d_2x3", lambda: np.arange(6, dtype="float64").reshape(2, 3)))
    out.append(("two_d_3x1", lambda: np.arange(3, dtype="float64").reshape(3, 1)))
    out.append(("three_d", lambda: np.arange(24, dtype="float64").reshape(2, 3, 4)))
    out.append(("list", lambda: [1.0, 2.0, 3.0]))
    out.append(("list_of_lists", lambda: [[1.0, 2.0], [3.0, 4.0]]))
    out.append(("tuple", lambda: (1.0, 2.0, 3.0)))
    out.append(("none", lambda: None))
    out.append(("string", lambda: "abc"))
    out.append(("scalar", lambda: 3.0))
    out.append(("str_array", lambda: np.array(["a", "bc"])))
    out.append(("object_array", lambda: np.array([1, "a", None], dtype=object)))
    out.append(("array1d_obj", lambda: aa.Array1D.no_mask(values=[1.0, 2.0, 4.0], pixel_scales=1.0)))
    out.append(("array1d_native", lambda: aa.Array1D.no_mask(values=[1.0, 2.0, 4.0], pixel_scales=1.0).native))
    return out


def _readonly(a):
    a.setflags(write=False)
    return a


class BadItems(dict):
    def items(self):
        raise RuntimeError("items")


def header_dicts():
    return [
        ("none", lambda: None),
        ("empty", lambda: {}),
        ("pixscale", lambda: {"PIXSCALE": 0.5}),
        ("multi", lambda: {"PIXSCALE": 0.5, "ORIGIN": 1.0, "NAME": "abc", "FLAG": True, "N": 3}),
        ("lower", lambda: {"lower": 1}),
        ("longkey", lambda: {"AVERYLONGKEYWORD": 1.0}),
        ("hierarch", lambda: {"HIERARCH a b": 2}),
        ("structural", lambda: {"NAXIS": 7, "BITPIX": 8, "SIMPLE": False}),
        ("dupe_comment", lambda: {"COMMENT": "hello", "HISTORY": "there"}),
        ("bad_value", lambda: {"KEY": [1, 2]}),
        ("bad_value_obj", lambda: {"KEY": object()}),
        ("bad_key_int", lambda: {3: 1.0}),
        ("bad_key_chars", lambda: {"A=B": 1.0}),
        ("nan_value", lambda: {"KEY": float("nan")}),
        ("long_string", lambda: {"KEY": "x" * 100}),
        ("not_a_dict_list", lambda: [("A", 1)]),
        ("not_a_dict_str", lambda: "abc"),
        ("bad_items", lambda: BadItems(a=1)),
        ("zero_falsy", lambda: 0),
    ]


def check_util_1d(flip):
    tag0 = f"flip={flip}|util1d"
    for aname, afac in inputs_1d():
        for hname, hfac in header_dicts():
            if hname not in ("none", "pixscale") and aname not in ("float5", "float0", "zero_d", "two_d_2x3", "none"):
                continue
            tag = f"{tag0}|{aname}|{hname}"
            arr = afac()
            hd = hfac()
            before = desc_array(arr) if isinstance(arr, np.ndarray) else repr(arr)
            hd_before = repr(hd) if not isinstance(hd, BadItems) else "bad"

            def run():
                hdu = array_1d_util.hdu_for_output_from(array_1d=arr, header_dict=hd)
                alias = "n/a"
                if isinstance(arr, np.ndarray) and hdu.data is not None:
                    alias = (
                        f"is={hdu.data is arr}|shares={np.shares_memory(hdu.data, arr) if arr.dtype != object else 'obj'}"
                        f"|strides={hdu.data.strides}|type={type(hdu.data).__name__}"
                    )
                return f"{desc_hdu(hdu)}|alias:{alias}"

            attempt(tag, run)
            after = desc_array(arr) if isinstance(arr, np.ndarray) else repr(arr)
            rec(tag + "|input_unchanged", before == after)
            if not isinstance(hd, BadItems):
                rec(tag + "|hd_unchanged", hd_before == repr(hd))

    # positional call + keyword misuse
    attempt(f"{tag0}|positional", lambda: desc_hdu(array_1d_util.hdu_for_output_from(np.arange(4.0), {"A": 1})))
    attempt(f"{tag0}|positional1", lambda: desc_hdu(array_1d_util.hdu_for_output_from(np.arange(4.0))))
    attempt(f"{tag0}|noargs", lambda: desc_hdu(array_1d_util.hdu_for_output_from()))
    attempt(f"{tag0}|array_2d_kw", lambda: desc_hdu(array_1d_util.hdu_for_output_from(array_2d=np.arange(4.0))))
    attempt(
        f"{tag0}|three_positional", lambda: desc_hdu(array_1d_util.hdu_for_output_from(np.arange(4.0), None, True))
    )
    attempt(
        f"{tag0}|flip_kw",
        lambda: desc_hdu(array_1d_util.hdu_for_output_from(array_1d=np.arange(4.0), flip_for_ds9=True)),
    )

    # in-place effects through the aliasing: modify input after building the hdu / modify the hdu data
    def alias_effects():
        arr = np.array([1.0, 2.0, 3.0, 4.0])
        hdu = array_1d_util.hdu_for_output_from(array_1d=arr)
        arr[0] = 100.0
        first = desc_array(hdu.data)
        hdu.data[3] = -7.0
        return f"{first}|{desc_array(arr)}"

    attempt(f"{tag0}|alias_effects", alias_effects)

    # header objects are independent between calls, and repeated calls give same answer
    def repeated():
        arr = np.array([1.0, 2.0, 3.0, 4.0])
        hd = {"PIXSCALE": 2.0}
        hdu0 = array_1d_util.hdu_for_output_from(array_1d=arr, header_dict=hd)
        hdu1 = array_1d_util.hdu_for_output_from(array_1d=arr, header_dict=hd)
        hdu0.header["EXTRA"] = 1
        return f"{desc_hdu(hdu0)}|{desc_hdu(hdu1)}|{hdu0.header is hdu1.header}|{hdu0.data is hdu1.data}"

    attempt(f"{tag0}|repeated", repeated)

    # file route
    for aname, afac in inputs_1d():
        for overwrite in (False, True):
            for hname, hfac in (("none", lambda: None), ("multi", lambda: {"PIXSCALE": 0.5, "NAME": "abc"})):
                tag = f"{tag0}|file|{aname}|ow={overwrite}|{hname}"
                file_path = os.path.join(workdir, f"u1_{flip}_{aname}", "sub", "a.fits")
                if os.path.exists(file_path):
                    os.remove(file_path)

                def run():
                    out = []
                    array_1d_util.numpy_array_1d_to_fits(
                        array_1d=afac(), file_path=file_path, overwrite=overwrite, header_dict=hfac()
                    )
                    out.append(desc_array(array_1d_util.numpy_array_1d_via_fits_from(file_path=file_path, hdu=0)))
                    with fits.open(file_path) as hl:
                        out.append(desc_array(hl[0].data))
                        out.append(desc_header(hl[0].header))
                    return "|".join(out)

                attempt(tag, run)

                def rewrite():
                    array_1d_util.numpy_array_1d_to_fits(
                        array_1d=np.array([9.0, 8.0]), file_path=file_path, overwrite=overwrite
                    )
                    return desc_array(array_1d_util.numpy_array_1d_via_fits_from(file_path=file_path, hdu=0))

                if aname in ("float5", "zero_d", "none"):
                    attempt(tag + "|rewrite", rewrite)


def check_structures_1d(flip):
    tag0 = f"flip={flip}|struct1d"
    cases = []
    for n in (1, 2, 5, 9):
        values = list(np.random.RandomState(100 + n).normal(size=n))
        for ps in (0.5, 2.0):
            for origin in ((0.0,), (1.5,)):
                cases.append((f"nomask{n}_{ps}_{origin}", lambda v=values, ps=ps, o=origin: aa.Array1D.no_mask(
                    values=v, pixel_scales=ps, origin=o)))
    masks = [
        [False],
        [True, False],
        [False, True],
        [True, False, False, False, True, True],
        [False, False, True, False],
        [False, True, True, True, False, False, False],
    ]
    for i, m in enumerate(masks):
        for ps in (1.0, 0.25):
            for sub in (1,):
                def fac(m=m, ps=ps):
                    mask = aa.Mask1D(mask=m, pixel_scales=ps, origin=(0.5,))
                    n_unmasked = int(np.sum(~np.array(m)))
                    return aa.Array1D(values=list(np.arange(n_unmasked) * 1.25 + 1.0), mask=mask)

                cases.append((f"masked{i}_{ps}", fac))

    for name, fac in cases:
        tag = f"{tag0}|{name}"

        def run_hdu():
            arr = fac()
            hdu = arr.hdu_for_output
            back = aa.Array1D.from_primary_hdu(primary_hdu=hdu)
            return (
                f"{desc_hdu(hdu)}|{desc_array(back.native)}|{desc_array(back)}|{back.pixel_scales}|{back.origin}"
                f"|{desc_array(arr.native)}|{desc_array(arr)}"
            )

        attempt(tag + "|hdu", run_hdu)

        def run_file():
            arr = fac()
            file_path = os.path.join(workdir, f"s1_{flip}", f"{name}.fits")
            if os.path.exists(file_path):
                os.remove(file_path)
            out = []
            arr.output_to_fits(file_path=file_path)
            try:
                arr.output_to_fits(file_path=file_path)
                out.append("second write ok")
            except BaseException as e:  # noqa
                out.append(f"EXC {type(e).__name__}")
            arr.output_to_fits(file_path=file_path, overwrite=True)
            back = aa.Array1D.from_fits(file_path=file_path, pixel_scales=arr.pixel_scales)
            out.append(desc_array(back.native))
            out.append(desc_header(back.header.header_sci_obj))
            with fits.open(file_path) as hl:
                out.append(desc_array(hl[0].data))
            return "|".join(out)

        attempt(tag + "|file", run_file)

    for i, m in enumerate(masks + [[True, True], [False] * 11, [True, False, True, False, False]]):
        for ps in (1.0, 0.25):
            for origin in ((0.0,), (-2.0,)):
                tag = f"{tag0}|mask{i}_{ps}_{origin}"

                def run_mask_hdu():
                    mask = aa.Mask1D(mask=m, pixel_scales=ps, origin=origin)
                    hdu = mask.hdu_for_output
                    back = aa.Mask1D.from_primary_hdu(primary_hdu=hdu)
                    return f"{desc_hdu(hdu)}|{desc_array(back)}|{back.pixel_scales}|{back.origin}|{desc_array(mask)}"

                attempt(tag + "|hdu", run_mask_hdu)

                def run_mask_file():
                    mask = aa.Mask1D(mask=m, pixel_scales=ps, origin=origin)
                    file_path = os.path.join(workdir, f"m1_{flip}", f"mask{i}_{ps}_{origin[0]}.fits")
                    mask.output_to_fits(file_path=file_path, overwrite=True)
                    back = aa.Mask1D.from_fits(file_path=file_path, pixel_scales=ps, origin=origin)
                    with fits.open(file_path) as hl:
                        raw = desc_array(hl[0].data)
                        hdr = desc_header(hl[0].header)
                    return f"{desc_array(back)}|{back.pixel_scales}|{back.origin}|{raw}|{hdr}"

                attempt(tag + "|file", run_mask_file)


def check_2d(flip):
    """The 2D routes share the function that the twin touches: they must be unchanged too."""
    tag0 = f"flip={flip}|2d"
    arrays = [
        ("2x3", lambda: np.arange(6, dtype="float64").reshape(2, 3)),
        ("3x2", lambda: np.arange(6, dtype="float64").reshape(3, 2)),
        ("1x1", lambda: np.array([[7.0]])),
        ("1x4", lambda: np.arange(4, dtype="float64").reshape(1, 4)),
        ("4x1", lambda: np.arange(4, dtype="float64").reshape(4, 1)),
        ("0x3", lambda: np.zeros((0, 3))),
        ("5x4rand", lambda: np.random.RandomState(5).normal(size=(5, 4))),
        ("int", lambda: np.arange(6).reshape(2, 3)),
        ("bool", lambda: np.array([[True, False], [False, False], [True, True]])),
        ("one_d", lambda: np.arange(5, dtype="float64")),
        ("zero_d", lambda: np.array(3.0)),
        ("three_d", lambda: np.arange(24, dtype="float64").reshape(2, 3, 4)),
        ("list", lambda: [[1.0, 2.0], [3.0, 4.0]]),
        ("none", lambda: None),
    ]
    for aname, afac in arrays:
        for hname, hfac in header_dicts():
            if hname not in ("none", "pixscale") and aname not in ("2x3", "none"):
                continue
            tag = f"{tag0}|util|{aname}|{hname}"
            arr = afac()

            def run():
                hdu = array_2d_util.hdu_for_output_from(array_2d=arr, header_dict=hfac())
                alias = "n/a"
                if isinstance(arr, np.ndarray) and hdu.data is not None:
                    alias = f"is={hdu.data is arr}|shares={np.shares_memory(hdu.data, arr)}|strides={hdu.data.strides}"
                return f"{desc_hdu(hdu)}|alias:{alias}"

            attempt(tag, run)

        def run_file():
            file_path = os.path.join(workdir, f"u2_{flip}_{aname}", "a.fits")
            array_2d_util.numpy_array_2d_to_fits(
                array_2d=afac(), file_path=file_path, overwrite=True, header_dict={"PIXSCALE": 0.1}
            )
            back = array_2d_util.numpy_array_2d_via_fits_from(file_path=file_path, hdu=0)
            with fits.open(file_path) as hl:
                raw = desc_array(hl[0].data)
            return f"{desc_array(back)}|{raw}"

        attempt(f"{tag0}|utilfile|{aname}", run_file)

    attempt(f"{tag0}|positional", lambda: desc_hdu(array_2d_util.hdu_for_output_from(np.ones((2, 2)), {"A": 1})))
    attempt(f"{tag0}|noargs", lambda: desc_hdu(array_2d_util.hdu_for_output_from()))

    def struct_2d():
        out = []
        arr = aa.Array2D.no_mask(values=[[1.0, 2.0, 3.0], [4.0, 5.0, 6.0]], pixel_scales=(0.1, 0.3), origin=(1.0, -1.0))
        hdu = arr.hdu_for_output
        out.append(desc_hdu(hdu))
        out.append(desc_array(aa.Array2D.from_primary_hdu(primary_hdu=hdu).native))
        mask = aa.Mask2D(
            mask=[[True, False, False], [False, False, True], [True, True, False], [False, True, True]],
            pixel_scales=(0.5, 0.25),
        )
        out.append(desc_hdu(mask.hdu_for_output))
        out.append(desc_array(aa.Mask2D.from_primary_hdu(primary_hdu=mask.hdu_for_output)))
        masked = aa.Array2D(values=[1.0, 2.0, 3.0, 4.0, 5.0, 6.0], mask=mask)
        out.append(desc_hdu(masked.hdu_for_output))
        file_path = os.path.join(workdir, f"s2_{flip}", "arr.fits")
        masked.output_to_fits(file_path=file_path, overwrite=True)
        out.append(desc_array(aa.Array2D.from_fits(file_path=file_path, pixel_scales=(0.5, 0.25)).native))
        file_path = os.path.join(workdir, f"s2_{flip}", "mask.fits")
        mask.output_to_fits(file_path=file_path, overwrite=True)
        out.append(desc_array(aa.Mask2D.from_fits(file_path=file_path, pixel_scales=(0.5, 0.25))))
        vis = aa.Visibilities(visibilities=[1.0 + 2.0j, 3.0 - 1.0j, 0.5j])
        out.append(desc_hdu(vis.hdu_for_output))
        file_path = os.path.join(workdir, f"s2_{flip}", "vis.fits")
        vis.output_to_fits(file_path=file_path, overwrite=True)
        out.append(desc_array(aa.Visibilities.from_fits(file_path=file_path, hdu=0)))
        kernel = aa.Kernel2D.no_mask(values=[[0.0, 1.0, 2.0], [3.0, 4.0, 5.0], [6.0, 7.0, 8.0]], pixel_scales=1.0)
        out.append(desc_hdu(kernel.hdu_for_output))
        return "|".join(out)

    attempt(f"{tag0}|struct", struct_2d)


class BrokenConf:
    """Stand-in for ``conf.instance`` whose every lookup fails: shows which routes consult the config at all."""

    def __getitem__(self, item):
        raise KeyError(item)


def check_config_access():
    """The 1D route must not depend on the config; the 2D route must (observed via exception / no exception)."""
    tag0 = "config_access"
    real = conf.instance
    try:
        conf.instance = BrokenConf()
        attempt(f"{tag0}|1d", lambda: desc_hdu(array_1d_util.hdu_for_output_from(array_1d=np.arange(3.0))))
        attempt(
            f"{tag0}|1d_header",
            lambda: desc_hdu(array_1d_util.hdu_for_output_from(array_1d=np.arange(3.0), header_dict={"A": 1})),
        )
        attempt(f"{tag0}|2d", lambda: desc_hdu(array_2d_util.hdu_for_output_from(array_2d=np.ones((2, 2)))))
        # error ordering in 2D: header errors come before the config lookup
        attempt(
            f"{tag0}|2d_bad_header",
            lambda: desc_hdu(array_2d_util.hdu_for_output_from(array_2d=np.ones((2, 2)), header_dict="abc")),
        )
    finally:
        conf.instance = real

    # odd (non-bool) config values for the 2D route
    class OddConf:
        def __init__(self, value):
            self.value = value

        def __getitem__(self, item):
            return {"fits": {"flip_for_ds9": self.value}}

    for value in (None, 0, 1, "", "false", [], [0]):
        try:
            conf.instance = OddConf(value)
            attempt(
                f"{tag0}|odd|{value!r}|2d",
                lambda: desc_hdu(array_2d_util.hdu_for_output_from(array_2d=np.arange(6.0).reshape(3, 2))),
            )
            attempt(
                f"{tag0}|odd|{value!r}|1d",
                lambda: desc_hdu(array_1d_util.hdu_for_output_from(array_1d=np.arange(6.0))),
            )
        finally:
            conf.instance = real


for flip in (False, True):
    push_flip_config(flip)
    check_util_1d(flip)
    check_structures_1d(flip)
    check_2d(flip)
check_config_access()

digest = hashlib.sha256("\n".join(records).encode()).hexdigest()
n_exc = sum(1 for r in records if ":: EXC" in r)
if os.environ.get("EQUIV_DUMP"):
    with open(os.environ["EQUIV_DUMP"], "w") as f:
        f.write("\n".join(records) + "\n")
print(f"records {len(records)} exceptions {n_exc}")
print(f"digest {digest}")
