"""
Differential test for the C15-7 twin (InversionImagingWTilde.curvature_matrix restructured to a single exit).

Prints a sha256 digest over the results (values as bytes, dtypes, shapes, types, exception types, aliasing flags)
of a large grid of inversions: both formalisms x positive-only on/off x linear-object mixes (with and without
un-regularized objects) x preload subsets x 3 successive inversions sharing one Preloads object, plus arbitrary
(asymmetric / wrongly shaped / subclass / non-float) preloaded curvature matrices and non-default
`no_regularization_add_to_curvature_diag_value`.

The digest must be identical on the clean HEAD tree and on the twin tree.
"""
import copy
import hashlib
import itertools
import logging
import warnings

warnings.filterwarnings("ignore")
logging.disable(logging.CRITICAL)

import numpy as np

import autoarray as aa
from autoarray import fixtures as fx

H = hashlib.sha256()
N_RECORDS = 0
N_EXC = 0


def rec(tag, obj):
    global N_RECORDS
    N_RECORDS += 1
    H.update(tag.encode())
    if isinstance(obj, np.ndarray):
        arr = np.ascontiguousarray(np.asarray(obj))
        H.update(type(obj).__name__.encode())
        H.update(str(arr.dtype).encode())
        H.update(repr(arr.shape).encode())
        H.update(arr.tobytes())
    else:
        H.update(repr(obj).encode())


def grab(tag, fn):
    global N_EXC
    try:
        val = fn()
    except Exception as e:  # noqa
        N_EXC += 1
        rec(tag, "EXC:" + type(e).__name__)
        return None
    if isinstance(val, (float, int, np.floating, np.integer)):
        rec(tag, float(val))
    elif val is None or isinstance(val, (bool, str, tuple, list)):
        rec(tag, val)
    else:
        try:
            arr = val if isinstance(val, np.ndarray) else np.array(val)
        except Exception as e:  # noqa
            rec(tag, "UNARRAYABLE:" + type(e).__name__)
            return val
        rec(tag, arr)
    return val


def make_dataset(seed):
    dataset = copy.deepcopy(fx.make_masked_imaging_7x7())
    rng = np.random.default_rng(seed)
    dataset.data[:] = rng.normal(1.0, 0.5, size=9)
    dataset.noise_map[:] = rng.uniform(0.5, 2.0, size=9)
    dataset.psf[0] = 0.1
    dataset.psf[4] = 0.9
    dataset.psf[5] = 0.05
    return dataset


DATASET = make_dataset(1)
GRID = aa.Grid2D.from_mask(mask=DATASET.mask)


def func_list(params, seed, regularization=None):
    mm = np.random.default_rng(seed).uniform(0.1, 1.0, size=(9, params))
    return aa.m.MockLinearObjFuncList(
        parameters=params, grid=GRID, mapping_matrix=mm, regularization=regularization
    )


def rect(reg=True):
    m = fx.make_rectangular_mapper_7x7_3x3()
    if not reg:
        m.regularization = None
    return m


def dela(reg=True):
    m = fx.make_delaunay_mapper_9_3x3()
    if not reg:
        m.regularization = None
    return m


MIXES = {
    "rect": lambda: [rect()],
    "rect+dela": lambda: [rect(), dela()],
    "func+rect": lambda: [func_list(2, 3), rect()],
    "rect+func": lambda: [rect(), func_list(2, 3)],
    "rect+func1": lambda: [rect(), func_list(1, 4)],
    "rect+func+dela": lambda: [rect(), func_list(2, 3), dela()],
    "func+func+rect": lambda: [func_list(1, 5), func_list(2, 6), rect()],
    "func_only": lambda: [func_list(2, 3)],
    "rect_noreg": lambda: [rect(reg=False)],
    "rect_noreg+dela": lambda: [rect(reg=False), dela()],
    "rect+dela_noreg": lambda: [rect(), dela(reg=False)],
    "funcreg+rect": lambda: [
        func_list(2, 3, regularization=aa.reg.Constant(coefficient=2.0)),
        rect(),
    ],
}

ATTRS = [
    "data_vector",
    "curvature_matrix",
    "curvature_reg_matrix",
    "curvature_matrix",  # again, after curvature_reg_matrix deleted / overwrote the cached value
    "regularization_matrix",
    "reconstruction",
    "curvature_matrix",
    "mapped_reconstructed_data",
    "regularization_term",
    "log_det_curvature_reg_matrix_term",
    "log_det_regularization_matrix_term",
    "no_regularization_index_list",
]

SLOTS = ["curvature_matrix", "regularization_matrix", "log_det_regularization_matrix_term"]


def settings_from(use_w_tilde, positive, diag_value=None):
    kwargs = dict(use_w_tilde=use_w_tilde, use_positive_only_solver=positive)
    if diag_value is not None:
        kwargs["no_regularization_add_to_curvature_diag_value"] = diag_value
    return aa.SettingsInversion(**kwargs)


def run_inversion(tag, linear_obj_list, settings, preloads):
    try:
        if preloads is None:
            inv = aa.Inversion(
                dataset=DATASET, linear_obj_list=linear_obj_list, settings=settings
            )
        else:
            inv = aa.Inversion(
                dataset=DATASET,
                linear_obj_list=linear_obj_list,
                settings=settings,
                preloads=preloads,
            )
    except Exception as e:  # noqa
        rec(tag + "/construct", "EXC:" + type(e).__name__)
        return None
    rec(tag + "/type", type(inv).__name__)
    for i, name in enumerate(ATTRS):
        val = grab(f"{tag}/{i}:{name}", lambda: getattr(inv, name))
        if name == "curvature_matrix" and val is not None and preloads is not None:
            pre = preloads.curvature_matrix
            if pre is not None:
                rec(f"{tag}/{i}:alias_is", val is pre)
                try:
                    rec(f"{tag}/{i}:alias_mem", bool(np.shares_memory(val, pre)))
                except Exception as e:  # noqa
                    rec(f"{tag}/{i}:alias_mem", "EXC:" + type(e).__name__)
            # two reads of the cached property give the same object
            rec(f"{tag}/{i}:cached_same", getattr(inv, name) is val)
    return inv


def preload_bytes(preloads):
    out = []
    for slot in SLOTS:
        v = getattr(preloads, slot)
        if isinstance(v, np.ndarray):
            out.append((slot, v.dtype.str, v.shape, hashlib.sha256(np.ascontiguousarray(v).tobytes()).hexdigest()))
        else:
            out.append((slot, repr(v)))
    return out


# ---------------------------------------------------------------------------------------------------------------------
# Part 1: grid of formalism x solver x mix x preload subset x 3 successive inversions
# ---------------------------------------------------------------------------------------------------------------------

for use_w_tilde, positive in itertools.product([True, False], [False, True]):
    for mix_name, mix in MIXES.items():
        base_tag = f"P1/w{int(use_w_tilde)}/p{int(positive)}/{mix_name}"
        settings = settings_from(use_w_tilde, positive)

        fresh = run_inversion(base_tag + "/fresh", mix(), settings, None)
        if fresh is None:
            continue

        # source of the preloaded values: a separate fresh inversion
        source = aa.Inversion(dataset=DATASET, linear_obj_list=mix(), settings=settings)
        values = {}
        for slot in SLOTS:
            try:
                v = getattr(source, slot)
                values[slot] = np.array(v) if isinstance(v, np.ndarray) else v
            except Exception:  # noqa
                values[slot] = None
            # re-create, the in-place sum may have consumed the cached curvature matrix
            source = aa.Inversion(dataset=DATASET, linear_obj_list=mix(), settings=settings)

        for r in range(1, len(SLOTS) + 1):
            for subset in itertools.combinations(SLOTS, r):
                if any(values[s] is None for s in subset):
                    continue
                preloads = aa.Preloads(**{s: copy.deepcopy(values[s]) for s in subset})
                before = preload_bytes(preloads)
                linear_obj_list = mix()
                for k in range(3):
                    tag = f"{base_tag}/{'+'.join(s[:4] for s in subset)}/#{k}"
                    # k == 1 reuses the same linear objects, k == 2 uses new ones
                    if k == 2:
                        linear_obj_list = mix()
                    run_inversion(tag, linear_obj_list, settings, preloads)
                    rec(tag + "/preload_unchanged", preload_bytes(preloads) == before)

# ---------------------------------------------------------------------------------------------------------------------
# Part 2: arbitrary preloaded curvature matrices (not taken from an inversion), non-default diag value
# ---------------------------------------------------------------------------------------------------------------------


class MyArr(np.ndarray):
    pass


def arbitrary_preloads(n):
    rng = np.random.default_rng(100 + n)
    a = rng.uniform(0.5, 1.5, size=(n, n))
    spd = a @ a.T + n * np.eye(n)
    out = {
        "spd": spd,
        "asym": spd + np.triu(rng.uniform(0.0, 0.3, size=(n, n)), 1),
        "upper_only": np.triu(spd),
        "zeros": np.zeros((n, n)),
        "float32": spd.astype("float32"),
        "int": np.round(spd).astype("int64"),
        "fortran": np.asfortranarray(spd),
        "subclass": spd.view(MyArr),
        "readonly": spd.copy(),
        "too_small": spd[: n - 1, : n - 1].copy(),
        "too_big": np.pad(spd, ((0, 1), (0, 1)), constant_values=1.0),
        "1d": spd[0].copy(),
        "list": spd.tolist(),
        "noncontig": np.repeat(np.repeat(spd, 2, axis=0), 2, axis=1)[::2, ::2],
    }
    out["readonly"].setflags(write=False)
    return out


for use_w_tilde, positive in itertools.product([True, False], [False, True]):
    for mix_name in [
        "rect",
        "rect+dela",
        "func+rect",
        "rect+func",
        "rect+func+dela",
        "rect_noreg+dela",
    ]:
        mix = MIXES[mix_name]
        for diag_value in [None, 0.0, 0.25, -3.0]:
            settings = settings_from(use_w_tilde, positive, diag_value)
            base_tag = f"P2/w{int(use_w_tilde)}/p{int(positive)}/{mix_name}/d{diag_value}"
            fresh = run_inversion(base_tag + "/fresh", mix(), settings, None)
            n = sum(obj.params for obj in mix())
            for pname, pval in arbitrary_preloads(n).items():
                preloads = aa.Preloads(curvature_matrix=pval)
                before = copy.deepcopy(pval)
                linear_obj_list = mix()
                for k in range(2):
                    tag = f"{base_tag}/{pname}/#{k}"
                    run_inversion(tag, linear_obj_list, settings, preloads)
                    rec(tag + "/preload_is_same_obj", preloads.curvature_matrix is pval)
                    if isinstance(pval, np.ndarray):
                        rec(
                            tag + "/preload_unchanged",
                            bool(
                                np.array_equal(np.asarray(pval), np.asarray(before))
                                and pval.dtype == before.dtype
                            ),
                        )
                    else:
                        rec(tag + "/preload_unchanged", pval == before)

# ---------------------------------------------------------------------------------------------------------------------
# Part 3: other preload slots of the w-tilde formalism together with curvature_matrix, and direct class construction
# ---------------------------------------------------------------------------------------------------------------------

for mix_name in ["rect", "rect+dela", "rect+func", "rect+func+dela"]:
    mix = MIXES[mix_name]
    for positive in [False, True]:
        settings = settings_from(True, positive)
        source = aa.Inversion(dataset=DATASET, linear_obj_list=mix(), settings=settings)
        extra = {}
        for slot in ["_curvature_matrix_mapper_diag", "_data_vector_mapper"]:
            try:
                extra[slot.lstrip("_")] = np.array(getattr(source, slot))
            except Exception:  # noqa
                pass
        F = np.array(
            aa.Inversion(dataset=DATASET, linear_obj_list=mix(), settings=settings).curvature_matrix
        )
        for r in range(0, len(extra) + 1):
            for subset in itertools.combinations(sorted(extra), r):
                for with_F in [False, True]:
                    kwargs = {s: copy.deepcopy(extra[s]) for s in subset}
                    if with_F:
                        kwargs["curvature_matrix"] = F.copy()
                    preloads = aa.Preloads(**kwargs)
                    for k in range(2):
                        tag = f"P3/p{int(positive)}/{mix_name}/{'+'.join(subset)}/F{int(with_F)}/#{k}"
                        run_inversion(tag, mix(), settings, preloads)
                        rec(
                            tag + "/preloads_unchanged",
                            all(
                                np.array_equal(getattr(preloads, s), (extra[s] if s != "curvature_matrix" else F))
                                for s in kwargs
                            ),
                        )

        # direct construction of the w-tilde class
        for with_F in [False, True]:
            tag = f"P3/direct/p{int(positive)}/{mix_name}/F{int(with_F)}"
            try:
                inv = aa.InversionImagingWTilde(
                    data=DATASET.data,
                    noise_map=DATASET.noise_map,
                    convolver=DATASET.convolver,
                    w_tilde=DATASET.w_tilde,
                    linear_obj_list=mix(),
                    settings=settings,
                    preloads=aa.Preloads(curvature_matrix=F.copy()) if with_F else aa.Preloads(),
                )
            except Exception as e:  # noqa
                rec(tag + "/construct", "EXC:" + type(e).__name__)
                continue
            for i, name in enumerate(ATTRS):
                grab(f"{tag}/{i}:{name}", lambda: getattr(inv, name))

print(f"records {N_RECORDS} exceptions {N_EXC}")
print("DIGEST", H.hexdigest())
