"""
Differential test for `autoarray.structures.decorators.relocate_radial.relocate_to_radial_minimum`.

Prints a sha256 digest over every observable result (received grids: type, shape, dtype, bytes, aliasing with the
input; inputs after the call; returned values; raised exception types). The digest must be identical on the clean
HEAD tree and on the twin tree.

Run: cd /tmp/wt8/C17-5 && PYTHONPATH=/tmp/wt8/C17-5 /venv/bin/python equiv.py
"""
import functools
import hashlib
import os
import tempfile
import warnings

warnings.filterwarnings("ignore")

import numpy as np

from autoconf import conf
from autoconf.conf import Config, with_config
import autoarray as aa

H = hashlib.sha256()
N_RECORDS = [0]
COUNTS = {}


def rec(*items):
    for item in items:
        if isinstance(item, np.ndarray):
            a = np.ascontiguousarray(item)
            H.update(repr((type(item).__name__, a.shape, str(a.dtype))).encode())
            H.update(a.tobytes())
        else:
            H.update(repr(item).encode())
        H.update(b"|")
    N_RECORDS[0] += 1


def config_dir(entries):
    path = tempfile.mkdtemp(prefix="c17_equiv_")
    with open(os.path.join(path, "grids.yaml"), "w") as f:
        f.write("radial_minimum:\n  radial_minimum:\n")
        for name, value in entries.items():
            f.write(f"    {name}: {value}\n")
    return path


OUT = tempfile.mkdtemp(prefix="c17_equiv_out_")

# ---------------------------------------------------------------------------------------------------------------
# Profiles
# ---------------------------------------------------------------------------------------------------------------


class AbstractProfile:
    def __init__(self, centre=(0.0, 0.0)):
        self.centre = centre

    def radial_grid_from(self, grid):
        g = np.array(grid)
        return np.sqrt(
            np.square(g[:, 0] - self.centre[0]) + np.square(g[:, 1] - self.centre[1])
        )

    @aa.grid_dec.relocate_to_radial_minimum
    def received(self, grid, *args, **kwargs):
        return grid, args, kwargs

    @aa.grid_dec.relocate_to_radial_minimum
    def other(self, grid):
        return grid


class ProfileSmall(AbstractProfile):
    pass


class ProfileLarge(AbstractProfile):
    pass


class ProfileMid(ProfileLarge):
    pass


class ProfileOverride(AbstractProfile):
    @aa.grid_dec.relocate_to_radial_minimum
    def received(self, grid, *args, **kwargs):
        return grid, ("override",) + args, kwargs


class ProfileMissing(AbstractProfile):
    pass


class profilesmall(AbstractProfile):  # config keys are case-insensitive
    pass


def local_profile(tag):
    # two distinct classes / function objects sharing one __qualname__ and one __name__
    class Local(AbstractProfile):
        @aa.grid_dec.relocate_to_radial_minimum
        def received(self, grid, *args, **kwargs):
            return grid, (tag,) + args, kwargs

    return Local


def renamed_profile(name):
    # same qualname for the function, different runtime class name
    cls = local_profile(name)
    cls.__name__ = name
    return cls


class CallableNoQualname:
    """A callable object (no __qualname__ / __name__ attributes) used as the decorated function."""

    def __call__(self, obj, grid, *args, **kwargs):
        return grid, ("callable",) + args, kwargs


class ProfileCallable(AbstractProfile):
    received = aa.grid_dec.relocate_to_radial_minimum(CallableNoQualname())


def _plain(obj, grid, scale=1.0):
    return grid, (scale,), {}


class ProfilePartial(AbstractProfile):
    # functools.partial objects have no __qualname__; not descriptors, so call with obj explicitly
    received = staticmethod(
        aa.grid_dec.relocate_to_radial_minimum(functools.partial(_plain, scale=3.0))
    )


# one function object decorated once and shared by unrelated classes
def _shared(self, grid):
    return grid, (), {}


_shared_decorated = aa.grid_dec.relocate_to_radial_minimum(_shared)


class ShareA(AbstractProfile):
    received = _shared_decorated


class ShareB(AbstractProfile):
    received = _shared_decorated


# ---------------------------------------------------------------------------------------------------------------
# Grids
# ---------------------------------------------------------------------------------------------------------------


def make_grids():
    rng = np.random.RandomState(17)

    mask_edge = aa.Mask2D(
        mask=[
            [False, True, True, False],
            [True, False, False, True],
            [False, False, True, False],
        ],
        pixel_scales=(0.7, 0.45),
        origin=(0.2, -0.1),
    )
    mask_single = aa.Mask2D(
        mask=[[True, True, True], [True, False, True], [True, True, True]],
        pixel_scales=0.3,
    )
    grids = {
        "grid2d_uniform_5x3": aa.Grid2D.uniform(
            shape_native=(5, 3), pixel_scales=(0.4, 0.9), origin=(0.1, 0.3)
        ),
        "grid2d_uniform_3x3_centre0": aa.Grid2D.uniform(
            shape_native=(3, 3), pixel_scales=1.0
        ),
        "grid2d_mask_edge": aa.Grid2D.from_mask(mask=mask_edge),
        "grid2d_mask_single": aa.Grid2D.from_mask(mask=mask_single),
        "irregular": aa.Grid2DIrregular(
            values=[(0.3, -0.1), (-1.2, 0.9), (0.0, 0.25), (-0.6, -0.6), (3.0, 4.0), (0.0, 0.0)]
        ),
        "irregular_single": aa.Grid2DIrregular(values=[(0.0, 0.0)]),
        "irregular_single_far": aa.Grid2DIrregular(values=[(10.0, -7.0)]),
        "ndarray": np.array(
            [[0.1, 0.1], [1.0, -1.0], [-1.9, 0.0], [2.5, 2.5], [0.0, 0.0], [0.0, 0.5], [2.0, 0.0]]
        ),
        "ndarray_random": rng.uniform(-3.0, 3.0, size=(40, 2)),
        "ndarray_empty": np.zeros((0, 2)),
        "ndarray_int": np.array([[0, 1], [1, 1], [3, 4]]),
        "ndarray_nan_inf": np.array([[np.nan, 1.0], [np.inf, 0.0], [0.0, -0.0]]),
        "list_bad": [[0.1, 0.1], [1.0, 1.0]],
        "ndarray_1d_bad": np.array([0.1, 0.2]),
    }
    return grids


def call(label, profile, method, grid, *args, **kwargs):
    """Call a decorated method and record everything observable."""
    before = np.array(grid, dtype=object if isinstance(grid, list) else None, copy=True)
    try:
        if isinstance(profile.__class__.__dict__.get(method), staticmethod):
            out = getattr(profile, method)(profile, grid, *args, **kwargs)
        else:
            out = getattr(profile, method)(grid, *args, **kwargs)
    except Exception as e:  # noqa
        rec(label, "EXC", type(e).__name__, type(e).__mro__[1].__name__)
        COUNTS[type(e).__name__] = COUNTS.get(type(e).__name__, 0) + 1
        ctx = e.__context__
        rec(type(ctx).__name__ if ctx is not None else None)
    else:
        received = out[0] if isinstance(out, tuple) else out
        rest = out[1:] if isinstance(out, tuple) else ()
        COUNTS["OK"] = COUNTS.get("OK", 0) + 1
        rec(label, "OK", type(received).__name__, np.array(received), repr(rest))
        rec("alias", received is grid, bool(np.shares_memory(np.array(received, copy=False), np.array(grid, copy=False))) if isinstance(grid, np.ndarray) or hasattr(grid, "array") else None)
        for attr in ("shape_native", "pixel_scales", "origin"):
            if hasattr(received, attr):
                rec(attr, repr(getattr(received, attr)))
        if hasattr(received, "mask") and hasattr(grid, "mask"):
            rec("mask_same", received.mask is grid.mask, np.array(received.mask))
    after = np.array(grid, dtype=object if isinstance(grid, list) else None, copy=True)
    rec("input_unchanged", before.shape == after.shape and bool(np.array_equal(before, after, equal_nan=True) if before.dtype != object else (before == after).all()))


def sweep(stage, profiles, grids, methods=("received",)):
    for pname, profile in profiles:
        for method in methods:
            if not hasattr(profile, method):
                continue
            for gname, grid in grids.items():
                label = f"{stage}/{pname}/{method}/{gname}"
                if method == "received" and not isinstance(
                    profile.__class__.__dict__.get(method), staticmethod
                ) and gname == "ndarray":
                    call(label, profile, method, grid, 7, flag="k")
                else:
                    call(label, profile, method, grid)


# ---------------------------------------------------------------------------------------------------------------
# Scenario
# ---------------------------------------------------------------------------------------------------------------

LocalA = local_profile("A")
LocalB = local_profile("B")
RenamedX = renamed_profile("RenamedX")
RenamedY = renamed_profile("RenamedY")

config_1 = config_dir(
    {
        "ProfileSmall": 0.5,
        "ProfileLarge": 2.0,
        "ProfileMid": 1.25,
        "ProfileOverride": 0.75,
        "Local": 1.5,
        "RenamedX": 0.2,
        "RenamedY": 3.5,
        "ProfileCallable": 1.1,
        "ProfilePartial": 0.9,
        "ShareA": 0.3,
        "ShareB": 2.75,
    }
)
conf.instance.push(new_path=config_1, output_path=OUT)


def all_profiles(order):
    table = {
        "small": ProfileSmall(),
        "large": ProfileLarge(),
        "mid": ProfileMid(),
        "small_off": ProfileSmall(centre=(0.3, -0.1)),
        "large_off": ProfileLarge(centre=(-1.2, 0.9)),
        "override": ProfileOverride(),
        "missing": ProfileMissing(),
        "lower": profilesmall(),
        "localA": LocalA(),
        "localB": LocalB(centre=(0.1, 0.1)),
        "renX": RenamedX(),
        "renY": RenamedY(),
        "callable": ProfileCallable(),
        "partial": ProfilePartial(),
        "shareA": ShareA(),
        "shareB": ShareB(),
    }
    return [(k, table[k]) for k in order]


ORDER_1 = [
    "small", "large", "mid", "small_off", "large_off", "override", "missing", "lower",
    "localA", "localB", "renX", "renY", "callable", "partial", "shareA", "shareB",
]

grids = make_grids()

# stage 1: first evaluation, small minimum first
sweep("s1", all_profiles(ORDER_1), grids, methods=("received", "other"))

# stage 2: reversed order, same shared objects / grids (repeated calls)
sweep("s2", all_profiles(ORDER_1[::-1]), grids, methods=("received", "other"))

# stage 3: alternating the sub-classes call by call on the same grid objects
small, large, mid = ProfileSmall(), ProfileLarge(), ProfileMid()
for i in range(3):
    for gname in ("ndarray", "irregular", "grid2d_uniform_5x3"):
        for pname, profile in (("large", large), ("small", small), ("mid", mid)):
            call(f"s3/{i}/{pname}/{gname}", profile, "received", grids[gname])
            call(f"s3/{i}/{pname}/{gname}/other", profile, "other", grids[gname])

# stage 4: push a new config changing values, adding the missing class and shadowing some entries
config_2 = config_dir(
    {
        "ProfileSmall": 2.2,
        "ProfileLarge": 0.05,
        "ProfileMissing": 1.0,
        "Local": 0.4,
        "ShareA": 2.0,
    }
)
conf.instance.push(new_path=config_2, output_path=OUT)
sweep("s4", all_profiles(ORDER_1), grids)

# stage 5: in-place mutation of the live config section
section = conf.instance["grids"]["radial_minimum"]["radial_minimum"]
rec("section_type", type(section).__name__)
section["ProfileLarge"] = 1.7
section["ProfileMid"] = 0.0
section["ShareB"] = np.float64(0.6)
sweep("s5", all_profiles(ORDER_1[::-1]), grids)

# stage 6: delete an entry in place -> the class must now raise, others unaffected
try:
    del section["profilesmall"]
    rec("deleted", True)
except Exception as e:  # noqa
    rec("deleted", type(e).__name__)
sweep("s6", all_profiles(["small", "lower", "large", "small_off"]), grids)

# stage 7: with_config scoped override, then automatically restored
@with_config("grids", "radial_minimum", "radial_minimum", "ProfileLarge", value=4.0)
def scoped():
    sweep("s7-in", all_profiles(["small", "large", "lower"]), grids)


scoped()
sweep("s7-out", all_profiles(["small", "large", "lower"]), grids)

# stage 8: replace the whole config instance, then restore it
old_instance = conf.instance
config_3 = config_dir({"ProfileSmall": 0.01, "ProfileLarge": 9.0, "Local": 2.5})
conf.instance = Config(config_3, output_path=OUT)
sweep("s8", all_profiles(ORDER_1), grids)
conf.instance = old_instance
sweep("s9", all_profiles(ORDER_1), grids)

# stage 10: a non-numeric / odd configured values
section = conf.instance["grids"]["radial_minimum"]["radial_minimum"]
section["ProfileLarge"] = None
section["ProfileMid"] = "abc"
section["ProfileOverride"] = -1.0
section["ShareA"] = np.inf
sweep("s10", all_profiles(["large", "mid", "override", "shareA", "shareB"]), grids)

# stage 11: no `grids` radial minimum section at all for the class hierarchy
conf.instance = Config(tempfile.mkdtemp(prefix="c17_equiv_emptycfg_"), output_path=OUT)
sweep("s11", all_profiles(["small", "large"]), {"ndarray": grids["ndarray"]})
conf.instance = old_instance
sweep("s12", all_profiles(["small", "large"]), {"ndarray": grids["ndarray"]})

# stage 13: wrapper metadata
for f in (AbstractProfile.received, AbstractProfile.other, ProfileOverride.received, _shared_decorated):
    rec(f.__name__, f.__qualname__, f.__module__, f.__doc__, hasattr(f, "__wrapped__"))

rec("public", sorted(n for n in dir(aa.grid_dec) if not n.startswith("_")))

print("records", N_RECORDS[0], "outcomes", sorted(COUNTS.items()))
print("digest", H.hexdigest())
