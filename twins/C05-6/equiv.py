"""
Differential test for the C05-6 twin (autoarray/inversion/inversion/abstract.py: `mapper_edge_pixel_list`,
`mapper_zero_pixel_list` and, through them, `reconstruction`).

Prints one sha256 digest over every result (values as dtype/shape/bytes, exception types for raising cases). Run on
the clean HEAD tree and on the twin tree: the two digests must be identical.

    cd /tmp/wt8/C05-6 && PYTHONPATH=/tmp/wt8/C05-6 /venv/bin/python equiv.py
"""
import hashlib
import logging
import warnings

warnings.filterwarnings("ignore")
logging.disable(logging.CRITICAL)

import numpy as np

import autoarray as aa

H = hashlib.sha256()
N_RECORDS = 0
N_EXC = 0
VERBOSE = False  # set True to list the raising cases


def feed(obj):
    """Canonical serialisation: type-tagged, arrays as dtype/shape/bytes, containers recursively."""
    if isinstance(obj, np.ndarray):
        arr = np.ascontiguousarray(np.asarray(obj))
        H.update(b"A" + str(arr.dtype).encode() + str(arr.shape).encode() + arr.tobytes())
    elif isinstance(obj, (list, tuple)):
        H.update(b"L" if isinstance(obj, list) else b"T")
        H.update(str(len(obj)).encode())
        for item in obj:
            feed(item)
    elif isinstance(obj, dict):
        H.update(b"D" + str(len(obj)).encode())
        for key, value in obj.items():
            feed(key)
            feed(value)
    elif isinstance(obj, (np.generic,)):
        H.update(b"G" + str(obj.dtype).encode() + obj.tobytes())
    else:
        H.update(b"R" + type(obj).__name__.encode() + repr(obj).encode())


def record(label, fn):
    global N_RECORDS, N_EXC
    N_RECORDS += 1
    H.update(b"|" + label.encode() + b"|")
    try:
        result = fn()
    except Exception as e:  # exception TYPE is part of the behaviour
        H.update(b"EXC:" + type(e).__name__.encode())
        N_EXC += 1
        if VERBOSE:
            print("EXC", label, type(e).__name__, str(e)[:100])
        return None
    feed(result)
    return result


# ---------------------------------------------------------------------------------------------------------------------
# Part 1: the two properties on MockInversions with random orderings of mappers / other linear objects
# ---------------------------------------------------------------------------------------------------------------------


def random_obj_list(rng, n_image, kinds):
    obj_list = []
    for kind in kinds:
        reg = aa.m.MockRegularization() if rng.random() < 0.5 else None
        params = int(rng.integers(1, 7))
        if kind == "m":
            mm = rng.random((n_image, params)) * (rng.random((n_image, params)) < 0.35)
            n_edge = int(rng.integers(0, params + 1))
            edge = sorted(rng.choice(params, size=n_edge, replace=False).tolist())
            obj_list.append(
                aa.m.MockMapper(parameters=params, edge_pixel_list=edge, mapping_matrix=mm, regularization=reg)
            )
        else:
            mm = rng.random((n_image, params))
            obj_list.append(aa.m.MockLinearObj(parameters=params, mapping_matrix=mm, regularization=reg))
    return obj_list


KIND_PATTERNS = [
    "",
    "m",
    "f",
    "ff",
    "mf",
    "fm",
    "mm",
    "fmf",
    "mfm",
    "fmm",
    "mmf",
    "ffm",
    "fmfm",
    "mfmf",
    "ffmfmmf",
    "mffmfm",
    "fffmmm",
    "mmmfff",
]

rng = np.random.default_rng(20240605)

for trial in range(6):
    for kinds in KIND_PATTERNS:
        n_image = int(rng.integers(1, 12))
        obj_list = random_obj_list(rng, n_image, kinds)

        zero_inputs = {
            "none_given_empty_list": [],
            "empty_array": np.array([], dtype=int),
            "single_int": int(rng.integers(0, n_image)),
            "single_list": [int(rng.integers(0, n_image))],
            "few": np.sort(rng.choice(n_image, size=min(n_image, 3), replace=False)),
            "all": np.arange(n_image),
            "negative_index": np.array([-1]),
            "bool_mask": rng.random(n_image) < 0.5,
            "None": None,
            "out_of_range": np.array([n_image + 3]),
            "slice": slice(0, max(1, n_image // 2)),
        }

        for zname, zero in zero_inputs.items():
            settings = aa.SettingsInversion(
                use_positive_only_solver=True,
                force_edge_pixels_to_zeros=True,
                force_edge_image_pixels_to_zeros=True,
                image_pixels_source_zero=zero,
            )
            inversion = aa.m.MockInversion(linear_obj_list=obj_list, settings=settings)
            label = f"mock/{trial}/{kinds}/{zname}"
            record(label + "/edge", lambda: inversion.mapper_edge_pixel_list)
            record(label + "/zero", lambda: inversion.mapper_zero_pixel_list)
            # repeated access (plain properties: must be recomputed and equal)
            record(label + "/edge2", lambda: inversion.mapper_edge_pixel_list)
            record(label + "/zero2", lambda: inversion.mapper_zero_pixel_list)
            record(label + "/ranges", lambda: inversion.param_range_list_from(cls=aa.AbstractMapper))

# malformed mappers: exception behaviour must be the same
for kinds in ["m", "fm", "mf", "fmfm"]:
    for bad in ["edge_none", "mm_none", "mm_1d"]:
        obj_list = random_obj_list(rng, 5, kinds)
        for obj in obj_list:
            if isinstance(obj, aa.AbstractMapper):
                if bad == "edge_none":
                    obj._edge_pixel_list = None
                elif bad == "mm_none":
                    obj._mapping_matrix = None
                else:
                    obj._mapping_matrix = np.arange(5.0)
        settings = aa.SettingsInversion(image_pixels_source_zero=np.array([0, 2]))
        inversion = aa.m.MockInversion(linear_obj_list=obj_list, settings=settings)
        record(f"bad/{kinds}/{bad}/edge", lambda: inversion.mapper_edge_pixel_list)
        record(f"bad/{kinds}/{bad}/zero", lambda: inversion.mapper_zero_pixel_list)

# the example of the unit test
inversion = aa.m.MockInversion(
    linear_obj_list=[
        aa.m.MockLinearObj(parameters=3, regularization=None),
        aa.m.MockMapper(parameters=4, edge_pixel_list=[0, 2], regularization=None),
        aa.m.MockLinearObj(parameters=7, regularization=None),
        aa.m.MockMapper(parameters=4, edge_pixel_list=[0, 2], regularization=None),
    ]
)
record("unit/edge", lambda: inversion.mapper_edge_pixel_list)

# ---------------------------------------------------------------------------------------------------------------------
# Part 2: `reconstruction` of MockInversions with a given random SPD system (all flag combinations)
# ---------------------------------------------------------------------------------------------------------------------

for trial in range(4):
    for kinds in ["m", "fm", "mf", "fmf", "mfm", "fmfm", "ffmfmmf", "f", "ff"]:
        n_image = int(rng.integers(6, 14))
        obj_list = random_obj_list(rng, n_image, kinds)
        total = sum(obj.params for obj in obj_list)
        Z = rng.normal(size=(total + 5, total))
        ZTZ = Z.T @ Z + 1e-3 * np.eye(total)
        D = rng.normal(size=total) + 0.5
        zero = np.sort(rng.choice(n_image, size=2, replace=False))

        for positive in (True, False):
            for force_edge in (True, False):
                for force_image in (True, False):
                    for p_initial in (True, False):
                        settings = aa.SettingsInversion(
                            use_positive_only_solver=positive,
                            positive_only_uses_p_initial=p_initial,
                            force_edge_pixels_to_zeros=force_edge,
                            force_edge_image_pixels_to_zeros=force_image,
                            image_pixels_source_zero=zero,
                        )
                        inversion = aa.m.MockInversion(
                            linear_obj_list=obj_list,
                            data_vector=D.copy(),
                            curvature_reg_matrix=ZTZ.copy(),
                            settings=settings,
                        )
                        label = f"mockrec/{trial}/{kinds}/{positive}{force_edge}{force_image}{p_initial}"
                        record(label, lambda: np.asarray(inversion.reconstruction))
                        record(
                            label + "/dict",
                            lambda: [np.asarray(v) for v in inversion.reconstruction_dict.values()],
                        )
                        # inputs not modified in place
                        record(label + "/D", lambda: np.asarray(inversion.data_vector))
                        record(label + "/F", lambda: np.asarray(inversion.curvature_reg_matrix))

# Part 2b: several mappers whose zero-pixel arrays have EQUAL length (the only multi-mapper configuration for which
# `np.append(edge_list, zero_list)` in `reconstruction` does not raise on HEAD), interleaved with other objects
for trial in range(6):
    for kinds in ["mm", "fmfm", "mfmf", "fmmf", "ffmfmmf", "mfffm"]:
        n_image = 9
        zero = np.array([2, 5])
        obj_list = random_obj_list(rng, n_image, kinds)
        for obj in obj_list:
            if isinstance(obj, aa.AbstractMapper):
                params = int(rng.integers(3, 7))
                mm = rng.random((n_image, params)) + 0.1
                mm[zero, :] = 0.0
                cols = rng.choice(params, size=2, replace=False)
                mm[zero[0], cols[0]] = 0.7
                mm[zero[1], cols[1]] = 0.4
                obj._parameters = params
                obj._mapping_matrix = mm
                obj._edge_pixel_list = sorted(rng.choice(params, size=int(rng.integers(0, 3)), replace=False).tolist())
        total = sum(obj.params for obj in obj_list)
        Z = rng.normal(size=(total + 5, total))
        ZTZ = Z.T @ Z + 1e-3 * np.eye(total)
        D = rng.normal(size=total) + 0.5
        for p_initial in (True, False):
            settings = aa.SettingsInversion(
                use_positive_only_solver=True,
                positive_only_uses_p_initial=p_initial,
                force_edge_pixels_to_zeros=True,
                force_edge_image_pixels_to_zeros=True,
                image_pixels_source_zero=zero,
            )
            inversion = aa.m.MockInversion(
                linear_obj_list=obj_list, data_vector=D.copy(), curvature_reg_matrix=ZTZ.copy(), settings=settings
            )
            label = f"mockrec_multi/{trial}/{kinds}/{p_initial}"
            record(label + "/zero", lambda: inversion.mapper_zero_pixel_list)
            record(label + "/s", lambda: np.asarray(inversion.reconstruction))
            record(label + "/dict", lambda: [np.asarray(v) for v in inversion.reconstruction_dict.values()])

# ---------------------------------------------------------------------------------------------------------------------
# Part 3: real `aa.Inversion` objects (imaging, mapping + w_tilde), non-square shapes, anisotropic pixel scales,
#         non-zero origin, masks touching the edge, several mappers interleaved with linear function lists
# ---------------------------------------------------------------------------------------------------------------------


def func_from(mask, centres):
    grid_image = aa.Grid2D.from_mask(mask=mask)
    y, x = np.array(grid_image[:, 0]), np.array(grid_image[:, 1])
    mm = np.stack([np.exp(-0.5 * ((y - cy) ** 2 + (x - cx) ** 2) / 4.0) for cy, cx in centres], axis=1)
    return aa.m.MockLinearObjFuncList(parameters=len(centres), grid=grid_image, mapping_matrix=mm, regularization=None)


def mapper_from(mask, mesh_shape, coefficient):
    over_sampler = aa.OverSamplerUniform(mask=mask, sub_size=2)
    grid = over_sampler.over_sampled_grid
    mesh_grid = aa.Mesh2DRectangular.overlay_grid(grid=grid, shape_native=mesh_shape)
    mapper_grids = aa.MapperGrids(
        mask=mask, source_plane_data_grid=grid, source_plane_mesh_grid=mesh_grid, image_plane_mesh_grid=None
    )
    return aa.MapperRectangular(
        mapper_grids=mapper_grids,
        over_sampler=over_sampler,
        border_relocator=None,
        regularization=aa.reg.Constant(coefficient=coefficient),
    )


def dataset_from(shape, pixel_scales, origin, mask_kind, seed):
    rng_d = np.random.default_rng(seed)
    if mask_kind == "circular":
        mask = aa.Mask2D.circular(
            shape_native=shape, pixel_scales=pixel_scales, radius=0.42 * min(shape) * min(pixel_scales), origin=origin
        )
    elif mask_kind == "all_false":  # unmasked up to the array edge
        mask = aa.Mask2D.all_false(shape_native=shape, pixel_scales=pixel_scales, origin=origin)
    else:  # a block touching two edges of the array
        m = np.ones(shape, dtype=bool)
        m[0 : shape[0] - 2, 0 : shape[1] - 3] = False
        mask = aa.Mask2D(mask=m, pixel_scales=pixel_scales, origin=origin)
    data = aa.Array2D.no_mask(values=0.3 * rng_d.normal(size=shape) + 1.0, pixel_scales=pixel_scales, origin=origin)
    noise_map = aa.Array2D.full(fill_value=0.3, shape_native=shape, pixel_scales=pixel_scales, origin=origin)
    psf = aa.Kernel2D.no_mask(
        values=np.array([[0.2, 0.5, 0.2], [0.5, 1.0, 0.5], [0.2, 0.5, 0.2]]), pixel_scales=pixel_scales
    )
    imaging = aa.Imaging(
        data=data,
        psf=psf,
        noise_map=noise_map,
        over_sampling=aa.OverSamplingDataset(
            uniform=aa.OverSamplingUniform(sub_size=1), pixelization=aa.OverSamplingUniform(sub_size=2)
        ),
    ).apply_mask(mask=mask)
    return mask, imaging


DATASETS = [
    ((13, 11), (1.0, 1.0), (0.0, 0.0), "circular"),  # the demo's geometry
    ((9, 12), (0.5, 1.5), (0.3, -0.7), "circular"),
    ((8, 9), (1.0, 2.0), (0.0, 0.0), "block_edge"),
    ((7, 7), (1.0, 1.0), (1.0, 1.0), "all_false"),
]

ORDERS = ["m", "fm", "mf", "fmf", "mm", "mfm", "fmfm"]

for d_index, (shape, pixel_scales, origin, mask_kind) in enumerate(DATASETS):

    def build(order, mask):
        objs = []
        n_f = n_m = 0
        for kind in order:
            if kind == "f":
                centres = [(2.0 - n_f, 2.0), (-2.0, -2.0 + n_f)][: 2 - (n_f % 2)]
                objs.append(func_from(mask, [(cy * pixel_scales[0], cx * pixel_scales[1]) for cy, cx in centres]))
                n_f += 1
            else:
                objs.append(mapper_from(mask, [(6, 5), (4, 4), (3, 5)][n_m % 3], [1.0, 0.5, 2.0][n_m % 3]))
                n_m += 1
        return objs

    for order in ORDERS:
        if d_index > 0 and order in ("mm", "mfm", "fmfm"):
            continue  # keep the run time moderate: multi-mapper orders on the first data set only
        for use_w_tilde in (False, True):
            for force_edge, force_image in ((True, True), (True, False), (False, True)):
                for p_initial in (True, False):
                    mask, imaging = dataset_from(shape, pixel_scales, origin, mask_kind, seed=1 + d_index)
                    n_pix = mask.pixels_in_mask
                    centre = n_pix // 2
                    zero = np.array([centre - 1, centre, centre + 1])
                    objs = build(order, mask)
                    label = f"real/{d_index}/{order}/{use_w_tilde}{force_edge}{force_image}{p_initial}"

                    def make():
                        return aa.Inversion(
                            dataset=imaging,
                            linear_obj_list=objs,
                            settings=aa.SettingsInversion(
                                use_w_tilde=use_w_tilde,
                                use_positive_only_solver=True,
                                positive_only_uses_p_initial=p_initial,
                                force_edge_pixels_to_zeros=force_edge,
                                force_edge_image_pixels_to_zeros=force_image,
                                image_pixels_source_zero=zero,
                            ),
                        )

                    inversion = record(label + "/make", lambda: type(make()).__name__) and make()
                    if inversion is None:
                        continue
                    record(label + "/edge", lambda: inversion.mapper_edge_pixel_list)
                    record(label + "/zero", lambda: inversion.mapper_zero_pixel_list)
                    record(label + "/s", lambda: np.asarray(inversion.reconstruction))
                    record(label + "/s_again", lambda: np.asarray(inversion.reconstruction))
                    record(
                        label + "/s_dict",
                        lambda: [np.asarray(v) for v in inversion.reconstruction_dict.values()],
                    )
                    record(label + "/model", lambda: np.asarray(inversion.mapped_reconstructed_data))
                    record(label + "/D", lambda: np.asarray(inversion.data_vector))
                    record(label + "/FH", lambda: np.asarray(inversion.curvature_reg_matrix))
                    record(label + "/reg_term", lambda: float(inversion.regularization_term))
                    record(
                        label + "/logdet",
                        lambda: float(inversion.log_det_curvature_reg_matrix_term),
                    )
                    # a second inversion sharing the SAME linear objects (shared cached mapping matrices)
                    inversion_2 = make()
                    record(label + "/shared/zero", lambda: inversion_2.mapper_zero_pixel_list)
                    record(label + "/shared/s", lambda: np.asarray(inversion_2.reconstruction))

print(f"records {N_RECORDS} (of which raising: {N_EXC})")
print(f"digest {H.hexdigest()}")
