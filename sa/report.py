"""Finding keys, obligations, KNOWN-FINDING handling, evidence writer."""
from __future__ import annotations

import ast
import hashlib
import json
import os
import time
from typing import Any, Dict, List, Optional

from .model import FuncInfo, ClassInfo, ModuleInfo, norm_text

VERIF = os.path.dirname(os.path.dirname(os.path.abspath(__file__)))
KNOWN_PATH = os.path.join(VERIF, "known_findings.json")


def _where(obj, node=None) -> Dict[str, Any]:
    if isinstance(obj, FuncInfo):
        ln = getattr(node, "lineno", None) or obj.node.lineno
        return {"module": obj.module.name, "qualname": obj.qualname, "file": obj.module.relpath, "line": ln}
    if isinstance(obj, ClassInfo):
        ln = getattr(node, "lineno", None) or obj.node.lineno
        return {"module": obj.module.name, "qualname": obj.name, "file": obj.module.relpath, "line": ln}
    if isinstance(obj, ModuleInfo):
        return {"module": obj.name, "qualname": "<module>", "file": obj.relpath, "line": getattr(node, "lineno", 1)}
    if isinstance(obj, dict):
        return obj
    return {"module": str(obj), "qualname": "", "file": str(obj), "line": 0}


class Finding:
    def __init__(self, pid: str, rule: str, where: Dict[str, Any], construct: str, message: str, path: Optional[List[str]] = None):
        self.pid = pid
        self.rule = rule
        self.where = where
        self.construct = " ".join(str(construct).split())[:200]
        self.message = message
        self.path = path or []

    @property
    def key(self) -> str:
        """rule | module | qualname | normalised construct text  (never a line number)."""
        return f"{self.rule}|{self.where['module']}|{self.where['qualname']}|{self.construct}"

    def as_dict(self):
        return {"property": self.pid, "rule": self.rule, "key": self.key, "file": self.where["file"], "line": self.where["line"],
                "function": self.where["qualname"], "construct": self.construct, "message": self.message, "path": self.path}

    def text(self):
        s = f"{self.where['file']}:{self.where['line']} [{self.rule}] {self.where['qualname']}: {self.message}  ::  {self.construct}"
        if self.path:
            s += "  (path: " + " -> ".join(self.path) + ")"
        return s


class Ctx:
    """Collects the obligations a property's rules evaluate and the findings they produce."""

    def __init__(self, pid: str, tier: str, project):
        self.pid = pid
        self.tier = tier
        self.p = project
        self.findings: List[Finding] = []
        self.obligations: List[Dict[str, Any]] = []
        self.notes: List[str] = []
        self.analysis_errors: List[str] = []
        self.stats: Dict[str, Any] = {}
        self.rules: Dict[str, str] = {}

    # ---- registration
    def rule(self, rid: str, text: str):
        self.rules[rid] = text

    def ob(self, rule: str, instance: str, ok: Optional[bool], detail: Any = None, where=None, node=None,
           construct: Optional[str] = None, message: Optional[str] = None, nontrivial: bool = True, path=None):
        """Record one evaluated obligation. ok=None means 'could not decide' (analysis error)."""
        rec = {"rule": rule, "instance": instance, "status": "ok" if ok else ("undecided" if ok is None else "VIOLATED"),
               "nontrivial": bool(nontrivial)}
        if detail is not None:
            rec["detail"] = detail if isinstance(detail, (str, int, float, list, dict)) else str(detail)
        self.obligations.append(rec)
        if ok is None:
            self.analysis_errors.append(f"[{rule}] {instance}: undecidable - {message or detail}")
        elif not ok:
            w = _where(where, node) if where is not None else {"module": "?", "qualname": instance, "file": "?", "line": 0}
            self.findings.append(Finding(self.pid, rule, w, construct if construct is not None else (norm_text(node) if node is not None else instance),
                                         message or str(detail or "obligation violated"), path))
        return ok

    def violation(self, rule: str, where, node, message: str, construct: Optional[str] = None, instance: Optional[str] = None, path=None):
        w = _where(where, node)
        inst = instance or f"{w['module']}:{w['qualname']}"
        return self.ob(rule, inst, False, where=where, node=node, construct=construct, message=message, path=path)

    def note(self, s: str):
        self.notes.append(s)

    def error(self, s: str):
        self.analysis_errors.append(s)

    def require_count(self, rule: str, what: str, got: int, at_least: int):
        """Vacuity guard: a rule that matches fewer instances than confirmed by hand is an analysis error, never a silent pass."""
        self.stats[f"{rule}.{what}"] = got
        if got < at_least:
            self.error(f"[{rule}] vacuity guard: {what} = {got} < {at_least} confirmed by hand")


def load_known() -> Dict[str, Any]:
    if not os.path.exists(KNOWN_PATH):
        return {"known": [], "fixed": []}
    with open(KNOWN_PATH) as fh:
        return json.load(fh)


def finish(ctx: Ctx, t0: float, replay_key: Optional[str] = None, write_evidence: bool = True, quiet: bool = False) -> int:
    known = load_known()
    known_keys = {k["key"]: k for k in known.get("known", []) if k.get("property") == ctx.pid}
    new: List[Finding] = []
    listed: List[Finding] = []
    seen = set()
    for f in ctx.findings:
        if f.key in seen:
            continue
        seen.add(f.key)
        (listed if f.key in known_keys else new).append(f)

    out = []
    for f in listed:
        out.append(f"KNOWN-FINDING: property={ctx.pid} {known_keys[f.key]['what']}  [{f.where['file']}:{f.where['line']} {f.rule}]")
    rc = 0
    replay_dir = os.path.join(VERIF, "evidence", "replay")
    if new:
        rc = 1
        os.makedirs(replay_dir, exist_ok=True)
        for f in new:
            h = hashlib.sha1(f.key.encode()).hexdigest()[:12]
            path = os.path.join(replay_dir, f"{ctx.pid}_{h}.json")
            with open(path, "w") as fh:
                json.dump(f.as_dict(), fh, indent=1)
            out.append(f"  {f.text()}")
            out.append(f"VIOLATION property={ctx.pid} replay={path}")
    if ctx.analysis_errors and rc == 0:
        rc = 2
    for e in ctx.analysis_errors:
        out.append(f"ANALYSIS-ERROR property={ctx.pid} {e}")
    for n in ctx.notes:
        out.append(f"NOTE {n}")

    wall = time.time() - t0
    n_ob = len(ctx.obligations)
    distinct = len({(o["rule"], o["instance"]) for o in ctx.obligations if o["nontrivial"]})
    discharged = sum(1 for o in ctx.obligations if o["status"] == "ok")
    samples = []
    per_rule_seen: Dict[str, int] = {}
    for o in ctx.obligations:
        c = per_rule_seen.get(o["rule"], 0)
        if c < 3:
            samples.append(o)
            per_rule_seen[o["rule"]] = c + 1
    ev = {
        "property_id": ctx.pid,
        "tier": ctx.tier,
        "seed": int(os.environ.get("VERIF_SEED", "0") or 0),
        "level": "other",
        "coverage": {
            "explanation": "static analysis of /repo's current source (ast-level, nothing executed): "
                           + "; ".join(f"{k}: {v}" for k, v in ctx.rules.items()),
            "evaluations": n_ob,
            "distinct_nontrivial": distinct,
            "rule": "one evaluation = one rule instance (an anchored function / call site / path) decided from the parsed source; "
                    "distinct = distinct (rule, instance) pairs that exercised at least one source and one sink of the rule",
            "obligations": n_ob,
            "discharged": discharged,
            "samples": samples[:40],
            "rules": ctx.rules,
            "per_rule_counts": {r: sum(1 for o in ctx.obligations if o["rule"] == r) for r in ctx.rules},
            "analysed": ctx.stats,
            "known_findings_printed": [f.key for f in listed],
            "new_findings": [f.as_dict() for f in new],
            "analysis_errors": ctx.analysis_errors,
            "notes": ctx.notes[:50],
            "exhaustive": True,
        },
        "assumptions": [
            "Python's ast module parses the repository as the interpreter would",
            "the E1 resolver (sa/model.py) resolves the call idioms listed in DESIGN.md 3.1; unresolved calls are counted and treated conservatively per rule",
            "numpy basic indexing / assignment semantics",
            "a pass means the structural obligations hold on every path of the analysed source; numerical behaviour is not observed",
        ],
        "wall_s": round(wall, 3),
        "violations": len(new),
    }
    if write_evidence:
        os.makedirs(os.path.join(VERIF, "evidence"), exist_ok=True)
        with open(os.path.join(VERIF, "evidence", f"{ctx.pid}.json"), "w") as fh:
            json.dump(ev, fh, indent=1, default=str)
    if replay_key is not None:
        hit = [f for f in ctx.findings if f.key == replay_key]
        if hit:
            print(f"REPLAY: finding still present: {hit[0].text()}")
            print(f"VIOLATION property={ctx.pid} replay=<replayed>")
            return 1
        print("REPLAY: finding no longer reported on the current tree")
        return 0
    if not quiet:
        print(f"[{ctx.pid}] tier={ctx.tier} obligations={n_ob} discharged={discharged} findings(new)={len(new)} known={len(listed)} "
              f"analysis_errors={len(ctx.analysis_errors)} wall={wall:.2f}s")
        for line in out:
            print(line)
    return rc
