"""In-memory source edits used by positive controls and the selftest corpus.

An edit takes the source text of one module and returns the edited text (or raises LookupError when its anchor
is gone).  Edits are located by function qualname through the AST, then applied inside that function's source
segment, so unrelated changes elsewhere in the file do not disturb them.  Nothing is written under /repo."""
from __future__ import annotations

import ast
import warnings
from typing import Callable, List, Tuple


def _find_func(tree: ast.Module, qualname: str) -> ast.FunctionDef:
    parts = qualname.split(".")
    body = tree.body
    node = None
    for i, p in enumerate(parts):
        found = None
        for st in body:
            if isinstance(st, (ast.FunctionDef, ast.ClassDef)) and st.name == p:
                found = st
                break
        if found is None:
            raise LookupError(f"{qualname}: {p} not found")
        node = found
        body = found.body
    if not isinstance(node, ast.FunctionDef):
        raise LookupError(f"{qualname} is not a function")
    return node


def func_segment(src: str, qualname: str) -> Tuple[int, int]:
    """(start, end) character offsets of the function (decorators included) in src."""
    with warnings.catch_warnings():
        warnings.simplefilter("ignore")
        tree = ast.parse(src)
    fn = _find_func(tree, qualname)
    lines = src.split("\n")
    first = min([fn.lineno] + [d.lineno for d in fn.decorator_list])
    start = sum(len(l) + 1 for l in lines[: first - 1])
    end = sum(len(l) + 1 for l in lines[: fn.end_lineno])
    return start, end


def _compiles(src: str):
    with warnings.catch_warnings():
        warnings.simplefilter("ignore")
        compile(src, "<mutant>", "exec", dont_inherit=True)


def in_func(qualname: str, old: str, new: str, count: int = 1, occurrence: int = 0) -> Callable[[str], str]:
    """Replace `old` by `new` inside function `qualname` (the occurrence-th match, `count` must equal the number of matches
    unless count is None)."""

    def edit(src: str) -> str:
        s, e = func_segment(src, qualname)
        seg = src[s:e]
        n = seg.count(old)
        if n == 0 or (count is not None and n != count):
            raise LookupError(f"{qualname}: expected {count} x {old!r}, found {n}")
        if count is not None and count > 1 and occurrence is None:
            seg2 = seg.replace(old, new)
        else:
            idx = -1
            for _ in range(occurrence + 1):
                idx = seg.find(old, idx + 1)
            seg2 = seg[:idx] + new + seg[idx + len(old):]
        out = src[:s] + seg2 + src[e:]
        _compiles(out)  # a mutant must still compile
        return out

    return edit


def in_module(old: str, new: str, count: int = 1) -> Callable[[str], str]:
    def edit(src: str) -> str:
        n = src.count(old)
        if n == 0 or (count is not None and n != count):
            raise LookupError(f"module: expected {count} x {old!r}, found {n}")
        out = src.replace(old, new)
        _compiles(out)
        return out

    return edit


def chain(*edits) -> Callable[[str], str]:
    def edit(src: str) -> str:
        for e in edits:
            src = e(src)
        return src

    return edit
