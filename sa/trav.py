"""E3 - slim-order traversal typestate, evaluated on kernel summaries.

The repository's definition of slim order is one idiom:

    k = 0
    for a in range(M.shape[0]):            # axis 0 from 0, step 1, full extent
        for b in range(M.shape[1]):        # axis 1 likewise
            if not M[a, b]:                # guard on the mask at the loop indices, in (a, b) order
                out[k, ...] = f(a, b)      # every store indexed by k uses the pre-increment value ...
                k += 1                     # ... and k advances by exactly 1, exactly once, unconditionally

The checker works on the abstract summary (sa.keval), so names of locals, temporaries and statement order of independent
statements do not matter: a store indexed by the counter *before* its increment has index form `k~`, one after it `k~ + 1`."""
from __future__ import annotations

import ast
from typing import Dict, List, Optional, Tuple

from .keval import Summary, Store, Loop, Cond, Ref
from .poly import Poly, ZERO, ONE
from .model import FuncInfo
from .forms import real_guards


def mask_axis_extent(mask: str, k: int) -> List[Poly]:
    return [Poly.sym(f"{mask}.shape[{k}]")]


def is_axis_loop(l: Loop, masks: List[str], k: int, shape=None) -> bool:
    if l.kind != "range" or l.lo != ZERO or l.step != ONE:
        return False
    for m in masks:
        if l.hi == Poly.sym(f"{m}.shape[{k}]"):
            return True
    if shape is not None and l.hi == shape[k]:
        return True
    return False


def unmasked_guard(c: Cond, masks: List[str], a: Poly, b: Poly) -> Optional[str]:
    """Return the mask name if c is `not M[a,b]` / `M[a,b] == False` / `M[a][b]` for one of the masks, at exactly (a, b)."""
    for m in masks:
        el = Poly.elem(m, a, b)
        if c.kind == "not" and c.args[0].kind == "truth" and c.args[0].args[0] == el:
            return m
        if c.kind == "cmp":
            x, op, y = c.args
            from .keval import Const
            if op == "==" and x == el and isinstance(y, Const) and y.v is False:
                return m
            if op == "==" and x == el and isinstance(y, Poly) and y == ZERO:
                return m
    return None


def counter_increments(S: Summary, name: str):
    return [(v, op, g, l, n) for (nm, v, op, g, l, n) in S.assigns if nm == name and op != "="]


def counter_init_zero(f: FuncInfo, name: str, before_line: int) -> bool:
    """the last assignment to `name` before `before_line` (outside loops) is the literal 0"""
    last = None
    for n in f.body_nodes():
        if isinstance(n, ast.Assign) and len(n.targets) == 1 and isinstance(n.targets[0], ast.Name) and n.targets[0].id == name and n.lineno < before_line:
            if last is None or n.lineno > last.lineno:
                last = n
    return last is not None and isinstance(last.value, ast.Constant) and last.value.value == 0 and not isinstance(last.value.value, bool)



def closed_forms(S: Summary, f: FuncInfo, v: Poly, store_loops) -> Poly:
    """v with every accumulator `c~` replaced by its closed form where it has one: c starts at the literal 0 before the nest, is advanced exactly once, unconditionally, by a
    loop-invariant amount `inc` at the END of the body of one enclosing loop `for k in range(0, n)` (after everything that reads it in the same iteration) - then inside that
    iteration c = inc * k.  (`row_start += W` per row makes `row_start + x` the flattened index y * W + x.)"""
    from .forms import real_guards
    names = {a[1][:-1] for a in v.all_atoms() if a[0] == "s" and a[1].endswith("~")}
    out = v
    for c in names:
        incs = counter_increments(S, c)
        if len(incs) != 1:
            continue
        inc, op, g, l, n = incs[0]
        if op != "+=" or real_guards(g) or not isinstance(inc, Poly) or len(l) != 1:   # (advanced inside ONE loop only: nothing carries it across iterations of an outer loop)
            continue
        lp = l[-1]
        if not any(lp is x for x in store_loops) or lp.kind != "range" or lp.lo != ZERO or lp.step != ONE:
            continue
        # loop-invariant increment: it mentions neither the loop variables nor any accumulator
        if any(a[0] == "s" and (a[1].endswith("~") or a[1] in {x.var for x in store_loops}) for a in inc.all_atoms()):
            continue
        # the increment is the last statement of that loop's body (so every read in the iteration sees the value at its start) and c starts at 0
        body = lp.node.body if hasattr(lp.node, "body") else []
        if not body or body[-1] is not n or not counter_init_zero(f, c, lp.node.lineno):
            continue
        k = Poly.sym(lp.var)
        out = out.subst(lambda a, c=c, inc=inc, k=k: (inc * k) if a == ("s", c + "~") else None)
    return out


def check_slim_counter(ctx, rule: str, S: Summary, counter: str, masks: List[str], guard_ok=None, shape=None,
                       must_index: Optional[List[str]] = None, inner_extra: int = 0, what: str = "slim index", dims: int = 2) -> bool:
    if dims == 1:
        return _check_slim_counter_1d(ctx, rule, S, counter, masks, what)
    """Typestate of one slim counter in kernel S.func.
    masks: accepted names of the mask array whose unmasked pixels are enumerated (the guard must read it at the loop indices).
    guard_ok(cond, a, b) -> bool may accept repository-specific guard variants (flag comparison, second mask).
    must_index: arrays that must be stored at [counter, ...] (pre-increment)."""
    f = S.func
    inst = f"{f.key}:{counter}"
    incs = counter_increments(S, counter)
    if not incs:
        ctx.ob(rule, inst, None, message=f"counter '{counter}' is never advanced (anchor changed?)")
        return False
    ok = True
    nests: Dict[tuple, list] = {}
    for rec in incs:
        nests.setdefault(tuple(id(l) for l in rec[3][:2]), []).append(rec)
    for key, recs in nests.items():
        v, op, guards, loops, node = recs[0]
        if len(recs) != 1:
            ctx.ob(rule, inst, False, where=f, node=recs[1][4], message=f"{what} counter '{counter}' is advanced {len(recs)} times in one traversal; the idiom advances it exactly once per unmasked pixel")
            ok = False
            continue
        if op != "+=" or v != ONE:
            ctx.ob(rule, inst, False, where=f, node=node, message=f"{what} counter '{counter}' must advance by exactly 1 (found {op} {v!r})")
            ok = False
            continue
        if len(loops) < 2 or not is_axis_loop(loops[0], masks, 0, shape) or not is_axis_loop(loops[1], masks, 1, shape):
            ctx.ob(rule, inst, False, where=f, node=node, construct="; ".join(repr(l) for l in loops),
                   message=f"{what} counter '{counter}' is not advanced inside 'for a in range(M.shape[0]): for b in range(M.shape[1])' over the full mask "
                           f"(outer loop = axis 0 from 0, inner = axis 1 from 0); a restricted or reordered range breaks row-major slim order")
            ok = False
            continue
        if len(loops) != 2 + inner_extra:
            ctx.ob(rule, inst, False, where=f, node=node, construct="; ".join(repr(l) for l in loops),
                   message=f"{what} counter '{counter}' is advanced at loop depth {len(loops)}, expected {2 + inner_extra}")
            ok = False
            continue
        a, b = Poly.sym(loops[0].var), Poly.sym(loops[1].var)
        flat = real_guards(guards)
        mg = [c for c in flat if unmasked_guard(c, masks, a, b)]
        other = [c for c in flat if not unmasked_guard(c, masks, a, b)]
        if guard_ok is not None:
            other = [c for c in other if not guard_ok(c, a, b)]
            if not mg and any(guard_ok(c, a, b) for c in flat):
                mg = [c for c in flat if guard_ok(c, a, b)]
        if not mg:
            ctx.ob(rule, inst, False, where=f, node=node, construct="; ".join(repr(c) for c in flat) or "<no guard>",
                   message=f"{what} counter '{counter}' is not guarded by the mask read at the loop indices (a, b) = ({loops[0].var}, {loops[1].var})")
            ok = False
            continue
        if other:
            ctx.ob(rule, inst, False, where=f, node=getattr(other[0], "node", None) or node, construct=repr(other[0]),
                   message=f"{what} counter '{counter}' is advanced only under an additional condition; it then no longer counts every unmasked pixel")
            ok = False
            continue
        if not counter_init_zero(f, counter, loops[0].node.lineno):
            ctx.ob(rule, inst, False, where=f, node=loops[0].node, message=f"{what} counter '{counter}' is not initialised to 0 immediately before its traversal")
            ok = False
            continue
        # stores indexed by the counter in this nest
        kat = Poly.sym(counter + "~")
        for s in S.stores:
            if tuple(id(l) for l in s.loops[:2]) != key:
                continue
            uses = [i for i, x in enumerate(s.idx) if counter + "~" in {at[1] for at in x.all_atoms() if at[0] == "s"}]
            if not uses:
                continue
            if any(s.idx[i] != kat for i in uses):
                ctx.ob(rule, inst + ":" + s.arr, False, where=f, node=s.node, construct=f"{s.arr}[{', '.join(map(repr, s.idx))}]",
                       message=f"store indexed by {what} counter '{counter}' does not use its pre-increment value (off by one against the enumeration)")
                ok = False
                continue
            if len(s.loops) == len(loops):
                sflat = {c.key() for c in real_guards(s.guards)}
                if sflat != {c.key() for c in flat}:
                    ctx.ob(rule, inst + ":" + s.arr, False, where=f, node=s.node, construct=f"guards {sorted(sflat)}",
                           message=f"store indexed by '{counter}' is not under the same guard as the counter's increment")
                    ok = False
        if must_index:
            for arr in must_index:
                ss = [s for s in S.stores_to(arr) if tuple(id(l) for l in s.loops[:2]) == key and s.idx and s.idx[0] == kat]
                if not ss:
                    ctx.ob(rule, inst + ":" + arr, False, where=f, node=node, construct=f"{arr}[{counter}, ...]",
                           message=f"output '{arr}' is not written at [{counter}] inside the slim traversal")
                    ok = False
    if ok:
        ctx.ob(rule, inst, True, detail={"counter": counter, "nests": len(nests), "masks": masks})
    return ok


def _check_slim_counter_1d(ctx, rule, S, counter, masks, what) -> bool:
    f = S.func
    inst = f"{f.key}:{counter}"
    incs = counter_increments(S, counter)
    if len(incs) != 1:
        ctx.ob(rule, inst, False if incs else None, where=f, node=incs[1][4] if len(incs) > 1 else f.node,
               message=f"{what} counter '{counter}' must be advanced exactly once in its traversal (found {len(incs)})")
        return False
    v, op, guards, loops, node = incs[0]
    ok = op == "+=" and v == ONE and len(loops) == 1 and is_axis_loop(loops[0], masks, 0)
    if not ok:
        ctx.ob(rule, inst, False, where=f, node=node, construct="; ".join(repr(l) for l in loops),
               message=f"{what} counter '{counter}' must advance by 1 inside 'for a in range(M.shape[0])' over the full 1-D mask")
        return False
    a = Poly.sym(loops[0].var)
    flat = real_guards(guards)
    good = False
    if len(flat) == 1:
        c = flat[0]
        for m in masks:
            el = Poly.elem(m, a)
            if c.kind == "not" and c.args[0].kind == "truth" and c.args[0].args[0] == el:
                good = True
    if not good:
        ctx.ob(rule, inst, False, where=f, node=node, construct="; ".join(repr(c) for c in flat),
               message=f"{what} counter '{counter}' must be guarded by exactly `not M[a]` at the loop index")
        return False
    if not counter_init_zero(f, counter, loops[0].node.lineno):
        ctx.ob(rule, inst, False, where=f, node=loops[0].node, message=f"{what} counter '{counter}' is not initialised to 0 before its traversal")
        return False
    kat = Poly.sym(counter + "~")
    ok = True
    for s in S.stores:
        if not s.loops or s.loops[0] is not loops[0]:
            continue
        uses = [i for i, x in enumerate(s.idx) if counter + "~" in {at[1] for at in x.all_atoms() if at[0] == "s"}]
        if uses and (any(s.idx[i] != kat for i in uses) or {c.key() for c in real_guards(s.guards)} != {c.key() for c in flat}):
            ctx.ob(rule, inst + ":" + s.arr, False, where=f, node=s.node, construct=f"{s.arr}[{', '.join(map(repr, s.idx))}]",
                   message=f"store indexed by '{counter}' must use its pre-increment value under the same guard")
            ok = False
    if ok:
        ctx.ob(rule, inst, True, detail={"counter": counter, "dims": 1})
    return ok


def check_sub_counter(ctx, rule: str, S: Summary, sub_counter: str, slim_counter: str, masks: List[str], sub_size: str = "sub_size", shape=None) -> Optional[Tuple[Poly, Poly, Poly, Poly, Poly]]:
    """Typestate of a sub-pixel counter: advanced by 1 once per (y1, x1) in `for y1 in range(sub): for x1 in range(sub)` nested in the
    slim traversal, with sub = sub_size[slim counter (pre-increment)], guarded only by the mask; stores use its pre-increment value.
    Returns the role atoms (y, x, y1, x1, sub) on success."""
    f = S.func
    inst = f"{f.key}:{sub_counter}"
    incs = counter_increments(S, sub_counter)
    if len(incs) != 1:
        ctx.ob(rule, inst, False if incs else None, where=f, node=incs[1][4] if len(incs) > 1 else f.node,
               message=f"sub-pixel counter '{sub_counter}' must be advanced exactly once (found {len(incs)})")
        return None
    v, op, guards, loops, node = incs[0]
    sub = Poly.elem(sub_size, Poly.sym(slim_counter + "~"))
    ok = op == "+=" and v == ONE and len(loops) == 4 and is_axis_loop(loops[0], masks, 0, shape) and is_axis_loop(loops[1], masks, 1, shape) \
        and all(l.kind == "range" and l.lo == ZERO and l.step == ONE and l.hi == sub for l in loops[2:])
    if not ok:
        ctx.ob(rule, inst, False, where=f, node=node, construct="; ".join(repr(l) for l in loops),
               message=f"'{sub_counter}' must advance by 1 inside 'for y1 in range(sub): for x1 in range(sub)' (sub = {sub_size}[{slim_counter}]) nested in the full slim traversal of the mask")
        return None
    a, b = Poly.sym(loops[0].var), Poly.sym(loops[1].var)
    flat = real_guards(guards)
    if len(flat) != 1 or not unmasked_guard(flat[0], masks, a, b):
        ctx.ob(rule, inst, False, where=f, node=node, construct="; ".join(repr(c) for c in flat), message=f"'{sub_counter}' must be guarded by exactly the mask test at the loop indices")
        return None
    if not counter_init_zero(f, sub_counter, loops[0].node.lineno):
        ctx.ob(rule, inst, False, where=f, node=loops[0].node, message=f"'{sub_counter}' is not initialised to 0 before the traversal")
        return None
    kat = Poly.sym(sub_counter + "~")
    good = True
    for s in S.stores:
        uses = [i for i, x in enumerate(s.idx) if sub_counter + "~" in {at[1] for at in x.all_atoms() if at[0] == "s"}]
        if uses and (any(s.idx[i] != kat for i in uses) or tuple(id(l) for l in s.loops) != tuple(id(l) for l in loops)):
            ctx.ob(rule, inst + ":" + s.arr, False, where=f, node=s.node, construct=f"{s.arr}[{', '.join(map(repr, s.idx))}]",
                   message=f"store indexed by '{sub_counter}' must use its pre-increment value inside the sub-pixel nest")
            good = False
    if not good:
        return None
    ctx.ob(rule, inst, True, detail={"sub_counter": sub_counter, "sub": repr(sub)})
    return a, b, Poly.sym(loops[2].var), Poly.sym(loops[3].var), sub
