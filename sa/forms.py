"""Helpers shared by the rules that compare kernel summaries (keval.Summary) with reference forms."""
from __future__ import annotations

import ast
from typing import Dict, List, Optional, Tuple, Iterable, Set

from .keval import Summary, Store, Loop, Cond, Ref, TOP, Top, SLICE
from .poly import Poly, ZERO, ONE
from .model import norm_text


def value_poly(v) -> Optional[Poly]:
    if isinstance(v, Poly):
        return v
    if isinstance(v, Ref):
        return v.poly()
    return None


def net_accumulation(stores: List[Store]) -> Dict[tuple, Optional[Poly]]:
    """Group stores by index tuple; combine '=', '+=', '-=' into the net value added on top of the initial contents.
    '=' resets.  Returns idx -> Poly (None if not combinable)."""
    out: Dict[tuple, Optional[Poly]] = {}
    for s in stores:
        v = value_poly(s.value)
        cur = out.get(s.idx, ZERO)
        if v is None or cur is None:
            out[s.idx] = None
        elif s.op == "=":
            out[s.idx] = v
        elif s.op == "+=":
            out[s.idx] = cur + v
        elif s.op == "-=":
            out[s.idx] = cur - v
        else:
            out[s.idx] = None
    return out


def loop_for_atom(loops: Iterable[Loop], atom: Poly) -> Optional[Loop]:
    for l in loops:
        if l.kind in ("range", "enumerate") and Poly.sym(l.var) == atom:
            return l
    return None


def is_full_range(l: Loop, extents: Iterable[Poly]) -> bool:
    return l is not None and l.kind == "range" and l.lo == ZERO and l.step == ONE and any(l.hi == e for e in extents)


def real_guards(guards) -> List[Cond]:
    """flattened guard conjuncts, without the path conditions that merely follow an `if ...: raise` precondition check"""
    out = []
    for g in guards:
        if getattr(g, "path", None) == "raise":
            continue
        out.extend(g.flat_and())
    return out



def resolve_default_ite(guards, value):
    """`m = DEFAULT; if C: m = min(DEFAULT, q); if m < DEFAULT: use(m)` is `if C and q < DEFAULT: use(q)`: a guard that compares a joined scalar ite(C, x, y) with a constant,
    where one arm is a constant that fails the comparison, holds exactly when the other arm was taken and passes it; and min(K, t) < K holds exactly when t < K (and is t
    then).  Returns (guards, value) with such guards split and the value specialised accordingly; anything else is left as it is."""
    from .keval import Cond

    def cond_of(q):
        ats = list(q.atoms()) if isinstance(q, Poly) else []
        if len(ats) == 1 and ats[0][0] == "f" and q == Poly.atom(ats[0]):
            nm, args = ats[0][1], ats[0][2]
            if nm == "cmp:<" and len(args) == 2:
                return Cond("cmp", args[0], "<", args[1])
            if nm == "cmp:==" and len(args) == 2:
                return Cond("cmp", args[0], "==", args[1])
        return None

    def single(p, fname):
        ats = list(p.atoms()) if isinstance(p, Poly) else []
        if len(ats) == 1 and ats[0][0] == "f" and ats[0][1] == fname and p == Poly.atom(ats[0]):
            return ats[0]
        return None

    def holds(x, op, k):
        cx, ck = (x.const_value() if isinstance(x, Poly) else None), (k.const_value() if isinstance(k, Poly) else None)
        if cx is None or ck is None:
            return None
        return {"<": cx < ck, "<=": cx <= ck, "==": cx == ck, "!=": cx != ck}.get(op)
    out, subs = [], {}
    for g in guards:
        done = False
        if g.kind == "cmp" and g.args[1] in ("<", "<="):
            a, op, b = g.args
            it = single(a, "ite")
            if it is not None and isinstance(b, Poly) and b.const_value() is not None:
                q, x, y = it[2]
                c = cond_of(q)
                if c is not None and holds(y, op, b) is False:
                    out.extend([c, Cond("cmp", x, op, b, node=g.node)])
                    subs[it] = x
                    done = True
                elif c is not None and holds(x, op, b) is False:
                    out.extend([c.negate(), Cond("cmp", y, op, b, node=g.node)])
                    subs[it] = y
                    done = True
        if not done:
            out.append(g)
    out2 = []
    for g in out:
        if g.kind == "cmp" and g.args[1] == "<":
            a, op, b = g.args
            mn = single(a, "min") if isinstance(a, Poly) else None
            if mn is not None and len(mn[2]) == 2 and isinstance(b, Poly) and b.const_value() is not None:
                k_, t_ = (mn[2][0], mn[2][1]) if (isinstance(mn[2][0], Poly) and mn[2][0].const_value() == b.const_value()) else ((mn[2][1], mn[2][0]) if (isinstance(mn[2][1], Poly) and mn[2][1].const_value() == b.const_value()) else (None, None))
                if k_ is not None:
                    out2.append(Cond("cmp", t_, "<", b, node=g.node))
                    subs[mn] = t_
                    continue
        out2.append(g)
    if isinstance(value, Poly) and subs:
        for _ in range(3):
            value = value.subst(lambda at: subs.get(at))
    return out2, value


def drop_implied_any(guards, loop_vars) -> List[Cond]:
    """guards without those of the form any(X[:]) that are implied by another guard of the same store: when the per-element test X[k] is itself among the guards, the
    vectorised `any` of the same test over the whole array (an early return taken when NO element needs the update) holds whenever the element test does, and adds nothing"""
    out = []
    for g in guards:
        implied = False
        if g.kind == "truth":
            rg = repr(g)
            for h in guards:
                if h is g or h.kind != "cmp":
                    continue
                for v in loop_vars:
                    if rg == f"truth(any(bool({repr(h).replace(v, ':')})))" or rg == f"truth(any({repr(h).replace(v, ':')}))":
                        implied = True
        if not implied:
            out.append(g)
    return out


def cond_atoms(c: Cond) -> List[Cond]:
    """flatten conjunctions"""
    return c.flat_and()


def is_zero_test(c: Cond, operand: Poly) -> bool:
    """`operand != 0`, `not operand == 0`, `abs(operand) > 0`, `0 != operand`"""
    if c.kind == "not":
        inner = c.args[0]
        if inner.kind == "cmp":
            a, op, b = inner.args
            return op == "==" and ((a == operand and b == ZERO) or (b == operand and a == ZERO))
        return False
    if c.kind == "cmp":
        a, op, b = c.args
        if op == "!=" and ((a == operand and b == ZERO) or (b == operand and a == ZERO)):
            return True
        ab = Poly.fn("abs", operand)
        if (op == ">" and a == ab and b == ZERO) or (op == "<" and b == ab and a == ZERO):
            return True
    return False


def mentions(c: Cond, pred) -> bool:
    """does any polynomial inside the condition contain an atom satisfying pred (recursively)?"""
    if c.kind == "cmp":
        for x in (c.args[0], c.args[2]):
            if isinstance(x, Poly) and any(pred(a) for a in x.all_atoms()):
                return True
        return False
    if c.kind in ("not", "and", "or"):
        return any(mentions(a, pred) for a in c.args if isinstance(a, Cond))
    if c.kind == "truth":
        x = c.args[0]
        return isinstance(x, Poly) and any(pred(a) for a in x.all_atoms())
    return False


def array_atoms(p: Poly, names: Set[str]) -> Set[tuple]:
    return {a for a in p.all_atoms() if a[0] in ("i", "s") and a[1] in names}


def short(p, n=220) -> str:
    s = repr(p)
    return s if len(s) <= n else s[:n] + "..."


# ---------------------------------------------------------------------------------------------------------------------
def nests_of(stores: List[Store]) -> List[List[Store]]:
    """partition stores by the loop nest (identity of enclosing loops) they occur in, in source order"""
    by_ctx: Dict[tuple, List[Store]] = {}
    for s in stores:
        by_ctx.setdefault(tuple(id(l) for l in s.loops), []).append(s)
    return sorted(by_ctx.values(), key=lambda g: g[0].node.lineno)


def check_accumulate(ctx, rule: str, S: Summary, out_name: str, roles: Dict[str, List[Poly]], idx_ref, value_ref,
                     zero_test_operand=None, require_zero_init: bool = True, what: str = "", allow_assign: bool = False,
                     stores: Optional[List[Store]] = None, suffix: str = "", allowed_guard=None) -> bool:
    """Obligation: every store into the local output array `out_name` of kernel S.func, taken together, adds exactly
    value_ref(role atoms) at index idx_ref(role atoms), inside loops that each cover one role's full extent [0, extent),
    under no guard other than a zero-test of `zero_test_operand(role atoms)`, on top of an all-zero initial array.
    roles: role name -> list of accepted extent forms.  Returns True if discharged."""
    f = S.func
    inst = f"{f.key}:{out_name}{suffix}"
    if stores is None:
        stores = S.stores_to(out_name)
    if not stores:
        ctx.ob(rule, inst, None, message=f"no store into output '{out_name}' found (shape of the kernel changed?)")
        return False
    ok = True
    # initial contents
    if require_zero_init:
        ref = None
        for v, _, _ in S.returns:
            for x in (v if isinstance(v, tuple) else (v,)):
                if isinstance(x, Ref) and (x.name == out_name or x.origin == out_name):
                    ref = x
        if ref is None:
            ref = S.env.get(out_name)
        init = getattr(ref, "init", None)
        z = init is not None and ((init[0] == "zeros") or (init[0] in ("expr", "full") and isinstance(init[1], Poly) and init[1] == ZERO))
        if not z:
            ok = False
            ctx.ob(rule, inst + ":init", False, where=f, node=stores[0].node, construct=f"init of {out_name}: {init}",
                   message=f"output array '{out_name}' is not allocated as zeros before accumulation (init={init})")
    # group by loops context: all stores must share the loop nest
    by_ctx: Dict[tuple, List[Store]] = {}
    for s in stores:
        by_ctx.setdefault(tuple(id(l) for l in s.loops), []).append(s)
    if len(by_ctx) != 1:
        ctx.ob(rule, inst, False, where=f, node=stores[-1].node, construct="; ".join(sorted({repr(s.idx) for s in stores})),
               message=f"stores into '{out_name}' occur in {len(by_ctx)} different loop nests; the reference form has one")
        return False
    loops = stores[0].loops
    bound: Dict[str, Poly] = {}
    used = set()
    for role, extents in roles.items():
        if callable(extents):
            extents = extents(bound)
        cand = [l for l in loops if is_full_range(l, extents) and id(l) not in used]
        if len(cand) != 1:
            ctx.ob(rule, inst, False, where=f, node=stores[0].node, construct=f"loops: {list(loops)}",
                   message=f"no unique loop over the full extent of role '{role}' (accepted extents {[repr(e) for e in extents]}); found {len(cand)}")
            return False
        used.add(id(cand[0]))
        bound[role] = Poly.sym(cand[0].var)
    extra = [l for l in loops if id(l) not in used]
    if extra:
        ctx.ob(rule, inst, False, where=f, node=extra[0].node, construct=repr(extra[0]),
               message="accumulation is nested in an extra loop that the reference form does not have (terms would be added repeatedly)")
        return False
    want_idx = tuple(idx_ref(bound))
    want_val = value_ref(bound)
    net = net_accumulation(stores)
    if allow_assign is False and any(s.op == "=" for s in stores):
        ctx.ob(rule, inst, False, where=f, node=[s for s in stores if s.op == "="][0].node,
               message=f"'{out_name}' is overwritten (=) where the reference form accumulates (+=)")
        return False
    if set(net) != {want_idx}:
        bad = [s for s in stores if s.idx != want_idx][0]
        ctx.ob(rule, inst, False, where=f, node=bad.node, construct=f"{out_name}[{', '.join(map(repr, bad.idx))}]",
               message=f"store index {[repr(x) for x in bad.idx]} differs from the reference index {[repr(x) for x in want_idx]}")
        return False
    got = net[want_idx]
    if got is None or got != want_val:
        ctx.ob(rule, inst, False, where=f, node=stores[0].node, construct=f"{out_name}[...] += {short(got)}",
               message=f"accumulated term differs from the reference form {what}: computed {short(got)}  expected {short(want_val)}")
        return False
    # guards
    operand = zero_test_operand(bound) if zero_test_operand else None
    for s in stores:
        for g in [s]:
            for c in real_guards(s.guards):
                if operand is not None and is_zero_test(c, operand):
                    continue
                if allowed_guard is not None and allowed_guard(c, bound):
                    continue
                ok = False
                ctx.ob(rule, inst + ":guard", False, where=f, node=getattr(c, "node", None) or s.node, construct=repr(c),
                       message=f"accumulation into '{out_name}' is guarded by a test that is not a zero-test of the operand; the operator is then not the stated linear map")
    if ok:
        ctx.ob(rule, inst, True, detail={"index": [repr(x) for x in want_idx], "term": short(want_val), "loops": [repr(l) for l in loops]})
    return ok


def scalar_accumulations(S: Summary, name: str) -> List[Store]:
    """pseudo-stores for the in-loop updates (`name += term`) of a scalar accumulator"""
    out = []
    for (nm, v, op, g, l, n) in S.assigns:
        if nm == name and op != "=":
            out.append(Store(name, (), v, op, g, l, n, True, S.func))
    return out


def scalar_resets(S: Summary, name: str):
    return [(v, g, l, n) for (nm, v, op, g, l, n) in S.assigns if nm == name and op == "="]


def acc_name_of(v) -> Optional[str]:
    """if a stored value is (a phi of) a havocked accumulator `name~`, return name"""
    if not isinstance(v, Poly):
        return None
    names = {a[1][:-1] for a in v.all_atoms() if a[0] == "s" and a[1].endswith("~")}
    return names.pop() if len(names) == 1 else None


def norm_cond(c: Cond):
    """canonical nested-tuple form of a condition: comparisons oriented to '<' / '<=' / '==' / '!=', and/or children sorted"""
    if c.kind == "cmp":
        a, op, b = c.args
        if op == ">=":
            a, op, b = b, "<=", a
        elif op == ">":
            a, op, b = b, "<", a
        if op in ("==", "!=") and repr(a) > repr(b):
            a, b = b, a
        return ("cmp", repr(a), op, repr(b))
    if c.kind in ("and", "or"):
        kids = []
        for x in c.args:
            n = norm_cond(x)
            if n[0] == c.kind:
                kids.extend(n[1])
            else:
                kids.append(n)
        return (c.kind, tuple(sorted(kids, key=repr)))
    if c.kind == "not":
        inner = c.args[0]
        if inner.kind == "cmp":
            a, op, b = inner.args
            neg = {"<": ">=", "<=": ">", ">": "<=", ">=": "<", "==": "!=", "!=": "=="}.get(op)
            if neg:
                return norm_cond(Cond("cmp", a, neg, b))
        return ("not", norm_cond(inner))
    if c.kind == "truth":
        return ("truth", repr(c.args[0]))
    return ("opaque", repr(c))


def CMP(a, op, b) -> Cond:
    return Cond("cmp", a, op, b)


def AND(*cs) -> Cond:
    return Cond("and", *cs)


def OR(*cs) -> Cond:
    return Cond("or", *cs)


# ---------------------------------------------------------------------------------------------------------------------
def canon_store(s: Store):
    """A store with its loop variables renamed L0, L1, ... (outer -> inner): (idx, op, value, loops [(lo, hi, step)], guards) as strings/forms.
    Makes update-shape rules independent of the names of loop variables."""
    # loop variables renamed by depth, and every unit-step loop re-based to start at 0: `for n in range(l, size)` is `for m in range(size - l)` with n = l + m
    ren: Dict[str, Poly] = {}

    def r(pv):
        if isinstance(pv, Poly):
            return pv.subst(lambda at: ren[at[1]] if (at[0] == "s" and at[1] in ren) else None)
        return pv
    rebased = []
    for k, l in enumerate(s.loops):
        lo, hi, stp = r(l.lo), r(l.hi), r(l.step)
        Lk = Poly.sym(f"L{k}")
        if isinstance(lo, Poly) and isinstance(hi, Poly) and isinstance(stp, Poly) and stp == ONE and lo != ZERO and getattr(l, "kind", "range") == "range":
            ren[l.var] = lo + Lk
            rebased.append((ZERO, hi - lo, ONE))
        else:
            ren[l.var] = Lk
            rebased.append((lo, hi, stp))
    val = s.value
    if isinstance(val, Ref):
        val = val.poly()
    if isinstance(val, tuple):
        val = tuple(r(x.poly() if isinstance(x, Ref) else x) for x in val)
    else:
        val = r(val)
    loops = tuple((repr(a_), repr(b_), repr(c_)) for a_, b_, c_ in rebased)
    guards = tuple(sorted(str(norm_cond(_rename_cond(c, r))) for c in real_guards(s.guards)))
    if isinstance(val, Poly):
        _VALS[repr(val)] = val
    return (tuple(repr(r(x)) for x in s.idx), s.op, repr(val) if not isinstance(val, tuple) else tuple(map(repr, val)), loops, guards)


_VALS: Dict[str, Poly] = {}


def net_updates(updates):
    """canonical stores (canon_store / ref_store tuples) with the accumulations that hit the same element in the same loop nest under the same guards added up:
    `A[i, i] += a; A[i, i] += b` and `A[i, i] += a + b` are the same update, as are `-= v` and `+= -v`.  Plain assignments and other operators stay as they are."""
    groups, out = {}, []
    for u in updates:
        idx, op, val, loops, guards = u
        if op in ("+=", "-=") and isinstance(val, str) and val in _VALS:
            groups.setdefault((idx, loops, guards), []).append(_VALS[val] if op == "+=" else -_VALS[val])
        else:
            out.append(u)
    for (idx, loops, guards), vs in groups.items():
        tot = vs[0]
        for v in vs[1:]:
            tot = tot + v
        out.append((idx, "+=", repr(tot), loops, guards))
    return out


def _rename_cond(c: Cond, r):
    if c.kind == "cmp":
        a, op, b = c.args
        return Cond("cmp", r(a) if isinstance(a, Poly) else a, op, r(b) if isinstance(b, Poly) else b)
    if c.kind in ("and", "or", "not"):
        return Cond(c.kind, *[_rename_cond(x, r) if isinstance(x, Cond) else x for x in c.args])
    if c.kind == "truth":
        return Cond("truth", r(c.args[0]) if isinstance(c.args[0], Poly) else c.args[0])
    return c


def ref_store(idx, op, value, loops, guards=()):
    """reference counterpart of canon_store, written with L0, L1, ... as loop atoms"""
    if isinstance(value, Poly):
        _VALS[repr(value)] = value
    return (tuple(repr(x) for x in idx), op, repr(value) if not isinstance(value, tuple) else tuple(map(repr, value)),
            tuple((repr(a), repr(b), repr(c)) for a, b, c in loops), tuple(sorted(str(norm_cond(g)) for g in guards)))


# ---------------------------------------------------------------------------------------------------------------------
S_ = Poly.sym
def expr_poly(e: ast.expr, resolve=None) -> Poly:
    """numpy-level arithmetic as a polynomial over names (commutative ring; matrix products kept as ordered applications).
    resolve: optional function Name-node -> expression it stands for (or None), applied before a name becomes a symbol"""
    if resolve is not None and isinstance(e, ast.Name):
        r = resolve(e)
        if r is not None:
            return expr_poly(r, resolve)
    if isinstance(e, ast.Name):
        return S_(e.id)
    if isinstance(e, ast.Constant) and isinstance(e.value, (int, float)) and not isinstance(e.value, bool):
        return Poly.const(e.value)
    if isinstance(e, ast.UnaryOp) and isinstance(e.op, ast.USub):
        return -expr_poly(e.operand, resolve)
    if isinstance(e, ast.UnaryOp) and isinstance(e.op, ast.Invert):
        return Poly.fn("not", expr_poly(e.operand, resolve))
    if isinstance(e, ast.BinOp):
        a, b = expr_poly(e.left, resolve), expr_poly(e.right, resolve)
        if isinstance(e.op, ast.Add):
            return a + b
        if isinstance(e.op, ast.Sub):
            return a - b
        if isinstance(e.op, ast.Mult):
            return a * b
        if isinstance(e.op, ast.Div):
            try:
                return a / b
            except Exception:
                return Poly.fn("div", a, b)
        if isinstance(e.op, ast.MatMult):
            return Poly.fn("matmul", a, b)
        if isinstance(e.op, ast.FloorDiv):
            return Poly.fn("fdiv", a, b)
    if isinstance(e, ast.Call) and isinstance(e.func, ast.Name) and e.func.id == "int" and len(e.args) == 1 and not e.keywords:
        # int(q / d) and q // d share one form for the non-negative sizes they are applied to here (as in KEval.to_int)
        from .keval import KEval
        inner = expr_poly(e.args[0], resolve)
        r = KEval.to_int(None, inner)
        return r if isinstance(r, Poly) else Poly.fn("int", inner)
    if isinstance(e, ast.Call):
        t = norm_text(e.func)
        if t in ("np.dot", "numpy.dot", "np.matmul") and len(e.args) == 2:
            return Poly.fn("matmul", expr_poly(e.args[0], resolve), expr_poly(e.args[1], resolve))
        if isinstance(e.func, ast.Attribute) and e.func.attr == "dot" and len(e.args) == 1:
            return Poly.fn("matmul", expr_poly(e.func.value, resolve), expr_poly(e.args[0], resolve))
    if isinstance(e, ast.Subscript):
        idx = e.slice.elts if isinstance(e.slice, ast.Tuple) else [e.slice]
        return Poly.fn("index", expr_poly(e.value, resolve), *[S_(norm_text(i)) if isinstance(i, ast.Slice) else expr_poly(i, resolve) for i in idx])
    if isinstance(e, ast.Compare) and len(e.ops) == 1:
        a, b, op = e.left, e.comparators[0], type(e.ops[0]).__name__
        if op in ("Gt", "GtE"):  # canonical orientation
            a, b, op = b, a, {"Gt": "Lt", "GtE": "LtE"}[op]
        return Poly.fn("cmp:" + op, expr_poly(a, resolve), expr_poly(b, resolve))
    if isinstance(e, ast.Call) and not any(isinstance(a, ast.Starred) for a in e.args) and all(k.arg is not None for k in e.keywords):
        # any other call: an application of its (textual) callee to the forms of its arguments, keywords by name
        return Poly.fn("call:" + norm_text(e.func), *[expr_poly(a, resolve) for a in e.args], *[Poly.fn("kw:" + k.arg, expr_poly(k.value, resolve)) for k in sorted(e.keywords, key=lambda k: k.arg)])
    if isinstance(e, ast.Tuple) and not any(isinstance(a, ast.Starred) for a in e.elts):
        return Poly.fn("tuple", *[expr_poly(a, resolve) for a in e.elts])
    return Poly.atom(("s", "<" + norm_text(e) + ">"))


def src_poly(src: str) -> Poly:
    return expr_poly(ast.parse(src, mode="eval").body)




def renormalise(pl: Poly) -> Poly:
    """re-canonicalise applications whose argument changed by substitution: int(q / d) and q // d share one form (as in KEval.to_int)"""
    from .keval import KEval
    def fix(at):
        if at[0] == "f" and at[1] == "int" and len(at[2]) == 1 and isinstance(at[2][0], Poly):
            r = KEval.to_int(None, renormalise(at[2][0]))
            return r if isinstance(r, Poly) else None
        return None
    return pl.subst(fix)


def forwarded_values(stores: List[Store], names: Iterable[str]):
    """values of the stores into one array, in program order, with reads of that array forwarded from its own earlier stores:
    after  A[k, c] = f(k)  for every k of a full loop, a later read  A[j, c]  (j the variable of an equally full loop, or the same iteration) is f(j).
    Only unguarded stores at [loop variables..., constants...] are forwarded; anything else is left as the read atom.  Returns [(store, value)]."""
    names = set(names)
    table = {}   # (number of loop indices, constant suffix) -> (value, loop variable names, loop ranges)
    out = []
    for st in stores:
        v = value_poly(st.value) if not isinstance(st.value, tuple) else st.value
        lv = [l.var for l in st.loops]
        if isinstance(v, Poly) and table:
            def sub(at):
                if at[0] == "i" and at[1] in names:
                    idx = at[2]
                    for (n_loop, suffix), (val, vars_, ranges) in table.items():
                        if len(idx) == n_loop + len(suffix) and tuple(idx[n_loop:]) == suffix:
                            heads = idx[:n_loop]
                            if all(isinstance(h, Poly) and len(h.t) == 1 and h.is_monomial() for h in heads):
                                ren = {}
                                okh = True
                                for h, old in zip(heads, vars_):
                                    ats = [a for a in h.atoms()]
                                    if len(ats) == 1 and ats[0][0] == "s" and h == Poly.sym(ats[0][1]):
                                        ren[old] = ats[0][1]
                                    else:
                                        okh = False
                                if okh:
                                    return val.subst(lambda a2: Poly.sym(ren[a2[1]]) if (a2[0] == "s" and a2[1] in ren) else None)
                return None
            v2 = v.subst(sub)
            if v2 != v:
                v = renormalise(v2)
        out.append((st, v))
        # record this store for later reads
        n_loop = len(lv)
        if isinstance(v, Poly) and st.op == "=" and not real_guards(st.guards) and len(st.idx) >= n_loop and tuple(st.idx[:n_loop]) == tuple(Poly.sym(x) for x in lv) \
                and all(isinstance(i, Poly) and i.is_const() for i in st.idx[n_loop:]):
            table[(n_loop, tuple(st.idx[n_loop:]))] = (v, lv, [(l.lo, l.hi) for l in st.loops])
    return out


def cond_equiv(a: Cond, b: Cond, limit: int = 10, integer: bool = False) -> bool:
    """propositional equivalence of two conditions over their atomic comparisons (each comparison, oriented, is one propositional variable; `not (x <= y)` and `y < x` are the same
    literal).  Sufficient, not necessary: atoms are treated as independent."""
    atoms: Dict[str, int] = {}

    def lit(c: Cond):
        """(atom key, positive?) for a leaf"""
        if integer and c.kind == "cmp" and len(c.args) == 3 and c.args[1] in ("<", "<=") and isinstance(c.args[0], Poly) and isinstance(c.args[2], Poly):
            # over the integers (indices, extents):  l < r  is  r - l - 1 >= 0  and  l <= r  is  r - l >= 0 ;  not (p >= 0)  is  -p - 1 >= 0.
            # One variable per such pair {p, -p - 1}, so that  x <= W - 1,  x < W  and  not (W <= x)  are one literal.
            l_, op_, r_ = c.args
            p_ = r_ - l_ - (ONE if op_ == "<" else ZERO)
            q_ = -p_ - ONE
            return ((("ge0", repr(p_)), True) if repr(p_) <= repr(q_) else (("ge0", repr(q_)), False))
        n = norm_cond(c)
        if n[0] == "cmp":
            _, l, op, r = n
            # one variable per unordered pair for ==/!=, per ordered pair for < / <=  ( l <= r  ==  not (r < l) )
            if op == "==":
                return (("eq", l, r), True)
            if op == "!=":
                return (("eq", l, r), False)
            if op == "<":
                return (("lt", l, r), True)
            if op == "<=":
                return (("lt", r, l), False)
        return (("x", repr(n)), True)

    def ev(c: Cond, env) -> bool:
        if c.kind == "and":
            return all(ev(x, env) for x in c.args)
        if c.kind == "or":
            return any(ev(x, env) for x in c.args)
        if c.kind == "not" and c.args[0].kind in ("and", "or", "not"):
            return not ev(c.args[0], env)
        k, pos = lit(c)
        return env[k] if pos else not env[k]

    def collect(c: Cond):
        if c.kind in ("and", "or"):
            for x in c.args:
                collect(x)
        elif c.kind == "not" and c.args[0].kind in ("and", "or", "not"):
            collect(c.args[0])
        else:
            atoms.setdefault(lit(c)[0], len(atoms))
    collect(a)
    collect(b)
    keys = list(atoms)
    if len(keys) > limit:
        return False
    for m in range(1 << len(keys)):
        env = {k: bool((m >> i) & 1) for i, k in enumerate(keys)}
        if ev(a, env) != ev(b, env):
            return False
    return True


def index_form(e: ast.expr):
    """A[i, j] / A[i][j] with slices -> (name, ((kind, lower, upper) ...)) in canonical polynomial form; a missing lower bound is 0.  None if not of that shape."""
    idx = []
    cur = e
    chain_ = []
    while isinstance(cur, ast.Subscript):
        chain_.append(cur.slice)
        cur = cur.value
    if not isinstance(cur, ast.Name):
        return None
    for sl in reversed(chain_):
        idx.extend(sl.elts if isinstance(sl, ast.Tuple) else [sl])
    out = []
    for i in idx:
        if isinstance(i, ast.Slice):
            if i.step is not None:
                return None
            out.append(("slice", expr_poly(i.lower) if i.lower is not None else ZERO, expr_poly(i.upper) if i.upper is not None else None))
        else:
            out.append(("at", expr_poly(i)))
    return (cur.id, tuple(out))
