"""Positive controls (mutants that must fire) and behaviour-preserving twins (must stay silent).

Each rules module may define CONTROLS = [Control(...)].  A control edits one repository module *in memory*, the rules of
the property are re-run on the edited project model and the verdict is compared with the unedited tree.  Controls test the
checker; they never decide the property."""
from __future__ import annotations

import importlib
import os
from typing import Callable, List, Optional

from .model import Project, REPO


class Control:
    def __init__(self, name: str, relpath: str, edit: Callable[[str], str], expect_rule: Optional[str], twin: bool = False):
        self.name = name
        self.relpath = relpath
        self.edit = edit
        self.expect_rule = expect_rule  # None for twins
        self.twin = twin


def controls_of(pid: str) -> List[Control]:
    mod = importlib.import_module(f"sa.rules.{pid}")
    return list(getattr(mod, "CONTROLS", []))


def run_control(pid: str, idx: int):
    """returns (name, status, detail); status in ok / MISSED / FALSE-ALARM / stale"""
    from .main import run_rules
    c = controls_of(pid)[idx]
    path = os.path.join(REPO, c.relpath)
    try:
        with open(path, encoding="utf-8", newline=None) as fh:
            src = fh.read()
        new_src = c.edit(src)
    except (LookupError, OSError, SyntaxError) as e:
        return (c.name, "stale", f"{type(e).__name__}: {e}")
    base = run_rules(pid, "quick", Project(REPO))
    base_keys = {f.key for f in base.findings}
    mut = run_rules(pid, "quick", Project(REPO, overrides={c.relpath: new_src}))
    new = [f for f in mut.findings if f.key not in base_keys]
    if c.twin:
        if new or len(mut.analysis_errors) > len(base.analysis_errors):
            return (c.name, "FALSE-ALARM", "; ".join(f.text() for f in new[:3]) or "; ".join(mut.analysis_errors[:3]))
        return (c.name, "ok", "silent on behaviour-preserving edit")
    hit = [f for f in new if c.expect_rule is None or f.rule == c.expect_rule or f.rule.startswith(c.expect_rule)]
    if hit:
        return (c.name, "ok", hit[0].text())
    if new:
        return (c.name, "ok-other-rule", new[0].text())
    if len(mut.analysis_errors) > len(base.analysis_errors):
        return (c.name, "ok-exit2", mut.analysis_errors[-1])
    return (c.name, "MISSED", f"expected rule {c.expect_rule} to fire")


def _w(args):
    return run_control(*args)


def run_all(ctx, jobs: int = 16):
    cs = controls_of(ctx.pid)
    if not cs:
        ctx.note("no positive controls registered for this property")
        return
    import multiprocessing as mp
    with mp.Pool(min(jobs, len(cs))) as pool:
        res = pool.map(_w, [(ctx.pid, i) for i in range(len(cs))])
    ctx.rule("CONTROL", "thorough tier: each rule is re-run on an in-memory edited copy of its anchor; mutants must fire, behaviour-preserving twins must stay silent")
    for name, status, detail in res:
        if status in ("ok", "ok-other-rule", "ok-exit2"):
            ctx.ob("CONTROL", name, True, detail=f"{status}: {detail}")
        elif status == "stale":
            ctx.note(f"control '{name}' could not be applied to the current tree ({detail})")
        else:
            ctx.ob("CONTROL", name, None, message=f"{status}: {detail}")
