"""E4 (part 2) - abstract evaluation of the numba-subset kernels with polynomial normal forms.

A forward dataflow pass over one function: every scalar is a Poly (canonical Laurent polynomial over atoms) or TOP, arrays are
named references whose elements are atoms, control flow is handled by *join* at merges (equal values stay, different values
become a phi atom / TOP) - there is no path enumeration, no path condition accumulation for feasibility, no solver.  A loop body
is analysed once with the loop index as an atom; names that are carried around the loop are havocked at loop entry.
Calls to other project functions are analysed context-sensitively by substitution (bounded depth).

The result is a Summary: return values, array stores (with index forms, value forms, enclosing guards and loops),
comparisons, raises and conditional scalar assignments.  Rules compare these canonical forms with reference forms."""
from __future__ import annotations

import ast
from fractions import Fraction
from typing import Any, Dict, List, Optional, Tuple, Set

from .model import FuncInfo, Project, unparse
from .poly import Poly, as_poly, ZERO, ONE


class Top:
    def __repr__(self):
        return "TOP"


class KUnbound(Exception):
    """a local variable is read on a path where no assignment reaches it (Python: UnboundLocalError)"""


TOP = Top()
SLICE = Poly.sym(":")


class Const:
    """A non-numeric constant (str / None / bool)."""

    def __init__(self, v):
        self.v = v

    def __repr__(self):
        return f"Const({self.v!r})"

    def __eq__(self, o):
        return isinstance(o, Const) and o.v == self.v

    def __hash__(self):
        return hash(("Const", self.v))


class Ref:
    """A named array / unknown-kind value, possibly partially indexed."""

    def __init__(self, name: str, idx: Tuple[Poly, ...] = (), local: bool = False, shape=None, init=None, origin=None):
        self.name = name
        idx = tuple(idx)
        while idx and idx[-1] == SLICE:
            idx = idx[:-1]  # a[k, :] and a[k] (and a[:, :] and a) denote the same elements
        self.idx = idx
        self.local = local
        self.shape = shape  # tuple of values or None
        self.init = init  # ('zeros'|'ones'|'full'|'copy'|..., value)
        self.origin = origin or name

    def index(self, more) -> "Ref":
        more = list(more)
        idx = []
        for x in self.idx:
            if x == SLICE and more:
                idx.append(more.pop(0))  # numpy basic slicing: a[:, 0][k] is a[k, 0]
            else:
                idx.append(x)
        idx.extend(more)
        r = Ref(self.name, tuple(idx), self.local, None, self.init, self.origin)
        r.base = getattr(self, "base", self)
        return r

    def poly(self) -> Poly:
        if self.idx:
            return Poly.elem(self.name, *self.idx)
        return Poly.sym(self.name)

    def __repr__(self):
        return f"Ref({self.name}{list(self.idx) if self.idx else ''})"

    def __eq__(self, o):
        return isinstance(o, Ref) and o.name == self.name and o.idx == self.idx

    def __hash__(self):
        return hash(("Ref", self.name, self.idx))


class Ctor:
    """the result of constructing a project class: class key + bound constructor arguments"""

    def __init__(self, cls_key: str, cls_name: str, args: Dict[str, Any]):
        self.cls_key = cls_key
        self.cls_name = cls_name
        self.args = args

    def __repr__(self):
        return f"{self.cls_name}({', '.join(f'{k}={v!r}' for k, v in self.args.items())})"

    def __eq__(self, o):
        return isinstance(o, Ctor) and o.cls_key == self.cls_key and list(o.args.items()) == list(self.args.items())

    def __hash__(self):
        return hash(("Ctor", self.cls_key))


class SelfObj(Ref):
    """`self` for class-layer evaluation: given field forms, properties / __getitem__ evaluated on demand through the class's MRO"""

    def __init__(self, cls, fields: Dict[str, Any], keval: "KEval", depth_limit: int = 6):
        super().__init__("self")
        self.cls = cls
        self.fields = fields
        self.keval = keval
        self.depth_limit = depth_limit
        self._busy = set()

    def attr(self, name: str, depth: int):
        if name in self.fields:
            return self.fields[name]
        m = self.cls.lookup(name)
        if m is not None and (m.is_property or m.is_cached) and name not in self._busy and depth < self.depth_limit:
            self._busy.add(name)
            try:
                S = self.keval.summarize(m, {"self": self}, depth + 1)
            finally:
                self._busy.discard(name)
            return S.ret
        return None

    def getitem(self, idx, depth: int):
        m = self.cls.lookup("__getitem__")
        if m is not None and depth < self.depth_limit and len(m.params) == 2:
            S = self.keval.summarize(m, {"self": self, m.params[1]: idx}, depth + 1)
            return S.ret
        return None


class MapSeq:
    """the value of `[E(v) for v in SEQ]` (one generator, no filter): element k is E with v bound to SEQ[k], evaluated in the environment of the comprehension"""

    def __init__(self, seq, var, elt, env, K, S, f, guards, loops, depth):
        self.seq, self.var, self.elt, self.env = seq, var, elt, env
        self.K, self.S, self.f, self.guards, self.loops, self.depth = K, S, f, guards, loops, depth

    def at(self, idx):
        env = dict(self.env)
        env[self.var] = self.K.element_of(self.seq, idx)
        return self.K.ev(self.elt, env, self.S, self.f, self.guards, self.loops, self.depth)

    def __eq__(self, other):
        return self is other

    def __hash__(self):
        return id(self)

    def __repr__(self):
        return f"[{unparse(self.elt)[:60]} for {self.var} in {self.seq!r}]"


class ShapeOf:
    def __init__(self, ref: Ref):
        self.ref = ref

    def get(self, k: int):
        r = self.ref
        if r.idx and all(x == SLICE for x in r.idx):
            r = Ref(r.name, (), r.local, getattr(getattr(r, "base", None), "shape", None), r.init, r.origin)
            for a in ("shape_like", "like"):
                if hasattr(getattr(self.ref, "base", None), a):
                    setattr(r, a, getattr(self.ref.base, a))
        if r.shape is not None and not r.idx:
            if k < len(r.shape):
                return r.shape[k]
            return TOP
        if not r.idx and getattr(r, "shape_like", None) is not None:
            return ShapeOf(r.shape_like).get(k)
        if not r.idx and isinstance(getattr(r, "like", None), Ref):
            return ShapeOf(r.like).get(k)
        base = r.poly()
        return Poly.fn("shape", base, Poly.const(k)) if r.idx else Poly.sym(f"{r.name}.shape[{k}]")

    def __repr__(self):
        return f"ShapeOf({self.ref})"


_NEG_OP = {"<": "<=", "<=": "<", "==": "!=", "!=": "=="}


class Cond:
    """kind: 'cmp' (lhs, op, rhs) | 'not' (c,) | 'and' / 'or' (c...) | 'truth' (value,) | 'opaque' (text,)"""

    def __init__(self, kind: str, *args, node=None):
        if kind == "cmp" and len(args) == 3 and args[1] in (">", ">="):
            # canonical orientation: a > b is stored as b < a, so that rules never depend on which way round a comparison was written
            args = (args[2], "<" if args[1] == ">" else "<=", args[0])
        self.kind = kind
        self.args = args
        self.node = node

    def negate(self) -> "Cond":
        if self.kind == "not":
            return self.args[0]
        if self.kind == "or":
            # De Morgan: the fall-through of `if a or b: continue` is the conjunction of the negated disjuncts
            return Cond("and", *[a.negate() for a in self.args], node=self.node)
        if self.kind == "cmp" and len(self.args) == 3 and self.args[1] in _NEG_OP:
            # not (a < b) is stored as b <= a (index arithmetic; NaN ordering is outside what the canonical forms distinguish)
            a, op, b = self.args
            nop = _NEG_OP[op]
            c = Cond("cmp", b, nop, a, node=self.node) if nop in ("<", "<=") and op in ("<", "<=") else Cond("cmp", a, nop, b, node=self.node)
            for k in ("path",):
                if hasattr(self, k):
                    setattr(c, k, getattr(self, k))
            return c
        return Cond("not", self, node=self.node)

    def flat_and(self) -> List["Cond"]:
        if self.kind == "and":
            out = []
            for a in self.args:
                for x in a.flat_and():
                    if hasattr(self, "path") and not hasattr(x, "path"):
                        x = Cond(x.kind, *x.args, node=x.node)
                        x.path = self.path
                    out.append(x)
            return out
        return [self]

    def __repr__(self):
        if self.kind == "cmp":
            return f"({self.args[0]!r} {self.args[1]} {self.args[2]!r})"
        if self.kind == "not":
            return f"not {self.args[0]!r}"
        if self.kind in ("and", "or"):
            return "(" + f" {self.kind} ".join(repr(a) for a in self.args) + ")"
        if self.kind == "truth":
            return f"truth({self.args[0]!r})"
        return f"opaque({self.args[0]})"

    def key(self):
        return repr(self)


class Loop:
    def __init__(self, var: str, lo, hi, step, node, kind="range"):
        self.var = var
        self.lo, self.hi, self.step = lo, hi, step
        self.node = node
        self.kind = kind

    @property
    def atom(self) -> Poly:
        return Poly.sym(self.var)

    def __repr__(self):
        return f"for {self.var} in [{self.lo!r}, {self.hi!r}) step {self.step!r}" + (" (left early by break)" if getattr(self, "broken", None) else "")


class Store:
    def __init__(self, arr: str, idx, value, op: str, guards, loops, node, local: bool, func: FuncInfo, origin: str = None):
        self.arr = arr
        self.idx = tuple(idx)
        self.value = value
        self.op = op
        self.guards = tuple(guards)
        self.loops = tuple(loops)
        self.node = node
        self.local = local
        self.func = func
        self.origin = origin or arr

    def __repr__(self):
        return f"{self.arr}[{', '.join(map(repr, self.idx))}] {self.op} {self.value!r}   if {list(self.guards)}  in {list(self.loops)}"


class Summary:
    def __init__(self, func: FuncInfo):
        self.func = func
        self.stores: List[Store] = []
        self.returns: List[Tuple[Any, tuple, ast.AST]] = []
        self.compares: List[Tuple[Cond, tuple, tuple]] = []  # (cond, guards, loops)
        self.raises: List[Tuple[str, tuple, ast.AST]] = []
        self.assigns: List[Tuple[str, Any, str, tuple, tuple, ast.AST]] = []  # scalar (name, value, op, guards, loops, node)
        self.loops: List[Loop] = []
        self.calls: List[Tuple[str, Dict[str, Any], tuple, ast.AST]] = []
        self.notes: List[str] = []
        self.env: Dict[str, Any] = {}

    @property
    def ret(self):
        vals = [v for v, _, _ in self.returns]
        if not vals:
            return None
        v0 = vals[0]
        if all(_veq(v, v0) for v in vals[1:]):
            return v0
        if len(self.returns) == 2 and all(isinstance(v, Poly) for v in vals):
            # `if c: return a` / `return b`: the value is the conditional form ite(c, a, b) (the same form a conditional assignment followed by one return gives)
            (a, g1, _), (b, g2, _) = self.returns
            g1, g2 = [x for g in g1 for x in g.flat_and()], [x for g in g2 for x in g.flat_and()]
            if len(g1) == 1 and len(g2) == 1:
                (q1, f1), (q2, f2) = cond_poly(g1[0]), cond_poly(g2[0])
                if q1 == q2 and f1 != f2:
                    return ite(g1[0], a, b)
        return TOP

    def stores_to(self, name: str) -> List[Store]:
        return [s for s in self.stores if s.arr == name or s.origin == name]

    def returned_array_names(self) -> List[str]:
        out = []
        for v, _, _ in self.returns:
            for x in (v if isinstance(v, tuple) else (v,)):
                if isinstance(x, Ref) and x.name not in out:
                    # (the same array returned from several exits - an early return - is one result; what was written on each path is in the stores' guards)
                    out.append(x.name)
        return out


def cond_poly(c: "Cond"):
    """(canonical form of a condition as a Poly application, flipped?) - `a <= b` is the flipped `b < a`, `a != b` the flipped `a == b`, `not X` the flipped X"""
    def P(x):
        return x if isinstance(x, Poly) else Poly.sym(repr(x))
    if c is None:
        return Poly.sym("?"), False
    if c.kind == "not":
        q, fl = cond_poly(c.args[0])
        return q, not fl
    if c.kind == "cmp" and len(c.args) == 3:
        a, op, b = c.args
        a, b = P(a), P(b)
        if op == "<":
            return Poly.fn("cmp:<", a, b), False
        if op == "<=":
            return Poly.fn("cmp:<", b, a), True
        if op in ("==", "!="):
            x, y = sorted((a, b), key=repr)
            return Poly.fn("cmp:==", x, y), op == "!="
        return Poly.fn("cmp:" + op, a, b), False
    if c.kind == "truth":
        return Poly.fn("truth", P(c.args[0])), False
    return Poly.sym(repr(c)), False


def ite(c: "Cond", a: Poly, b: Poly) -> Poly:
    """value of a scalar after the join of `if c: x = a else: x = b`, with the condition kept in one polarity (so that both spellings of the test give one form)"""
    q, fl = cond_poly(c)
    if fl:
        a, b = b, a
    return Poly.fn("ite", q, a, b)


def _veq(a, b) -> bool:
    if isinstance(a, tuple) and isinstance(b, tuple):
        return len(a) == len(b) and all(_veq(x, y) for x, y in zip(a, b))
    if isinstance(a, Top) or isinstance(b, Top):
        return False
    try:
        return a == b
    except Exception:
        return False


NP_ELEMENTWISE = {"sqrt", "cos", "sin", "tan", "exp", "log", "log10", "arctan2", "arctan", "arcsin", "arccos", "radians", "degrees",
                  "abs", "absolute", "fabs", "floor", "ceil", "sign", "round", "rint", "real", "imag", "conj", "isnan", "hypot"}
ALLOC = {"zeros": 0, "ones": 1, "empty": None}


def norm_text_(e) -> str:
    try:
        return ast.unparse(e)
    except Exception:  # pragma: no cover
        return ""


class KEval:
    def __init__(self, project: Project, max_depth: int = 5):
        self.p = project
        self.max_depth = max_depth
        self._fresh = 0
        self._allocs: Dict[str, Ref] = {}
        self.cmp_oracle = None  # optional: (Poly, op, Poly) -> bool | None, e.g. a fixed ordering of the inputs
        self.none_defaults_const = True  # a parameter the rule does not supply and whose default is None IS None (the documented contract of the function as it is called without the option); False: analyse it symbolically
        self.model_unbound = False  # raise KUnbound when a local is read before any assignment reaches it

    def fresh(self, base: str) -> str:
        self._fresh += 1
        return f"{base}#{self._fresh}"

    # ------------------------------------------------------------------ entry
    def summarize(self, func: FuncInfo, args: Optional[Dict[str, Any]] = None, depth: int = 0, prefix: str = "") -> Summary:
        S = Summary(func)
        env: Dict[str, Any] = {}
        args = args or {}
        for a_ in args.values():
            # the extents of an array argument given with a shape are integers (int(H) is H)
            for x_ in (a_ if isinstance(a_, tuple) else (a_,)):
                for e_ in (getattr(x_, "shape", None) or ()) if isinstance(x_, Ref) else ((x_,) if isinstance(a_, tuple) and isinstance(x_, Poly) else ()):
                    if isinstance(e_, Poly):
                        INT_SYMS.update(a[1] for a in e_.atoms() if a[0] == "s")
        for p in func.all_params:
            if p in args:
                env[p] = args[p]
            elif p in func.defaults:
                dv = self.ev(func.defaults[p], {}, S, func, (), (), depth)
                # a None default is the "not supplied" sentinel: analyse the parameter symbolically
                # (unless the rule asks for the documented contract with the optional arguments left out)
                env[p] = Ref(prefix + p) if (isinstance(dv, Const) and dv.v is None and not self.none_defaults_const) else dv
            elif p in ("self", "cls"):
                env[p] = Ref(p)
            else:
                env[p] = Ref(prefix + p)
        self.block(func.node.body, env, S, func, (), (), depth)
        S.env = env
        return S

    # ------------------------------------------------------------------ statements
    def block(self, body, env, S, f, guards, loops, depth) -> bool:
        """returns True if the block always terminates abruptly (return / raise / continue / break)"""
        for st in body:
            r = self.stmt(st, env, S, f, guards, loops, depth)
            if r:
                return r
        return False

    def stmt(self, st, env, S, f, guards, loops, depth) -> bool:
        if (isinstance(st, ast.Assign) and len(st.targets) == 1 and isinstance(st.targets[0], ast.Name) and isinstance(st.value, ast.BinOp) and isinstance(st.value.op, (ast.Add, ast.Sub))):
            # a scalar written  x = x + e  is the counter update  x += e  (same statement for scalars; arrays are left alone: rebinding is not an in-place update)
            x = st.targets[0].id
            l, r = st.value.left, st.value.right
            other = r if (isinstance(l, ast.Name) and l.id == x) else (l if (isinstance(st.value.op, ast.Add) and isinstance(r, ast.Name) and r.id == x) else None)
            if other is not None and x in env and not isinstance(env.get(x), (Ref, Top)) and not any(isinstance(n, ast.Name) and n.id == x for n in ast.walk(other)):
                v = self.ev(other, env, S, f, guards, loops, depth)
                self.assign(st.targets[0], v, "+=" if isinstance(st.value.op, ast.Add) else "-=", env, S, f, guards, loops, depth, st, binop=st.value.op)
                return False
        if isinstance(st, ast.Assign):
            v = self.ev(st.value, env, S, f, guards, loops, depth, hint=self._hint(st.targets[0]))
            for t in st.targets:
                self.assign(t, v, "=", env, S, f, guards, loops, depth, st)
            return False
        if isinstance(st, ast.AnnAssign):
            if st.value is not None:
                v = self.ev(st.value, env, S, f, guards, loops, depth)
                self.assign(st.target, v, "=", env, S, f, guards, loops, depth, st)
            return False
        if isinstance(st, ast.AugAssign):
            v = self.ev(st.value, env, S, f, guards, loops, depth)
            op = {ast.Add: "+=", ast.Sub: "-=", ast.Mult: "*=", ast.Div: "/=", ast.FloorDiv: "//=", ast.Pow: "**=", ast.BitOr: "|=", ast.BitAnd: "&="}.get(type(st.op), "?=")
            self.assign(st.target, v, op, env, S, f, guards, loops, depth, st, binop=st.op)
            return False
        if isinstance(st, ast.For):
            return self.for_(st, env, S, f, guards, loops, depth)
        if isinstance(st, ast.While):
            self.havoc(st.body, env)
            c = self.cond(st.test, env, S, f, guards, loops, depth)
            e2 = dict(env)
            self.block(st.body, e2, S, f, guards + (c,), loops + (Loop("<while>", TOP, TOP, TOP, st, "while"),), depth)
            self.join_into(env, env, e2, None)
            return False
        if isinstance(st, ast.If):
            c = self.cond(st.test, env, S, f, guards, loops, depth)
            S.compares.append((c, guards, loops))
            known = self.const_truth(c)
            if known is True:
                return self.block(st.body, env, S, f, guards, loops, depth)
            if known is False:
                return self.block(st.orelse, env, S, f, guards, loops, depth)
            e1, e2 = dict(env), dict(env)
            t1 = self.block(st.body, e1, S, f, guards + (c,), loops, depth)
            t2 = self.block(st.orelse, e2, S, f, guards + (c.negate(),), loops, depth)
            if t1 and t2:
                return "raise" if (t1 == "raise" and t2 == "raise") else "exit"
            if t1:
                env.clear(); env.update(e2)
                pc = c.negate(); pc.path = t1
                env["#path"] = env.get("#path", ()) + (pc,)
            elif t2:
                env.clear(); env.update(e1)
                pc = Cond(c.kind, *c.args, node=c.node); pc.path = t2
                env["#path"] = env.get("#path", ()) + (pc,)
            else:
                self.join_into(env, e1, e2, c)
            return False
        if isinstance(st, ast.Return):
            # `return bool(C)` / `return C` in a function whose other returns are the constants True / False is `if C: return True` / `return False`
            e0, wrapped = st.value, False
            while isinstance(e0, ast.Call) and isinstance(e0.func, ast.Name) and e0.func.id == "bool" and len(e0.args) == 1 and not e0.keywords:
                e0, wrapped = e0.args[0], True
            if isinstance(e0, (ast.Compare, ast.BoolOp)) or (isinstance(e0, ast.UnaryOp) and isinstance(e0.op, ast.Not)):
                others = [r for r in ast.walk(f.node) if isinstance(r, ast.Return) and r is not st]
                if wrapped or (others and all(isinstance(r.value, ast.Constant) and isinstance(r.value.value, bool) for r in others)):
                    c = self.cond(e0, env, S, f, guards, loops, depth)
                    path = tuple(env.get("#path", ()))
                    S.returns.append((Const(True), guards + path + (c,), st))
                    S.returns.append((Const(False), guards + path + (c.negate(),), st))
                    return "exit"
            v = self.ev(st.value, env, S, f, guards, loops, depth) if st.value is not None else Const(None)
            S.returns.append((v, guards + tuple(env.get("#path", ())), st))
            return "exit"
        if isinstance(st, ast.Raise):
            name = "?"
            if st.exc is not None:
                e = st.exc.func if isinstance(st.exc, ast.Call) else st.exc
                name = unparse(e)
            S.raises.append((name, guards + tuple(env.get("#path", ())), st))
            return "raise"
        if isinstance(st, ast.Continue):
            return "exit"
        if isinstance(st, ast.Break):
            # leaves the innermost loop for good: that loop no longer covers its range (rules that need a full traversal look at Loop.kind / Loop.broken)
            if loops:
                lp = loops[-1]
                lp.broken = getattr(lp, "broken", ()) + (tuple(guards) + tuple(env.get("#path", ())),)
                if lp.kind == "range":
                    lp.kind = "range-break"
                if not hasattr(lp, "hi_nominal"):
                    # fail closed for every rule that compares loop bounds directly: a loop that can be left early has no known upper end
                    lp.hi_nominal = lp.hi
                    lp.hi = TOP
            return "exit"
        if isinstance(st, ast.Expr):
            self.ev(st.value, env, S, f, guards, loops, depth)
            return False
        if isinstance(st, ast.Try) and self.model_unbound:
            try:
                r = self.block(st.body, env, S, f, guards, loops, depth)
                return r
            except KUnbound:
                for h in st.handlers:
                    hn = unparse(h.type) if h.type is not None else ""
                    if hn.split(".")[-1] in ("UnboundLocalError", "NameError", "Exception", ""):
                        return self.block(h.body, env, S, f, guards, loops, depth)
                raise
        if isinstance(st, ast.Try):
            self.block(st.body, env, S, f, guards, loops, depth)
            for h in st.handlers:
                e2 = dict(env)
                self.block(h.body, e2, S, f, guards + (Cond("opaque", "except " + (unparse(h.type) if h.type else ""), node=h),), loops, depth)
                self.join_into(env, env, e2, None)
            self.block(st.orelse, env, S, f, guards, loops, depth)
            self.block(st.finalbody, env, S, f, guards, loops, depth)
            return False
        if isinstance(st, ast.With):
            self.block(st.body, env, S, f, guards, loops, depth)
            return False
        if isinstance(st, (ast.Pass, ast.Import, ast.ImportFrom, ast.FunctionDef, ast.ClassDef, ast.Global, ast.Nonlocal, ast.Assert, ast.Delete)):
            return False
        S.notes.append(f"unhandled statement {type(st).__name__} at line {st.lineno}")
        return False

    def _hint(self, t):
        if isinstance(t, ast.Name):
            return t.id
        if isinstance(t, ast.Attribute) and isinstance(t.value, ast.Name):
            return t.value.id + "." + t.attr
        return None

    def havoc(self, body, env):
        """names (re)assigned in a loop body and live at loop entry are loop-carried: forget their value."""
        for n in body:
            for sub in ast.walk(n):
                tg = []
                if isinstance(sub, ast.Assign):
                    tg = sub.targets
                elif isinstance(sub, (ast.AugAssign, ast.AnnAssign)):
                    tg = [sub.target]
                elif isinstance(sub, ast.For):
                    tg = [sub.target]
                for t in tg:
                    for nm in ast.walk(t):
                        if isinstance(nm, ast.Name) and isinstance(nm.ctx, ast.Store) and nm.id in env:
                            old = env[nm.id]
                            if isinstance(old, Ref) or isinstance(old, tuple):
                                if isinstance(old, Ref) and old.local:
                                    continue  # arrays keep identity; element contents are never tracked
                            env[nm.id] = Poly.sym(nm.id + "~")

    def join_into(self, env, e1, e2, c):
        keys = set(e1) | set(e2)
        out = {}
        for k in keys:
            if k == "#path":
                continue
            if k in e1 and k in e2:
                a, b = e1[k], e2[k]
                if _veq(a, b):
                    out[k] = a
                elif isinstance(a, Poly) and isinstance(b, Poly):
                    out[k] = ite(c, a, b)
                elif isinstance(a, Ref) and isinstance(b, Ref) and a.name == b.name:
                    out[k] = a
                elif isinstance(a, Ref) and isinstance(b, Ref) and isinstance(b.init, tuple) and len(b.init) == 2 and b.init[0] == "copy" and _veq(b.init[1], a):
                    out[k] = a   # `x = copy(x)` on one branch only: the same values either way (which storage holds them is the EFFECT engine's question, not this one's)
                elif isinstance(a, Ref) and isinstance(b, Ref) and isinstance(a.init, tuple) and len(a.init) == 2 and a.init[0] == "copy" and _veq(a.init[1], b):
                    out[k] = b
                else:
                    out[k] = TOP
            else:
                out[k] = e1.get(k, e2.get(k))  # defined on one branch only (python would raise on the other if used)
        if "#path" in e1 or "#path" in e2:
            p1, p2 = e1.get("#path", ()), e2.get("#path", ())
            out["#path"] = p1 if p1 == p2 else tuple(x for x in p1 if x in p2)
        env.clear()
        env.update(out)

    def for_(self, st: ast.For, env, S, f, guards, loops, depth) -> bool:
        it = st.iter
        if isinstance(it, ast.Name) and it.id in self._locals_of(f):
            # `offsets = range(a, b)` hoisted out of the loop nest and iterated by name: the loop over that range (the temporary is read through only when nothing it
            # reads was rebound in between)
            from . import wire
            try:
                it2 = wire.inline_locals(f, it)
            except Exception:  # noqa
                it2 = it
            if isinstance(it2, ast.Call) and isinstance(it2.func, ast.Name) and it2.func.id in ("range", "prange", "enumerate", "zip") and it2.func.id not in env:
                it = it2
        self.havoc(st.body, env)
        lp = None
        if isinstance(it, ast.Call) and isinstance(it.func, ast.Name) and it.func.id in ("range", "prange") and isinstance(st.target, ast.Name):
            a = [self.ev(x, env, S, f, guards, loops, depth) for x in it.args]
            a = [self.scalar(x) for x in a]
            if len(a) == 1:
                lo, hi, step = ZERO, a[0], ONE
            elif len(a) == 2:
                lo, hi, step = a[0], a[1], ONE
            else:
                lo, hi, step = a[0], a[1], a[2]
            lp = Loop(st.target.id, lo, hi, step, st)
            env[st.target.id] = Poly.sym(st.target.id)
        elif isinstance(it, ast.Call) and isinstance(it.func, ast.Name) and it.func.id == "enumerate" and isinstance(st.target, ast.Tuple) and len(st.target.elts) == 2:
            iv, xv = st.target.elts
            name = iv.id if isinstance(iv, ast.Name) else "<idx>"
            inner = it.args[0] if it.args else None
            if isinstance(inner, ast.Call) and isinstance(inner.func, ast.Name) and inner.func.id == "range" and inner.func.id not in env:
                # enumerate(range(a, b[, c])): index k from 0, item a + k*c
                ra = [self.scalar(self.ev(x, env, S, f, guards, loops, depth)) for x in inner.args]
                lo, hi, stp = (ZERO, ra[0], ONE) if len(ra) == 1 else ((ra[0], ra[1], ONE) if len(ra) == 2 else (ra[0], ra[1], ra[2]))
                if all(isinstance(x, Poly) for x in (lo, hi, stp)) and stp == ONE:
                    lp = Loop(name, ZERO, hi - lo, ONE, st, "range")
                    item = lo + Poly.sym(name)
                else:
                    lp = Loop(name, ZERO, TOP, ONE, st, "enumerate")
                    item = TOP
                if isinstance(iv, ast.Name):
                    env[iv.id] = Poly.sym(iv.id)
                self.bind_target(xv, item, env)
            else:
                seq = self.ev(inner, env, S, f, guards, loops, depth) if inner is not None else TOP
                n_ = self.length_of(seq)
                # `for i, v in enumerate(A)` over an array of known extent is `for i in range(len(A)): v = A[i]`
                lp = Loop(name, ZERO, n_, ONE, st, "range" if isinstance(seq, Ref) and isinstance(n_, Poly) else "enumerate")
                if isinstance(iv, ast.Name):
                    env[iv.id] = Poly.sym(iv.id)
                self.bind_target(xv, self.element_of(seq, Poly.sym(name)), env)
        elif isinstance(it, ast.Call) and norm_text_(it.func) in ("itertools.combinations", "combinations") and len(it.args) == 2 and isinstance(it.args[1], ast.Constant) and it.args[1].value == 2 \
                and isinstance(it.args[0], ast.Call) and isinstance(it.args[0].func, ast.Name) and it.args[0].func.id == "range" and len(it.args[0].args) == 1 \
                and isinstance(st.target, ast.Tuple) and len(st.target.elts) == 2 and all(isinstance(x, ast.Name) for x in st.target.elts):
            # for i, j in combinations(range(n), 2)  is  for i in range(n): for j in range(i + 1, n)
            n_ = self.scalar(self.ev(it.args[0].args[0], env, S, f, guards, loops, depth))
            iv, jv = st.target.elts[0].id, st.target.elts[1].id
            outer = Loop(iv, ZERO, n_, ONE, st)
            outer.depth = len(loops)
            outer.outer = loops
            S.loops.append(outer)
            loops = loops + (outer,)
            lp = Loop(jv, Poly.sym(iv) + ONE, n_, ONE, st)
            env[iv] = Poly.sym(iv)
            env[jv] = Poly.sym(jv)
        elif isinstance(it, ast.Call) and isinstance(it.func, ast.Name) and it.func.id == "zip" and "zip" not in env and isinstance(st.target, ast.Tuple) and len(st.target.elts) == len(it.args) >= 2 \
                and not it.keywords and all(isinstance(self.ev(a_, env, S, f, guards, loops, depth), Ref) for a_ in it.args):
            # `for a, b in zip(A, B)` over arrays is an index loop over the first array's extent (numpy kernels zip equally long arrays): a = A[k], b = B[k]
            seqs = [self.ev(a_, env, S, f, guards, loops, depth) for a_ in it.args]
            name = self.fresh("zip").replace("#", "_")
            lp = Loop(name, ZERO, self.length_of(seqs[0]), ONE, st, "range" if isinstance(self.length_of(seqs[0]), Poly) else "enumerate")
            for t_, q_ in zip(st.target.elts, seqs):
                self.bind_target(t_, self.element_of(q_, Poly.sym(name)), env)
        elif isinstance(st.target, ast.Name) and self._row_selection(it, f) is not None:
            # `for i in np.where(ROWS_WITH_A_NONZERO_ENTRY(M))[0]`  is  `for i in range(M.shape[0]): if any(M[i, :] != 0):`  - rows selected up front instead of tested in the loop
            mname = self._row_selection(it, f)
            mref = env.get(mname)
            n_ = self.length_of(mref) if mref is not None else TOP
            lp = Loop(st.target.id, ZERO, n_, ONE, st, "range" if isinstance(n_, Poly) else "enumerate")
            env[st.target.id] = Poly.sym(st.target.id)
            guards = guards + (Cond("rowany", mname, st.target.id, node=st),)
        else:
            seq = self.ev(it, env, S, f, guards, loops, depth)
            name = st.target.id if isinstance(st.target, ast.Name) else "<item>"
            lp = Loop(name, TOP, TOP, TOP, st, "iter")
            lp.seq = seq
            self.bind_target(st.target, self.element_of(seq, Poly.sym(name + "@")), env)
        path0 = env.get("#path", ())
        S.loops.append(lp)
        lp.depth = len(loops)
        lp.outer = loops
        e2 = env  # body analysed in place (havoc already applied); python semantics: names leak out of the loop
        self.block(st.body, e2, S, f, guards, loops + (lp,), depth)
        if st.orelse:
            self.block(st.orelse, env, S, f, guards, loops, depth)
        if path0:
            env["#path"] = path0  # `continue`-style path conditions end with the loop body
        else:
            env.pop("#path", None)
        return False

    def _row_selection(self, it: ast.expr, f: FuncInfo) -> Optional[str]:
        """the name M when `it` (a local read through to its definition) is the index list of the rows of the 2-D array M that hold at least one non-zero entry:
        np.where(R)[0] / np.nonzero(R)[0] / np.flatnonzero(R)  with  R = np.sum(M != 0, axis=1) != 0 (or > 0) | np.any(M != 0, axis=1) | (M != 0).any(axis=1) |
        np.count_nonzero(M, axis=1) != 0 (or > 0).  Anything else (a sum of the signed entries, another axis) is not such a selection."""
        from . import wire
        try:
            e = wire.inline_locals(f, it)
        except Exception:  # noqa
            return None
        R = None
        if isinstance(e, ast.Subscript) and isinstance(e.slice, ast.Constant) and e.slice.value == 0 and isinstance(e.value, ast.Call) and norm_text_(e.value.func) in ("np.where", "numpy.where", "np.nonzero", "numpy.nonzero") \
                and len(e.value.args) == 1 and not e.value.keywords:
            R = e.value.args[0]
        elif isinstance(e, ast.Call) and norm_text_(e.func) in ("np.flatnonzero", "numpy.flatnonzero") and len(e.args) == 1 and not e.keywords:
            R = e.args[0]
        if R is None:
            return None

        def axis1(c):
            kws = {k.arg: k.value for k in c.keywords}
            ax = kws.get("axis", c.args[1] if len(c.args) > 1 else None)
            return isinstance(ax, ast.Constant) and ax.value == 1

        def nonzero_of(x):
            """M when x is `M != 0` (either orientation)"""
            if isinstance(x, ast.Compare) and len(x.ops) == 1 and isinstance(x.ops[0], ast.NotEq):
                a, b = x.left, x.comparators[0]
                for m, z in ((a, b), (b, a)):
                    if isinstance(m, ast.Name) and isinstance(z, ast.Constant) and z.value in (0, 0.0) and not isinstance(z.value, bool):
                        return m.id
            return None

        def positive(x):
            """the counted quantity Q when x is `Q != 0`, `Q > 0`, `0 < Q`, `0 != Q`"""
            if isinstance(x, ast.Compare) and len(x.ops) == 1:
                a, op, b = x.left, x.ops[0], x.comparators[0]
                zero = lambda z: isinstance(z, ast.Constant) and z.value in (0, 0.0) and not isinstance(z.value, bool)
                if zero(b) and isinstance(op, (ast.NotEq, ast.Gt)):
                    return a
                if zero(a) and isinstance(op, (ast.NotEq, ast.Lt)):
                    return b
            return None
        q = positive(R)
        if isinstance(q, ast.Call) and norm_text_(q.func) in ("np.sum", "numpy.sum") and q.args and axis1(q):
            return nonzero_of(q.args[0])
        if isinstance(q, ast.Call) and norm_text_(q.func) in ("np.count_nonzero", "numpy.count_nonzero") and q.args and axis1(q) and isinstance(q.args[0], ast.Name):
            return q.args[0].id
        if isinstance(R, ast.Call) and norm_text_(R.func) in ("np.any", "numpy.any") and R.args and axis1(R):
            return nonzero_of(R.args[0])
        if isinstance(R, ast.Call) and isinstance(R.func, ast.Attribute) and R.func.attr == "any" and axis1(ast.Call(func=R.func, args=[None] + list(R.args), keywords=R.keywords)):
            return nonzero_of(R.func.value)
        return None

    def _locals_of(self, f: FuncInfo):
        loc = getattr(f, "_assigned_locals", None)
        if loc is None:
            loc = set()
            for n in f.body_nodes():
                if isinstance(n, ast.Name) and isinstance(n.ctx, ast.Store):
                    loc.add(n.id)
            f._assigned_locals = loc
        return loc

    def const_truth(self, c: Cond):
        """truth value of a condition that is a literal constant (default-argument flags such as renormalize=False), else None"""
        if c.kind == "truth" and isinstance(c.args[0], Const) and isinstance(c.args[0].v, bool):
            return c.args[0].v
        if c.kind == "cmp":
            a, op, b = c.args
            none_a, none_b = isinstance(a, Const) and a.v is None, isinstance(b, Const) and b.v is None
            if op in ("is", "is not") and (none_a or none_b):
                other = b if none_a else a
                if (isinstance(other, Const) and other.v is None):
                    return op == "is"
                if getattr(c, "definitely_not_none", False) or isinstance(other, (tuple, Ctor)) or (isinstance(other, Const) and other.v is not None):
                    return op == "is not"
                return None

            def cv(x):
                if isinstance(x, Poly):
                    return x.const_value()
                if isinstance(x, tuple):
                    vs = [cv(y) for y in x]
                    return None if any(v is None for v in vs) else tuple(vs)
                if isinstance(x, Const) and isinstance(x.v, (int, float, str, bool)) and x.v is not None:
                    return x.v
                return None
            va, vb = cv(a), cv(b)
            if self.cmp_oracle is not None and isinstance(a, Poly) and isinstance(b, Poly) and (va is None or vb is None) and op in ("==", "!=", "<", "<=", ">", ">="):
                r = self.cmp_oracle(a, op, b)
                if r is not None:
                    return r
            if va is not None and vb is not None and op in ("==", "!=", "<", "<=", ">", ">="):
                try:
                    return {"==": va == vb, "!=": va != vb, "<": va < vb, "<=": va <= vb, ">": va > vb, ">=": va >= vb}[op]
                except TypeError:
                    return None
            return None
        if c.kind == "not":
            t = self.const_truth(c.args[0])
            return None if t is None else (not t)
        if c.kind == "and":
            ts = [self.const_truth(a) for a in c.args]
            if any(t is False for t in ts):
                return False
            if all(t is True for t in ts):
                return True
        if c.kind == "or":
            ts = [self.const_truth(a) for a in c.args]
            if any(t is True for t in ts):
                return True
            if all(t is False for t in ts):
                return False
        return None

    def length_of(self, seq):
        if isinstance(seq, tuple):
            return Poly.const(len(seq))
        if isinstance(seq, MapSeq):
            return self.length_of(seq.seq)
        if isinstance(seq, Ref):
            return ShapeOf(seq).get(0)
        if isinstance(seq, Poly):
            return Poly.fn("len", seq)
        return TOP

    def element_of(self, seq, idx: Poly):
        if isinstance(seq, MapSeq):
            return seq.at(idx)
        if isinstance(seq, Ref):
            return seq.index((idx,))
        if isinstance(seq, Poly):
            return Ref(repr(seq)).index((idx,))
        return TOP

    def bind_target(self, t, v, env):
        if isinstance(t, ast.Name):
            env[t.id] = v
        elif isinstance(t, (ast.Tuple, ast.List)):
            if isinstance(v, tuple) and len(v) == len(t.elts):
                for a, b in zip(t.elts, v):
                    self.bind_target(a, b, env)
            elif isinstance(v, ShapeOf):
                # a, b = X.shape binds a to X.shape[0], b to X.shape[1]
                for k, a in enumerate(t.elts):
                    self.bind_target(a, v.get(k), env)
            elif isinstance(v, Ref):
                for k, a in enumerate(t.elts):
                    self.bind_target(a, v.index((Poly.const(k),)), env)
            else:
                for a in t.elts:
                    self.bind_target(a, TOP, env)

    # ------------------------------------------------------------------ assignment
    def assign(self, t, v, op, env, S, f, guards, loops, depth, node, binop=None):
        path = tuple(env.get("#path", ()))
        if isinstance(t, ast.Name):
            if op == "=":
                if isinstance(v, Ref) and v.local and v.name.startswith("<alloc>") and not v.idx:
                    v.name = self.fresh(t.id) if any(s.arr == t.id for s in S.stores) else t.id
                    v.origin = t.id
                if isinstance(v, Poly):
                    al = [a for a in v.atoms() if a[0] == "s" and a[1] in self._allocs]
                    if len(al) == 1 and len(v.t) <= 2:
                        # arithmetic on a freshly allocated array (e.g. -1 * np.ones(n), 0 + 0j * np.zeros(n)): still a fresh local array
                        src = self._allocs[al[0][1]]
                        nm = self.fresh(t.id) if any(s.arr == t.id for s in S.stores) else t.id
                        init_v = v.subst(lambda a: (src.init[1] if (a == al[0] and src.init and isinstance(src.init[1], Poly)) else None))
                        v = Ref(nm, (), True, src.shape, ("expr", init_v), origin=t.id)
                        self._allocs[nm] = v
                env[t.id] = v
                if guards or loops:
                    prev = Poly.sym(t.id + "~")
                    if loops and isinstance(v, Poly) and any(a == ("s", t.id + "~") for a in v.atoms()):
                        d_ = v - prev
                        if not any(a == ("s", t.id + "~") for a in d_.all_atoms()):
                            # x = <x of the previous iteration> + e, however it was spelled (x = x + e; y = x + e ... x = y): the counter update x += e
                            S.assigns.append((t.id, d_, "+=", guards + path, loops, node))
                            return
                    S.assigns.append((t.id, v, op, guards + path, loops, node))
            else:
                cur = env.get(t.id, TOP)
                if isinstance(cur, Ref) and not isinstance(v, Top):
                    # whole-array in-place update
                    S.stores.append(Store(cur.name, cur.idx + (SLICE,), self.scalar(v), op, guards + path, loops, node, cur.local, f, cur.origin))
                    return
                new = self.binop(binop, self.scalar(cur), self.scalar(v))
                S.assigns.append((t.id, self.scalar(v), op, guards + path, loops, node))
                env[t.id] = new
            return
        if isinstance(t, (ast.Tuple, ast.List)):
            self.bind_target(t, v, env)
            return
        if isinstance(t, ast.Subscript):
            base = self.ev(t.value, env, S, f, guards, loops, depth)
            idx = self.index_of(t.slice, env, S, f, guards, loops, depth, base=base)
            if isinstance(base, Ref):
                val = v if isinstance(v, (tuple, Ref, Const)) else self.scalar(v)
                if isinstance(val, tuple) and idx and idx[-1] is SLICE and op == "=" and all(isinstance(x, (Poly, Ref, Const)) for x in val):
                    # a row written as a tuple,  A[k, :] = a, b,  is the element stores  A[k, 0] = a; A[k, 1] = b  (one canonical spelling for both)
                    for i_, x in enumerate(val):
                        S.stores.append(Store(base.name, base.idx + tuple(idx[:-1]) + (Poly.const(i_),), x if isinstance(x, (Ref, Const)) else self.scalar(x), op, guards + path, loops, node, base.local, f, base.origin))
                    return
                S.stores.append(Store(base.name, base.idx + tuple(idx), val, op, guards + path, loops, node, base.local, f, base.origin))
            else:
                S.notes.append(f"store into untracked base at line {node.lineno}: {unparse(t)[:60]}")
            return
        if isinstance(t, ast.Attribute):
            base = self.ev(t.value, env, S, f, guards, loops, depth)
            nm = (base.name if isinstance(base, Ref) else unparse(t.value)) + "." + t.attr
            S.stores.append(Store(nm, (), v, op, guards + path, loops, node, False, f))
            if isinstance(base, Ref) and base.name in ("self",):
                env["self." + t.attr] = v
            return

    # ------------------------------------------------------------------ expressions
    def scalar(self, v):
        """coerce to Poly / TOP for arithmetic"""
        if isinstance(v, Poly):
            return v
        if isinstance(v, Ref):
            return v.poly()
        if isinstance(v, bool):
            return Poly.const(int(v))
        if isinstance(v, Const):
            if isinstance(v.v, bool):
                return Poly.const(int(v.v))
            return TOP
        if isinstance(v, Cond):
            return Poly.fn("bool", Poly.sym(v.key()))
        return TOP

    def binop(self, op, a, b):
        if isinstance(a, Top) or isinstance(b, Top) or not isinstance(a, Poly) or not isinstance(b, Poly):
            return TOP
        try:
            if isinstance(op, ast.Add):
                return a + b
            if isinstance(op, ast.Sub):
                return a - b
            if isinstance(op, ast.Mult):
                return a * b
            if isinstance(op, ast.Div):
                return a / b
            if isinstance(op, ast.FloorDiv):
                ca, cb = a.const_value(), b.const_value()
                if ca is not None and cb not in (None, 0):
                    return Poly.const(ca // cb)
                return Poly.fn("fdiv", a, b)
            if isinstance(op, ast.Mod):
                ca, cb = a.const_value(), b.const_value()
                if ca is not None and cb not in (None, 0):
                    return Poly.const(ca % cb)
                return Poly.fn("mod", a, b)
            if isinstance(op, ast.Pow):
                c = b.const_value()
                if c is not None and c.denominator == 1 and -6 <= c <= 6:
                    return a ** int(c)
                if c is not None and c == Fraction(1, 2):
                    return Poly.fn("sqrt", a)
                return Poly.fn("pow", a, b)
            if isinstance(op, ast.MatMult):
                return Poly.fn("matmul", a, b)
            if isinstance(op, (ast.BitAnd, ast.BitOr, ast.BitXor)):
                return Poly.fn({ast.BitAnd: "and", ast.BitOr: "or", ast.BitXor: "xor"}[type(op)], a, b)
        except ZeroDivisionError:
            return TOP
        return TOP

    def index_of(self, sl, env, S, f, guards, loops, depth, base=None) -> List[Poly]:
        els = sl.elts if isinstance(sl, ast.Tuple) else [sl]
        out = []
        # extents of the axes being indexed, when the base is an array of known shape: an open slice end is then that extent (a[k:] is a[k:n])
        shape = None
        if isinstance(base, Ref) and base.shape is not None and len(base.shape) >= len(base.idx) + len(els) and not any(x is SLICE or (isinstance(x, Poly) and "slice" in repr(x)) for x in base.idx):
            shape = base.shape[len(base.idx):]
        for axis, e in enumerate(els):
            if isinstance(e, ast.Slice):
                if e.lower is None and e.upper is None and e.step is None:
                    out.append(SLICE)
                else:
                    lo = self.scalar(self.ev(e.lower, env, S, f, guards, loops, depth)) if e.lower is not None else Poly.sym("None")
                    hi = self.scalar(self.ev(e.upper, env, S, f, guards, loops, depth)) if e.upper is not None else Poly.sym("None")
                    stp = self.scalar(self.ev(e.step, env, S, f, guards, loops, depth)) if e.step is not None else Poly.sym("None")
                    if e.step is None:
                        # open ends of a unit-step slice in one spelling: a[:k] is a[0:k]
                        if e.lower is None:
                            lo = ZERO
                        if e.upper is None and shape is not None and isinstance(shape[axis], Poly):
                            hi = shape[axis]
                    if any(isinstance(x, Top) for x in (lo, hi, stp)):
                        out.append(Poly.sym("?slice"))
                    else:
                        out.append(Poly.fn("slice", lo, hi, stp))
            else:
                v = self.ev(e, env, S, f, guards, loops, depth)
                if isinstance(v, Const) and v.v is None:
                    out.append(Poly.sym("None"))
                elif isinstance(v, Cond):
                    out.append(Poly.fn("mask", Poly.sym(repr(norm_key(v)))))
                else:
                    s = self.scalar(v)
                    out.append(s if isinstance(s, Poly) else Poly.sym("?"))
        return out

    def cond(self, e, env, S, f, guards, loops, depth) -> Cond:
        if isinstance(e, ast.BoolOp):
            parts = [self.cond(v, env, S, f, guards, loops, depth) for v in e.values]
            return Cond("and" if isinstance(e.op, ast.And) else "or", *parts, node=e)
        if isinstance(e, ast.UnaryOp) and isinstance(e.op, ast.Not):
            return Cond("not", self.cond(e.operand, env, S, f, guards, loops, depth), node=e)
        if isinstance(e, ast.Compare):
            vals = [self.ev(e.left, env, S, f, guards, loops, depth)] + [self.ev(c, env, S, f, guards, loops, depth) for c in e.comparators]
            ops = [{ast.Lt: "<", ast.LtE: "<=", ast.Gt: ">", ast.GtE: ">=", ast.Eq: "==", ast.NotEq: "!=", ast.Is: "is", ast.IsNot: "is not",
                    ast.In: "in", ast.NotIn: "not in"}[type(o)] for o in e.ops]
            parts = []
            for i, op in enumerate(ops):
                a, b = vals[i], vals[i + 1]
                a2 = a if isinstance(a, (Const, tuple, Ctor)) else self.scalar(a)
                b2 = b if isinstance(b, (Const, tuple, Ctor)) else self.scalar(b)
                cc = Cond("cmp", a2, op, b2, node=e)
                # a value that was given as a concrete form (not an unknown-kind parameter) is not None
                if op in ("is", "is not") and ((isinstance(a, Poly) and isinstance(b, Const)) or (isinstance(b, Poly) and isinstance(a, Const))):
                    cc.definitely_not_none = True
                parts.append(cc)
            return parts[0] if len(parts) == 1 else Cond("and", *parts, node=e)
        v = self.ev(e, env, S, f, guards, loops, depth)
        if isinstance(v, Cond):
            return v
        return Cond("truth", v if isinstance(v, (Const, tuple)) else self.scalar(v), node=e)

    def ev(self, e, env, S, f, guards, loops, depth, hint=None):
        if e is None:
            return Const(None)
        if isinstance(e, ast.Constant):
            v = e.value
            if isinstance(v, bool):
                return Const(v)
            if isinstance(v, (int, float)):
                try:
                    return Poly.const(v)
                except ValueError:
                    return TOP
            if isinstance(v, complex):
                return Poly.const(v.imag) * Poly.sym("J") + (Poly.const(v.real) if v.real else ZERO)
            return Const(v)
        if isinstance(e, ast.Name):
            if e.id in env:
                return env[e.id]
            if e.id in ("True", "False"):
                return Const(e.id == "True")
            if self.model_unbound and e.id in self._locals_of(f):
                raise KUnbound(e.id)
            return Ref(e.id)  # global / unknown
        if isinstance(e, (ast.Tuple, ast.List)):
            return tuple(self.ev(x, env, S, f, guards, loops, depth) for x in e.elts)
        if isinstance(e, ast.UnaryOp):
            if isinstance(e.op, ast.Not):
                return self.cond(e, env, S, f, guards, loops, depth)
            v = self.scalar(self.ev(e.operand, env, S, f, guards, loops, depth))
            if isinstance(v, Top):
                return TOP
            if isinstance(e.op, ast.USub):
                return -v
            if isinstance(e.op, ast.UAdd):
                return v
            if isinstance(e.op, ast.Invert):
                return Poly.fn("invert", v)
            return TOP
        if isinstance(e, ast.BinOp):
            a = self.ev(e.left, env, S, f, guards, loops, depth)
            b = self.ev(e.right, env, S, f, guards, loops, depth)
            if isinstance(a, tuple) or isinstance(b, tuple):
                if isinstance(a, tuple) and isinstance(b, tuple) and isinstance(e.op, ast.Add) and not getattr(self, "_vector_tuples", False):
                    return a + b
                # a small vector (np.array([..])) combined with a scalar: element-wise
                if isinstance(a, tuple) and not isinstance(b, tuple) and isinstance(self.scalar(b), Poly):
                    return tuple(self.binop(e.op, self.scalar(x), self.scalar(b)) for x in a)
                if isinstance(b, tuple) and not isinstance(a, tuple) and isinstance(self.scalar(a), Poly):
                    return tuple(self.binop(e.op, self.scalar(a), self.scalar(x)) for x in b)
                return TOP
            if isinstance(a, Cond) and isinstance(b, Cond) and isinstance(e.op, (ast.BitAnd, ast.BitOr)):
                return Cond("and" if isinstance(e.op, ast.BitAnd) else "or", a, b, node=e)  # element-wise boolean combination
            for x, y, left in ((a, b, True), (b, a, False)):
                if isinstance(x, Ref) and x.local and not x.idx and x.name in self._allocs and x.init and isinstance(x.init[1], Poly) \
                        and not any(st_.arr == x.name for st_ in S.stores) \
                        and isinstance(self.scalar(y), Poly) and not any(at[0] == "s" and at[1] in self._allocs for at in self.scalar(y).atoms()):
                    # arithmetic on a freshly allocated constant array (-1 * np.ones(n), 0 + 0j * np.zeros(n)) is still a fresh array
                    iv = self.binop(e.op, x.init[1], self.scalar(y)) if left else self.binop(e.op, self.scalar(y), x.init[1])
                    r = Ref(self.fresh("<alloc>"), (), True, x.shape, ("expr", iv), origin=None)
                    for a_ in ("shape_like", "like"):
                        if hasattr(x, a_):
                            setattr(r, a_, getattr(x, a_))
                    self._allocs[r.name] = r
                    return r
            return self.binop(e.op, self.scalar(a), self.scalar(b))
        if isinstance(e, (ast.Compare, ast.BoolOp)):
            return self.cond(e, env, S, f, guards, loops, depth)
        if isinstance(e, ast.IfExp):
            c = self.cond(e.test, env, S, f, guards, loops, depth)
            a = self.ev(e.body, env, S, f, guards, loops, depth)
            b = self.ev(e.orelse, env, S, f, guards, loops, depth)
            if _veq(a, b):
                return a
            a2, b2 = self.scalar(a), self.scalar(b)
            if isinstance(a2, Poly) and isinstance(b2, Poly):
                return Poly.fn("ite", Poly.sym(c.key()), a2, b2)
            return TOP
        if isinstance(e, ast.Subscript):
            base = self.ev(e.value, env, S, f, guards, loops, depth)
            if isinstance(base, tuple):
                if isinstance(e.slice, ast.Constant) and isinstance(e.slice.value, int) and -len(base) <= e.slice.value < len(base):
                    return base[e.slice.value]
                k = self.scalar(self.ev(e.slice, env, S, f, guards, loops, depth)) if not isinstance(e.slice, (ast.Slice, ast.Tuple)) else TOP
                if isinstance(k, Poly) and k.const_value() is not None and k.const_value().denominator == 1 and -len(base) <= int(k.const_value()) < len(base):
                    return base[int(k.const_value())]
                if isinstance(e.slice, ast.Slice) and all(x is None or isinstance(x, ast.Constant) for x in (e.slice.lower, e.slice.upper, e.slice.step)):
                    sl = slice(*(x.value if x is not None else None for x in (e.slice.lower, e.slice.upper, e.slice.step)))
                    return base[sl]
                return TOP
            if isinstance(base, ShapeOf):
                k = self.scalar(self.ev(e.slice, env, S, f, guards, loops, depth)) if not isinstance(e.slice, ast.Slice) else TOP
                if isinstance(k, Poly) and k.const_value() is not None:
                    return base.get(int(k.const_value()))
                return TOP
            if isinstance(base, SelfObj) and not isinstance(e.slice, (ast.Slice, ast.Tuple)):
                v = base.getitem(self.ev(e.slice, env, S, f, guards, loops, depth), depth)
                if v is not None:
                    return v
            idx = self.index_of(e.slice, env, S, f, guards, loops, depth, base=base)
            if isinstance(base, Ref):
                return base.index(idx)
            if isinstance(base, Poly) and len(base.t) == 1 and list(base.t.values())[0] == 1 and len(list(base.t)[0]) == 1 \
                    and list(base.t)[0][0][0][0] == "f" and list(base.t)[0][0][1] == 1 and list(base.t)[0][0][0][1] not in NP_ELEMENTWISE:
                # the result of an uninterpreted call: index the result, not its arguments
                return Ref(repr(base)).index(idx)
            if isinstance(base, Poly):
                # element of a whole-array expression: index every array-kinded atom (elementwise semantics)
                def sub(at):
                    if at[0] == "s" and not at[1].startswith("?") and at[1] not in ("pi", "J", ":"):
                        return Poly.elem(at[1], *idx)
                    if at[0] == "i":
                        if not any(x == SLICE for x in at[2]):
                            return None  # a scalar element (e.g. centre[0]) is not indexed again
                        more = list(idx)
                        filled = []
                        for x in at[2]:
                            if x == SLICE and more:
                                filled.append(more.pop(0))  # a[:, 0][k] is a[k, 0]
                            else:
                                filled.append(x)
                        return Poly.elem(at[1], *(tuple(filled) + tuple(more)))
                    return None
                return base.subst(sub)
            return TOP
        if isinstance(e, ast.Attribute):
            if isinstance(e.value, ast.Name) and e.value.id in ("np", "numpy", "math") and e.value.id not in env:
                if e.attr == "pi":
                    return Poly.sym("pi")
                if e.attr in ("inf", "nan"):
                    return Poly.sym(e.attr)
                return Ref("np." + e.attr)
            base = self.ev(e.value, env, S, f, guards, loops, depth)
            if isinstance(base, SelfObj):
                v = base.attr(e.attr, depth)
                if v is not None:
                    return v
            if isinstance(base, Ctor) and e.attr in base.args:
                return base.args[e.attr]
            if isinstance(base, Ref):
                if e.attr == "shape":
                    return ShapeOf(base)
                if e.attr in ("real", "imag", "T", "array", "native", "slim", "in_array"):
                    if base.name == "self":
                        return env.get("self." + e.attr, Ref("self." + e.attr))
                    return Ref(base.name + "." + e.attr, base.idx, base.local, None, base.init, base.origin)
                if e.attr == "size":
                    return Poly.fn("size", base.poly())
                if base.name == "self" and ("self." + e.attr) in env:
                    return env["self." + e.attr]
                return Ref(base.name + "." + e.attr, (), False)
            if isinstance(base, Poly) and e.attr in ("real", "imag", "T"):
                return Poly.fn(e.attr, base)
            return TOP
        if isinstance(e, ast.Call):
            return self.call(e, env, S, f, guards, loops, depth, hint)
        if isinstance(e, ast.JoinedStr):
            return Const("<fstring>")
        if isinstance(e, ast.ListComp) and len(e.generators) == 1 and not e.generators[0].ifs and not e.generators[0].is_async and isinstance(e.generators[0].target, ast.Name):
            # [E(v) for v in SEQ]: a sequence as long as SEQ whose element k is E evaluated at SEQ[k] (a list precomputed for a later loop is that loop's own expression)
            seq = self.ev(e.generators[0].iter, env, S, f, guards, loops, depth)
            if isinstance(seq, (Ref, MapSeq, Poly)):
                return MapSeq(seq, e.generators[0].target.id, e.elt, dict(env), self, S, f, guards, loops, depth)
            return TOP
        if isinstance(e, (ast.ListComp, ast.GeneratorExp, ast.SetComp, ast.DictComp, ast.Lambda, ast.Dict, ast.Set, ast.Starred)):
            return TOP
        return TOP

    # ------------------------------------------------------------------ calls
    def call(self, e: ast.Call, env, S, f, guards, loops, depth, hint=None):
        fn = e.func
        name = fn.attr if isinstance(fn, ast.Attribute) else (fn.id if isinstance(fn, ast.Name) else None)
        is_np = isinstance(fn, ast.Attribute) and isinstance(fn.value, ast.Name) and fn.value.id in ("np", "numpy", "math", "npw") and fn.value.id not in env
        args = [self.ev(a, env, S, f, guards, loops, depth) for a in e.args]
        kw = {k.arg: self.ev(k.value, env, S, f, guards, loops, depth) for k in e.keywords if k.arg}

        if norm_text_(fn) in ("copy.copy", "copy.deepcopy") and len(args) == 1 and not kw and "copy" not in env:
            # the copy module's copies of an array: the same values in new storage, like np.copy
            a = args[0]
            if isinstance(a, Ref):
                return Ref(self.fresh(a.name + ".copy"), (), True, a.shape if not a.idx else None, ("copy", a), origin=hint)
            return a
        if isinstance(fn, ast.Name) and fn.id not in env:
            if fn.id in ("float", "complex") and args:
                return args[0]
            if fn.id == "int" and args:
                return self.to_int(self.scalar(args[0]))
            if fn.id == "len" and args:
                a = args[0]
                if isinstance(a, tuple):
                    return Poly.const(len(a))
                if isinstance(a, Ref):
                    return ShapeOf(a).get(0)
                if isinstance(a, ShapeOf):
                    return Poly.fn("ndim", a.ref.poly())
                if isinstance(a, Poly):
                    return Poly.fn("len", a)
                return TOP
            if fn.id == "slice" and "slice" not in env and 1 <= len(args) <= 3 and not kw:
                # a slice object built by the builtin is the slice a[lo:hi:step] writes (same canonical form, open lower end of a unit-step slice = 0)
                sc = [Poly.sym("None") if (isinstance(a, Const) and a.v is None) else self.scalar(a) for a in args]
                if all(isinstance(x, Poly) for x in sc):
                    lo_, hi_, st_ = (Poly.sym("None"), sc[0], Poly.sym("None")) if len(sc) == 1 else (sc[0], sc[1], sc[2] if len(sc) == 3 else Poly.sym("None"))
                    if st_ == Poly.sym("None") and lo_ == Poly.sym("None"):
                        lo_ = ZERO
                    return Poly.fn("slice", lo_, hi_, st_)
            if fn.id in ("abs", "min", "max", "round", "sum", "bool", "pow"):
                sc = [self.scalar(a) for a in args]
                if all(isinstance(x, Poly) for x in sc):
                    return Poly.fn(fn.id, *sc)
                return TOP
            if fn.id in ("tuple", "list") and args:
                return args[0]
            if fn.id == "range":
                return TOP
            if fn.id in ("print", "isinstance", "hasattr", "getattr", "type", "str", "zip", "enumerate", "sorted", "reversed", "dict", "set"):
                return TOP

        if is_np:
            if name in ALLOC or name in ("full", "zeros_like", "ones_like", "empty_like", "full_like"):
                shape = kw.get("shape", args[0] if args else None)
                init = None
                if name in ("zeros", "zeros_like", "empty", "empty_like"):
                    init = ("zeros", ZERO) if "zeros" in name else ("empty", None)
                elif name in ("ones", "ones_like"):
                    init = ("ones", ONE)
                elif name in ("full", "full_like"):
                    fv = kw.get("fill_value", args[1] if len(args) > 1 else TOP)
                    init = ("full", fv if isinstance(fv, Const) else self.scalar(fv))
                if name.endswith("_like"):
                    src = args[0] if args else None
                    shp = None
                    r = Ref(hint or self.fresh("<alloc>"), (), True, shp, init)
                    r.like = src
                    return r
                if isinstance(shape, tuple):
                    shp = tuple(self.scalar(x) for x in shape)
                elif isinstance(shape, Poly):
                    shp = (shape,)
                elif isinstance(shape, Ref):
                    if "shape" in shape.name.split(".")[-1] and not shape.idx:
                        shp = tuple(shape.index((Poly.const(k),)).poly() for k in range(3))  # a shape tuple of unknown rank
                    else:
                        shp = (shape.poly(),)
                elif isinstance(shape, ShapeOf):
                    shp = None
                    r = Ref(hint or self.fresh("<alloc>"), (), True, None, init)
                    r.shape_like = shape.ref
                    self._allocs[r.name] = r
                    return r
                else:
                    shp = None
                nm = hint or self.fresh("<alloc>")
                if any(s.arr == nm for s in S.stores):
                    nm = self.fresh(nm)
                r = Ref(nm, (), True, shp, init, origin=hint)
                self._allocs[nm] = r
                return r
            if name in ("array", "asarray", "copy", "ascontiguousarray") and args:
                a = args[0]
                if isinstance(a, Ref) and name == "copy":
                    return Ref(self.fresh(a.name + ".copy"), (), True, a.shape if not a.idx else None, ("copy", a), origin=hint)
                return a
            if name == "square" and args:
                s = self.scalar(args[0])
                return s * s if isinstance(s, Poly) else TOP
            if name in ("multiply", "add", "subtract", "divide") and len(args) >= 2 and ("out" in kw or "where" in kw):
                a, b = self.scalar(args[0]), self.scalar(args[1])
                res = self.binop({"multiply": ast.Mult(), "add": ast.Add(), "subtract": ast.Sub(), "divide": ast.Div()}[name], a, b)
                if isinstance(res, Poly):
                    if "where" not in kw:
                        return res
                    w = kw["where"]
                    wp = Poly.sym(repr(norm_key(w))) if isinstance(w, Cond) else self.scalar(w)
                    o = kw.get("out")
                    if isinstance(o, Ref) and o.init is not None and isinstance(o.init[1], Poly):
                        op_ = o.init[1]
                    elif o is None:
                        op_ = Poly.sym("uninitialised")
                    else:
                        op_ = self.scalar(o) if isinstance(self.scalar(o), Poly) else Poly.sym("?out")
                    if isinstance(wp, Poly):
                        return Poly.fn("masked", res, wp, op_)
                return TOP
            if name in ("multiply", "add", "subtract", "divide") and len(args) >= 2 and "out" not in kw and "where" not in kw:
                a, b = self.scalar(args[0]), self.scalar(args[1])
                return self.binop({"multiply": ast.Mult(), "add": ast.Add(), "subtract": ast.Sub(), "divide": ast.Div()}[name], a, b)
            if name == "shape" and args and isinstance(args[0], Ref):
                return ShapeOf(args[0])
            if name in ("float64", "float32", "int64", "int32") and args:
                return args[0] if name.startswith("float") else self.to_int(self.scalar(args[0]))
            sc = [self.scalar(a) for a in args]
            if name in NP_ELEMENTWISE or True:
                if sc and all(isinstance(x, Poly) for x in sc) and not kw:
                    nm = {"absolute": "abs", "fabs": "abs"}.get(name, name)
                    return Poly.fn(nm, *sc)
                if sc and all(isinstance(x, Poly) for x in sc):
                    kws = [Poly.fn("kw_" + k, self.scalar(v)) if isinstance(self.scalar(v), Poly) else Poly.sym("kw_" + k + "=?") for k, v in sorted(kw.items())]
                    return Poly.fn(name, *sc, *kws)
            return TOP

        # sequence builders keep their structure (children, axis) so that rules can compare them as sets of parts
        if name in ("stack", "concatenate", "vstack", "hstack") and args and isinstance(args[0], tuple):
            return Ctor("numpy", name, {"seq": args[0], "axis": kw.get("axis", args[1] if len(args) > 1 else Const(None))})
        # a python list that is grown in place is no longer the literal it started as
        if isinstance(fn, ast.Attribute) and name in ("append", "extend", "insert", "pop", "remove") and isinstance(fn.value, ast.Name) \
                and isinstance(env.get(fn.value.id), tuple):
            r = Ref(fn.value.id + "#list")
            r.opaque_local = True
            env[fn.value.id] = r
            return Const(None)
        # array methods
        if isinstance(fn, ast.Attribute):
            base = self.ev(fn.value, env, S, f, guards, loops, depth)
            if isinstance(base, Poly) and name in ("copy", "astype", "view") and not isinstance(fn.value, ast.Name):
                return base   # a copy / cast of a computed array expression holds the same values
            if isinstance(base, Poly) and name == "copy":
                return base
            if isinstance(base, Ref) and base.name not in ("self", "cls"):
                if name in ("astype", "copy", "view", "ravel", "flatten"):
                    if name == "copy":
                        return Ref(self.fresh(base.name + ".copy"), (), True, base.shape if not base.idx else None, ("copy", base), origin=hint)
                    return base
                if name in ("sum", "max", "min", "mean", "all", "any", "conj", "transpose", "reshape", "dot"):
                    sc = [self.scalar(a) for a in args]
                    if all(isinstance(x, Poly) for x in sc):
                        return Poly.fn(name, base.poly(), *sc)
                    return TOP
            if isinstance(base, Poly) and name in ("astype",):
                return base

        # methods of the object under class-layer evaluation
        if isinstance(fn, ast.Attribute) and isinstance(fn.value, ast.Name) and isinstance(env.get(fn.value.id), SelfObj):
            so = env[fn.value.id]
            m = so.cls.lookup(fn.attr)
            if m is not None and depth < self.max_depth and not (m.is_property or m.is_cached):
                cargs = {"self": so}
                for i, a in enumerate(args):
                    if i < len(m.call_params):
                        cargs[m.call_params[i]] = a
                cargs.update(kw)
                sub = self.summarize(m, cargs, depth + 1)
                return sub.ret if sub.ret is not None else Const(None)
        # project functions: inline by substitution
        tg = self.p.resolve_call(e, f)
        if len(tg) == 1 and tg[0].name == "__init__" and tg[0].cls is not None:
            bind, complete = Project.bind(e, tg[0])
            if complete:
                params = tg[0].params[1:]
                cargs = {}
                for i, a in enumerate(args):
                    if i < len(params):
                        cargs[params[i]] = a
                cargs.update(kw)
                r = self.p.resolve_expr(e.func, f.module, f)
                c = r[1] if r and r[0] == "class" else tg[0].cls
                S.calls.append((tg[0].key, cargs, guards, e))
                return Ctor(c.key, c.name, cargs)
        if len(tg) == 1 and depth < self.max_depth and tg[0].name != "__init__" and _inlinable(tg[0]):
            callee = tg[0]
            bind, complete = Project.bind(e, callee)
            if complete:
                cargs = {}
                params = callee.call_params
                for i, a in enumerate(args):
                    if i < len(params):
                        cargs[params[i]] = a
                cargs.update(kw)
                self._fresh += 1
                tag = f"{callee.name}#{self._fresh}"
                sub = self.summarize(callee, cargs, depth + 1, prefix=tag + ".")
                S.calls.append((callee.key, cargs, guards, e))
                path = tuple(env.get("#path", ()))
                for st in sub.stores:
                    S.stores.append(Store(st.arr if not st.local else tag + "." + st.arr, st.idx, st.value, st.op, guards + path + st.guards, loops + st.loops, st.node, st.local, st.func, st.origin))
                for c, g, l in sub.compares:
                    S.compares.append((c, guards + path + g, loops + l))
                for nm_, v_, op_, g_, l_, n_ in sub.assigns:
                    # scalar updates of the callee (its counters) are effects of the caller's evaluation too: a kernel that delegates to another is judged on the same facts
                    S.assigns.append(((tag + "." + nm_) if nm_ in self._locals_of(f) else nm_, v_, op_, guards + path + g_, loops + l_, n_))
                for l_ in sub.loops:
                    if l_ not in S.loops:
                        S.loops.append(l_)
                for nm, g, nd in sub.raises:
                    S.raises.append((nm, guards + path + g, nd))
                S.sub = getattr(S, "sub", {})
                S.sub[tag] = sub
                r = sub.ret

                def rename(v):
                    if isinstance(v, Ref) and v.local:
                        return Ref(tag + "." + v.name, v.idx, True, v.shape, v.init, v.origin)
                    if isinstance(v, tuple):
                        return tuple(rename(x) for x in v)
                    return v
                carried = isinstance(r, Poly) and any(a[0] == "s" and a[1].endswith("~") for a in r.all_atoms())
                if isinstance(r, Ref) and getattr(r, "opaque_local", False):
                    return self.opaque_call(e, name, args, kw, env, S, f, guards, loops, depth)
                if isinstance(r, Top) or carried:
                    # the result depends on loop-carried state of the callee (a count, a running sum): keep it as an
                    # uninterpreted application of the callee to its arguments
                    sc = [self.scalar(cargs[k]) for k in callee.all_params if k in cargs]
                    if all(isinstance(x, Poly) for x in sc):
                        return Poly.fn(callee.name, *sc)
                    return self.opaque_call(e, name, args, kw, env, S, f, guards, loops, depth)
                return rename(r) if r is not None else Const(None)
        if tg:
            S.calls.append((tg[0].key, {}, guards, e))
        sc = [self.scalar(a) for a in args] + [self.scalar(v) for _, v in sorted(kw.items())]
        if sc and all(isinstance(x, Poly) for x in sc) and name:
            return Poly.fn(name, *sc)
        return self.opaque_call(e, name, args, kw, env, S, f, guards, loops, depth)

    def opaque_call(self, e, name, args, kw, env, S, f, guards, loops, depth):
        """an unknown call result: a symbolic value identified by the callee and its evaluated arguments"""
        if name is None:
            return TOP

        def r(v, node):
            if isinstance(v, Top):
                return "src:" + unparse(node)[:60]
            return repr(v)
        recv = ""
        if isinstance(e.func, ast.Attribute):
            b = self.ev(e.func.value, env, S, f, guards, loops, depth)
            recv = (r(b, e.func.value) + ".") if not (isinstance(b, Ref) and b.name in ("np", "numpy")) else "np."
        parts = [r(v, n) for v, n in zip(args, e.args)] + [f"{k.arg}={r(kw[k.arg], k.value)}" for k in e.keywords if k.arg in kw]
        return Ref(f"{recv}{name}({', '.join(parts)})")

    def to_int(self, p):
        if not isinstance(p, Poly):
            return TOP
        c = p.const_value()
        if c is not None:
            return Poly.const(int(c))
        if _int_valued(p):
            return p
        # int(q / d) and q // d share one canonical form
        d = 1
        for v in p.t.values():
            d = d * v.denominator // _gcd(d, v.denominator)
        if d > 1:
            return Poly.fn("fdiv", p * Poly.const(d), Poly.const(d))
        return Poly.fn("int", p)


_SEEN_DECOS: Set[str] = set()


def _inlinable(g) -> bool:
    """a callee is evaluated by substitution only when its decorators do not change what a call computes (a memoising or wrapping decorator makes it an opaque application)"""
    from .inline import TRANSPARENT_DECORATORS
    for d in g.decorators:
        if d not in TRANSPARENT_DECORATORS:
            _SEEN_DECOS.add(d)
            return False
    return True


INT_SYMS: Set[str] = set()   # symbols known to be integers: extents of arrays whose shape was given to summarize()


def _int_valued(p: Poly) -> bool:
    """integer coefficients, non-negative powers, and every atom an integer by construction (an array extent, a length, a floor division / int(...) form)"""
    for mono, coef in p.t.items():
        if coef.denominator != 1:
            return False
        for at, k in mono:
            if k < 0:
                return False
            if at[0] == "s":
                if not (at[1] in INT_SYMS or ".shape[" in at[1]):
                    return False
            elif at[0] == "f":
                if at[1] not in ("fdiv", "int", "shape", "len", "size", "call:len"):
                    return False
            else:
                return False
    return True


def norm_key(c: Cond):
    """orientation-insensitive key of a comparison (used to name a `where=` mask)"""
    if c.kind == "cmp":
        a, op, b = c.args
        if op in ("==", "!=") and repr(a) > repr(b):
            a, b = b, a
        return (repr(a), op, repr(b))
    return c.key()


def _gcd(a, b):
    while b:
        a, b = b, a % b
    return a
