"""E5 - EFFECT: mutation, aliasing and freshness summaries over the whole project.

Ownership tags (a value may carry several):
    ('P', name)     may alias the caller's argument `name`
    ('SA', attr)    may alias storage reachable from self.<attr>
    ('C', prop)     the value of a cached property `prop` (stored in the instance __dict__ and returned again on every later read)
    ('PL', slot)    a preloaded quantity (self.preloads.<slot> / preloads.<slot>)
    ('F',)          freshly allocated here
Per function, bottom-up to a fixpoint over the resolved call graph:
    mut[f]   tags written in place by f (directly or through callees), each with the first offending site
    ret[f]   tags the returned value may carry
    fields[C.__init__]   for each self.<attr> assigned during construction, the tags of the assigned value
"""
from __future__ import annotations

import ast
from typing import Dict, List, Optional, Set, Tuple, FrozenSet

from .model import Project, FuncInfo, ClassInfo, norm_text

F = ("F",)
VIEW_ATTRS = {"array", "_array", "T", "real", "imag", "values", "flat"}
ALIAS_NP = {"asarray", "asanyarray", "ravel", "reshape", "squeeze", "transpose", "atleast_1d", "atleast_2d", "swapaxes", "moveaxis", "broadcast_to", "expand_dims", "flipud", "fliplr", "flip", "rot90", "diagonal", "ascontiguousarray"}
ALIAS_METHODS = {"reshape", "ravel", "squeeze", "transpose", "view", "swapaxes"}
FRESH_METHODS = {"copy", "astype", "flatten", "tolist", "sum", "mean", "max", "min", "dot", "conj", "round", "clip", "cumsum", "nonzero", "argsort", "argmax", "argmin", "any", "all", "std", "var", "prod", "item", "get", "keys", "values", "items"}
INPLACE_METHODS = {"sort", "fill", "resize", "put", "itemset", "setflags", "append", "extend", "insert", "remove", "pop", "clear", "update", "reverse", "partition", "setdefault", "byteswap"}
INPLACE_NP = {"fill_diagonal", "put", "place", "putmask", "copyto", "put_along_axis", "add.at", "at"}


class Site:
    def __init__(self, f: FuncInfo, node: ast.AST, how: str, via: Optional[str] = None):
        self.f = f
        self.node = node
        self.how = how
        self.via = via

    def text(self):
        return norm_text(self.node)[:120]


class Effects:
    def __init__(self, p: Project):
        self.p = p
        self.funcs = [f for f in p.all_functions()]
        self.mut: Dict[str, Dict[tuple, Site]] = {f.key: {} for f in self.funcs}
        self.direct: Dict[str, Dict[tuple, Site]] = {f.key: {} for f in self.funcs}
        self.direct_all: Dict[str, List[Tuple[tuple, Site]]] = {f.key: [] for f in self.funcs}
        self.ret: Dict[str, Set[tuple]] = {f.key: set() for f in self.funcs}
        self.fields: Dict[str, Dict[str, Set[tuple]]] = {}
        self.cached_names: Set[str] = set()
        self.cached_by_class: Dict[str, Set[str]] = {}
        for c in p.all_classes():
            for n, m in c.methods.items():
                if m.is_cached:
                    self.cached_names.add(n)
        self.unresolved = 0
        self.calls_seen = 0
        self.callers: Dict[str, Set[str]] = {}
        self._solve()

    # ------------------------------------------------------------------ fixpoint
    def _solve(self):
        for it in range(8):
            changed = False
            self.unresolved = self.calls_seen = 0
            for f in self.funcs:
                m, d, r, fl, da = self._analyse(f)
                k = f.key
                if set(m) != set(self.mut[k]) or r != self.ret[k] or (fl is not None and fl != self.fields.get(k)):
                    changed = True
                self.mut[k], self.direct[k], self.ret[k] = m, d, r
                self.direct_all[k] = da
                if fl is not None:
                    self.fields[k] = fl
            self.rounds = it + 1
            if not changed:
                break

    # ------------------------------------------------------------------ helpers
    def is_cached_attr(self, cls: Optional[ClassInfo], attr: str) -> bool:
        if cls is not None:
            m = cls.lookup(attr)
            if m is not None:
                return m.is_cached
            for sc in cls.all_subclasses():
                mm = sc.methods.get(attr)
                if mm is not None and mm.is_cached:
                    return True
            return False
        return attr in self.cached_names

    def _analyse(self, f: FuncInfo):
        A = _FuncAnalysis(self, f)
        A.run()
        return A.mut, A.direct, A.ret, (A.fields if f.name == "__init__" and f.cls is not None else None), A.direct_all


class _FuncAnalysis:
    def __init__(self, E: Effects, f: FuncInfo):
        self.E = E
        self.p = E.p
        self.f = f
        self.env: Dict[str, Set[tuple]] = {}
        self.mut: Dict[tuple, Site] = {}
        self.direct: Dict[tuple, Site] = {}
        self.direct_all: List[Tuple[tuple, Site]] = []
        self._seen_sites: Set[Tuple[tuple, int]] = set()
        self.ret: Set[tuple] = set()
        self.fields: Dict[str, Set[tuple]] = {}
        self.self_name = f.params[0] if (f.cls is not None and not f.is_staticmethod and not f.is_classmethod and f.params) else None
        for a in f.all_params:
            if a == self.self_name:
                self.env[a] = {("SELF",)}
            elif a == "cls" and f.is_classmethod:
                self.env[a] = {F}
            else:
                self.env[a] = {("P", a)}
        if f.vararg:
            self.env[f.vararg] = {("P", f.vararg)}
        if f.kwarg:
            self.env[f.kwarg] = {F}  # the **kwargs dict is created for this call

    # ---- ownership of an expression
    def own(self, e: Optional[ast.expr]) -> Set[tuple]:
        if e is None:
            return {F}
        if isinstance(e, ast.Name):
            return set(self.env.get(e.id, {F}))
        if isinstance(e, ast.Constant):
            return {F}
        if isinstance(e, ast.Attribute):
            base = self.own(e.value)
            out: Set[tuple] = set()
            for t in base:
                if t[0] == "SELF":
                    cls = self.f.cls
                    m = cls.lookup(e.attr) if cls is not None else None
                    if e.attr == "preloads":
                        out.add(("SELFPL",))
                    elif self.E.is_cached_attr(cls, e.attr) and not (m is not None and not m.is_cached):
                        out.add(("C", e.attr))
                    elif m is not None and m.is_property:
                        for rt in self.E.ret.get(m.key, set()) or {F}:
                            out.add(rt)
                        # include overrides in subclasses
                        for sc in cls.all_subclasses():
                            mm = sc.methods.get(e.attr)
                            if mm is not None and (mm.is_property or mm.is_cached):
                                if mm.is_cached:
                                    out.add(("C", e.attr))
                                else:
                                    out |= (self.E.ret.get(mm.key, set()) or {F})
                    elif m is not None:
                        out.add(F)  # bound method object
                    else:
                        out.add(("SA", e.attr))
                elif t[0] == "SELFPL" or (t[0] == "P" and t[1] == "preloads"):
                    out.add(("PL", e.attr))
                elif t == F:
                    out.add(F)
                else:
                    if e.attr in VIEW_ATTRS:
                        out.add(t)
                    elif e.attr == "preloads":
                        out.add(("SELFPL",))
                    else:
                        ty = self.p.type_of(e.value, self.f)
                        m = ty.lookup(e.attr) if ty is not None else None
                        if ty is not None and m is None:
                            impls = [sc.methods[e.attr] for sc in ty.all_subclasses() if e.attr in sc.methods and '.mock' not in sc.module.name]  # test doubles are not production implementations
                            if impls and all(i.is_property and not i.is_cached for i in impls):
                                rts = set()
                                for i in impls:
                                    rts |= (self.E.ret.get(i.key, set()) or {F})
                                for rt in rts:
                                    if rt == F:
                                        out.add(F)
                                    elif rt[0] in ("C", "PL"):
                                        out.add(rt)
                                    else:
                                        out.add(t)
                                continue
                            if impls and any(i.is_cached for i in impls):
                                out.add(("C", e.attr))
                                continue
                        if m is not None and m.is_cached:
                            out.add(("C", e.attr))
                        elif m is not None and m.is_property:
                            rts = self.E.ret.get(m.key, set()) or {F}
                            for rt in rts:
                                if rt[0] in ("SA", "SELF"):
                                    out.add(t)  # storage of that object: owned like the object itself
                                elif rt[0] in ("C", "PL"):
                                    out.add(rt)
                                else:
                                    out.add(F if rt == F else t)
                        elif ty is None and e.attr in self.E.cached_names:
                            out.add(("C", e.attr))
                        elif ty is None and e.attr in ("native", "slim", "in_array", "in_counts", "binned"):
                            out.add(t)
                        else:
                            out.add(t)
            return out or {F}
        if isinstance(e, ast.Subscript):
            # indexing with an index ARRAY (boolean mask / integer list) copies; indexing with slices and integers gives a view
            els = e.slice.elts if isinstance(e.slice, ast.Tuple) else [e.slice]
            if any(isinstance(i, ast.Name) and self._array_kind(i.id) for i in els) or any(isinstance(i, (ast.Compare, ast.List)) or (isinstance(i, ast.UnaryOp) and isinstance(i.op, ast.Invert)) for i in els):
                return {F}
            sl = e.slice
            if isinstance(sl, ast.Constant) and isinstance(sl.value, int) and isinstance(e.value, (ast.Name, ast.Attribute)) and not isinstance(e.value, ast.Subscript):
                # element [k] of a tuple-like (extent[0], shape[1], pixel_scales[0]): a scalar, unless it is a row of a table of arrays (conservative: keep alias for names that are stored into later)
                b = self.own(e.value)
                return b
            return self.own(e.value)
        if isinstance(e, (ast.BinOp, ast.UnaryOp, ast.Compare, ast.JoinedStr, ast.ListComp, ast.GeneratorExp, ast.DictComp, ast.SetComp, ast.Lambda)):
            return {F}
        if isinstance(e, ast.BoolOp):
            out = set()
            for v in e.values:
                out |= self.own(v)
            return out
        if isinstance(e, ast.IfExp):
            return self.own(e.body) | self.own(e.orelse)
        if isinstance(e, (ast.Tuple, ast.List)):
            out = set()
            for v in e.elts:
                out |= self.own(v)
            return out or {F}
        if isinstance(e, ast.Dict):
            out = set()
            for v in e.values:
                out |= self.own(v)
            return out or {F}
        if isinstance(e, ast.Starred):
            return self.own(e.value)
        if isinstance(e, ast.Call):
            return self.own_call(e)
        return {F}

    _ARRAY_MAKERS = {"append", "array", "arange", "zeros", "ones", "where", "delete", "nonzero", "argsort", "unique", "full", "empty", "concatenate", "asarray", "flatnonzero", "invert", "logical_not", "logical_and", "logical_or"}

    def _array_kind(self, name: str) -> bool:
        """the local `name` holds an index array (so X[name] is a copy): every binding of it in this function that can be classified is an array-making call, a comparison, or a fancy-indexed array;
        a binding from int() / argmax / len / range makes it an integer"""
        cache = self.__dict__.setdefault("_kinds", {})
        if name in cache:
            return cache[name]
        cache[name] = False   # recursion guard
        arr, scal = 0, 0
        for n in self.f.body_nodes():
            vals = []
            if isinstance(n, ast.Assign):
                for t in n.targets:
                    if isinstance(t, ast.Name) and t.id == name:
                        vals.append(n.value)
            elif isinstance(n, ast.For) and isinstance(n.target, ast.Name) and n.target.id == name:
                scal += 1
            for v in vals:
                if isinstance(v, ast.Call):
                    fn = v.func
                    nm = fn.attr if isinstance(fn, ast.Attribute) else (fn.id if isinstance(fn, ast.Name) else "")
                    if nm in self._ARRAY_MAKERS or nm in ("astype", "copy", "flatten", "ravel"):
                        arr += 1
                    elif nm in ("int", "argmax", "argmin", "len", "float", "sum", "max", "min"):
                        scal += 1
                elif isinstance(v, ast.Compare) or (isinstance(v, ast.UnaryOp) and isinstance(v.op, ast.Invert)):
                    arr += 1
                elif isinstance(v, ast.Subscript):
                    els = v.slice.elts if isinstance(v.slice, ast.Tuple) else [v.slice]
                    if any(isinstance(i, ast.Name) and self._array_kind(i.id) for i in els) or isinstance(v.value, ast.Call):
                        arr += 1
                elif isinstance(v, ast.Constant):
                    scal += 1
        cache[name] = arr > 0 and scal == 0
        return cache[name]

    def own_call(self, c: ast.Call) -> Set[tuple]:
        fn = c.func
        name = fn.attr if isinstance(fn, ast.Attribute) else (fn.id if isinstance(fn, ast.Name) else None)
        is_np = isinstance(fn, ast.Attribute) and isinstance(fn.value, ast.Name) and fn.value.id in ("np", "numpy", "npw") and fn.value.id not in self.env
        if is_np:
            if name == "array":
                cp = [k for k in c.keywords if k.arg == "copy"]
                if cp and isinstance(cp[0].value, ast.Constant) and cp[0].value.value is False:
                    return self.own(c.args[0]) if c.args else {F}
                return {F}
            if name in ALIAS_NP and c.args:
                return self.own(c.args[0])
            out_kw = [k for k in c.keywords if k.arg == "out"]
            if out_kw:
                return self.own(out_kw[0].value)
            return {F}
        if isinstance(fn, ast.Attribute) and isinstance(fn.value, ast.Name) and fn.value.id == "copy" and fn.value.id not in self.env and name in ("copy", "deepcopy"):
            return {F}
        if isinstance(fn, ast.Name) and fn.id in ("list", "tuple", "dict", "set", "sorted", "int", "float", "len", "range", "zip", "enumerate", "str", "bool", "sum", "abs", "max", "min", "isinstance", "hasattr", "type", "print", "iter", "reversed", "round") and fn.id not in self.env:
            return {F}
        if isinstance(fn, ast.Name) and fn.id == "getattr" and len(c.args) >= 2 and isinstance(c.args[1], ast.Constant):
            return self.own(ast.Attribute(value=c.args[0], attr=c.args[1].value, ctx=ast.Load()))
        # methods of arrays / containers
        if isinstance(fn, ast.Attribute) and name in FRESH_METHODS and not self.p.resolve_call(c, self.f):
            if name == "astype":
                cp = [k for k in c.keywords if k.arg == "copy"]
                if cp and isinstance(cp[0].value, ast.Constant) and cp[0].value.value is False:
                    return self.own(fn.value)
            return {F}
        if isinstance(fn, ast.Attribute) and name in ALIAS_METHODS and not self.p.resolve_call(c, self.f):
            return self.own(fn.value)
        self.E.calls_seen += 1
        tg = self.p.resolve_call(c, self.f)
        if not tg:
            self.E.unresolved += 1
            return {F}
        out: Set[tuple] = set()
        for t in tg:
            if t.name == "__init__":
                out.add(F)  # a new object (what its fields alias is tracked through `fields`)
                continue
            rts = self.E.ret.get(t.key, set())
            if not rts:
                out.add(F)
                continue
            bind, _ = Project.bind(c, t)
            recv = self.own(fn.value) if isinstance(fn, ast.Attribute) else set()
            for rt in rts:
                if rt == F:
                    out.add(F)
                elif rt[0] == "P":
                    if rt[1] in bind:
                        out |= self.own(bind[rt[1]])
                    elif rt[1] == t.vararg:
                        for a in c.args[len(t.call_params):]:
                            out |= self.own(a)
                    else:
                        out.add(F)
                elif rt[0] in ("SA", "SELF", "C", "PL"):
                    if any(x[0] == "SELF" for x in recv):
                        out.add(rt if rt[0] != "SELF" else ("SELF",))
                    else:
                        if rt[0] in ("C", "PL"):
                            out.add(rt)
                        out |= {x for x in recv if x != F} or {F}
        return out or {F}

    # ---- writes
    def write(self, tags: Set[tuple], node: ast.AST, how: str, direct: Optional[bool] = True, via: Optional[str] = None):
        """direct=None (a write that happens inside a callee): the site is charged to this function exactly when the storage written is not one of its own parameters
        (a parameter is passed further up: the obligation moves to whoever called this function)"""
        for t in tags:
            if t == F or t[0] in ("SELF", "SELFPL"):
                continue
            if t not in self.mut:
                self.mut[t] = Site(self.f, node, how, via)
            if direct is None:
                here = t[0] != "P"
            else:
                here = direct
            direct_t = here
            if direct_t and t not in self.direct:
                self.direct[t] = Site(self.f, node, how, via)
            if direct_t and (t, id(node)) not in self._seen_sites:
                self._seen_sites.add((t, id(node)))
                self.direct_all.append((t, Site(self.f, node, how, via)))

    def run(self):
        self.block(self.f.node.body)

    def block(self, body):
        for st in body:
            self.stmt(st)

    def assign_name(self, name: str, tags: Set[tuple]):
        self.env[name] = set(tags)

    def bind_target(self, t: ast.expr, tags: Set[tuple], value: Optional[ast.expr], node):
        if isinstance(t, ast.Name):
            self.assign_name(t.id, tags)
        elif isinstance(t, (ast.Tuple, ast.List)):
            if isinstance(value, (ast.Tuple, ast.List)) and len(value.elts) == len(t.elts):
                for a, b in zip(t.elts, value.elts):
                    self.bind_target(a, self.own(b), b, node)
            else:
                for a in t.elts:
                    self.bind_target(a, tags, None, node)
        elif isinstance(t, ast.Subscript):
            self.write(self.own(t.value), node, "subscript store")
        elif isinstance(t, ast.Attribute):
            base = self.own(t.value)
            if any(x[0] == "SELF" for x in base):
                if self.f.name == "__init__":
                    self.fields[t.attr] = self.fields.get(t.attr, set()) | tags
                # assigning a field of self is not a write into somebody else's storage
            else:
                self.write(base, node, f"attribute store .{t.attr}")
        elif isinstance(t, ast.Starred):
            self.bind_target(t.value, tags, None, node)

    def stmt(self, st):
        if isinstance(st, ast.Assign):
            self.visit_calls(st.value)
            tags = self.own(st.value)
            for t in st.targets:
                self.bind_target(t, tags, st.value, st)
        elif isinstance(st, ast.AnnAssign):
            if st.value is not None:
                self.visit_calls(st.value)
                self.bind_target(st.target, self.own(st.value), st.value, st)
        elif isinstance(st, ast.AugAssign):
            self.visit_calls(st.value)
            t = st.target
            if isinstance(t, ast.Name):
                tags = self.own(t)
                # `x op= v` on an array updates it in place; on a scalar it rebinds.  A name that only ever held element reads of tuples is a scalar.
                if not self._is_scalar_name(t.id):
                    self.write(tags, st, "augmented assignment (in-place for arrays)")
            elif isinstance(t, ast.Subscript):
                self.write(self.own(t.value), st, "augmented subscript store")
            elif isinstance(t, ast.Attribute):
                base = self.own(t.value)
                if not any(x[0] == "SELF" for x in base):
                    self.write(base, st, f"augmented attribute store .{t.attr}")
                else:
                    self.write({("SA", t.attr)} if not self.E.is_cached_attr(self.f.cls, t.attr) else {("C", t.attr)}, st, f"in-place update of self.{t.attr}")
        elif isinstance(st, (ast.For, ast.AsyncFor)):
            self.visit_calls(st.iter)
            self.bind_target(st.target, self.own(st.iter), None, st)
            e0 = {k: set(v) for k, v in self.env.items()}
            self.block(st.body)
            self.block(st.body)  # second pass: loop-carried aliases
            self.block(st.orelse)
            self.merge(e0)
        elif isinstance(st, ast.While):
            self.visit_calls(st.test)
            e0 = {k: set(v) for k, v in self.env.items()}
            self.block(st.body)
            self.block(st.body)
            self.block(st.orelse)
            self.merge(e0)
        elif isinstance(st, ast.If):
            self.visit_calls(st.test)
            e0 = {k: set(v) for k, v in self.env.items()}
            # `if <..>.preloads.S is (not) None`: in the branch where the slot is None nothing can be an alias of the preloaded array S - in particular not the value a
            # helper returned as "the preload if there is one, otherwise freshly computed" (so `x = helper; if S is not None: x = copy(x)` leaves no alias behind)
            slot = None
            t = st.test
            if isinstance(t, ast.Compare) and len(t.ops) == 1 and isinstance(t.ops[0], (ast.Is, ast.IsNot)) and isinstance(t.comparators[0], ast.Constant) and t.comparators[0].value is None \
                    and isinstance(t.left, ast.Attribute) and isinstance(t.left.value, ast.Attribute) and t.left.value.attr == "preloads":
                slot = (t.left.attr, isinstance(t.ops[0], ast.Is))   # (slot, the BODY is the none-branch)

            def without_slot(env):
                return {k: ({x for x in v if not (x[0] == "PL" and len(x) > 1 and x[1] == slot[0])} or {F}) for k, v in env.items()}
            if slot and slot[1]:
                self.env = without_slot(self.env)
            self.block(st.body)
            e1 = self.env
            self.env = {k: set(v) for k, v in e0.items()}
            if slot and not slot[1]:
                self.env = without_slot(self.env)
            self.block(st.orelse)
            self.merge(e1)
        elif isinstance(st, ast.Return):
            if st.value is not None:
                self.visit_calls(st.value)
                for t in self.own(st.value):
                    if t[0] in ("P", "SA", "C", "PL", "SELF") or t == F:
                        self.ret.add(t)
        elif isinstance(st, ast.Expr):
            self.visit_calls(st.value)
        elif isinstance(st, ast.Try):
            self.block(st.body)
            for h in st.handlers:
                self.block(h.body)
            self.block(st.orelse)
            self.block(st.finalbody)
        elif isinstance(st, (ast.With, ast.AsyncWith)):
            for it in st.items:
                self.visit_calls(it.context_expr)
                if it.optional_vars is not None:
                    self.bind_target(it.optional_vars, self.own(it.context_expr), None, st)
            self.block(st.body)
        elif isinstance(st, ast.Delete):
            pass
        elif isinstance(st, (ast.Raise, ast.Assert)):
            for sub in ast.iter_child_nodes(st):
                if isinstance(sub, ast.expr):
                    self.visit_calls(sub)

    def merge(self, other: Dict[str, Set[tuple]]):
        for k, v in other.items():
            self.env[k] = self.env.get(k, set()) | v

    def _is_scalar_name(self, name: str) -> bool:
        """every assignment to `name` in this function is an element read with constant indices, a literal or arithmetic"""
        found = False
        for n in self.f.body_nodes():
            if isinstance(n, ast.Assign):
                for t in n.targets:
                    for el in (t.elts if isinstance(t, (ast.Tuple, ast.List)) else [t]):
                        if isinstance(el, ast.Name) and el.id == name:
                            found = True
                            v = n.value
                            if isinstance(t, (ast.Tuple, ast.List)):
                                continue
                            if isinstance(v, ast.Constant) or isinstance(v, (ast.BinOp, ast.UnaryOp, ast.Compare)):
                                continue
                            if isinstance(v, ast.Subscript) and not any(isinstance(x, ast.Slice) for x in (v.slice.elts if isinstance(v.slice, ast.Tuple) else [v.slice])) and not isinstance(v.slice, ast.Name):
                                continue
                            if isinstance(v, ast.Call) and isinstance(v.func, ast.Name) and v.func.id in ("int", "float", "len", "sum", "abs", "max", "min"):
                                continue
                            return False
            elif isinstance(n, ast.For) and isinstance(n.target, ast.Name) and n.target.id == name:
                return True
        if name in self.f.all_params:
            ann = self.f.annotations.get(name)
            return ann is not None and norm_text(ann) in ("int", "float", "bool")
        return found

    # ---- calls with side effects
    def visit_calls(self, e: ast.expr):
        for c in [n for n in ast.walk(e) if isinstance(n, ast.Call)]:
            self.call_effects(c)

    def call_effects(self, c: ast.Call):
        fn = c.func
        name = fn.attr if isinstance(fn, ast.Attribute) else (fn.id if isinstance(fn, ast.Name) else None)
        for k in c.keywords:
            if k.arg == "out" and isinstance(fn, ast.Attribute):
                self.write(self.own(k.value), c, "ufunc out=")
            if k.arg in ("overwrite_a", "overwrite_b") and isinstance(k.value, ast.Constant) and k.value.value is True and len(c.args) > (0 if k.arg == "overwrite_a" else 1):
                self.write(self.own(c.args[0 if k.arg == "overwrite_a" else 1]), c, f"{k.arg}=True")
        if isinstance(fn, ast.Attribute) and isinstance(fn.value, ast.Name) and fn.value.id in ("np", "numpy") and fn.value.id not in self.env and name in INPLACE_NP and c.args:
            self.write(self.own(c.args[0]), c, f"np.{name} (in-place numpy function)")
        tg = self.p.resolve_call(c, self.f)
        if not tg:
            if isinstance(fn, ast.Attribute) and name == "pop" and isinstance(fn.value, ast.Attribute) and fn.value.attr == "__dict__":
                return   # obj.__dict__.pop(key, ..) removes a field of obj (the statement form is `del obj.__dict__[key]`): a rebind, judged by C11.rebind, not a write into array storage
            if isinstance(fn, ast.Attribute) and name in INPLACE_METHODS:
                base = self.own(fn.value)
                self.write({t for t in base if t[0] in ("P", "C", "PL", "SA")}, c, f"in-place method .{name}()")
            if isinstance(fn, ast.Attribute) and isinstance(fn.value, ast.Attribute) and norm_text(fn.value) in ("np.random",) and name == "shuffle" and c.args:
                self.write(self.own(c.args[0]), c, "np.random.shuffle")
            return
        for t in tg:
            self.E.callers.setdefault(t.key, set()).add(self.f.key)
        for t in tg:
            if t.name == "__init__" and self.f.name == "__init__" and isinstance(fn, ast.Attribute) and isinstance(fn.value, ast.Call) and isinstance(fn.value.func, ast.Name) and fn.value.func.id == "super":
                bind0, _ = Project.bind(c, t)
                for attr, tags in self.E.fields.get(t.key, {}).items():
                    mapped = set()
                    for tg_ in tags:
                        if tg_[0] == "P":
                            if tg_[1] in bind0:
                                mapped |= self.own(bind0[tg_[1]])
                            else:
                                mapped.add(F)
                        else:
                            mapped.add(tg_)
                    self.fields[attr] = self.fields.get(attr, set()) | mapped
            m = self.E.mut.get(t.key, {})
            if not m:
                continue
            bind, _ = Project.bind(c, t)
            recv = self.own(fn.value) if isinstance(fn, ast.Attribute) else set()
            if t.name == "__init__" and isinstance(fn, ast.Attribute) and isinstance(fn.value, ast.Call) and isinstance(fn.value.func, ast.Name) and fn.value.func.id == "super":
                recv = {("SELF",)}
            for tag, site in m.items():
                how = f"call of {t.qualname} which writes in place ({site.how} at {site.f.module.relpath}:{getattr(site.node, 'lineno', 0)})"
                direct = None
                if tag[0] == "P":
                    arg = bind.get(tag[1])
                    if arg is None and tag[1] == t.vararg:
                        for a in c.args[len(t.call_params):]:
                            self.write(self.own(a), c, how, direct=direct, via=t.key)
                        continue
                    if arg is not None:
                        self.write(self.own(arg), c, how, direct=direct, via=t.key)
                elif tag[0] in ("SA", "C", "PL"):
                    if t.name == "__init__" and not any(x[0] == "SELF" for x in recv):
                        continue  # the new object's own fields
                    if any(x[0] == "SELF" for x in recv) or (not isinstance(fn, ast.Attribute) and self.f.cls is not None and t.cls is not None and t.cls is self.f.cls):
                        self.write({tag}, c, how, direct=direct, via=t.key)
                    else:
                        if tag[0] in ("C", "PL"):
                            self.write({tag}, c, how, direct=direct, via=t.key)
                        self.write({x for x in recv if x != F}, c, how, direct=direct, via=t.key)


def effective_fields(E: "Effects", cls: ClassInfo) -> Dict[str, Set[tuple]]:
    """what the fields of an instance of `cls` may alias after construction (first __init__ in the MRO, composed through super().__init__)"""
    init = cls.lookup("__init__")
    return E.fields.get(init.key, {}) if init is not None else {}


# functions whose purpose is to update an argument in place; a finding is raised at any CALLER that hands them something it does not own
ALLOWED_MUTATORS: Dict[str, str] = {}


def set_allowed(table: Dict[str, str]):
    ALLOWED_MUTATORS.clear()
    ALLOWED_MUTATORS.update(table)
