"""C01 - slim / native forms are exact, order-preserving inverses under any mask (DESIGN.md section 4, C01)."""
from __future__ import annotations

import ast

from ..keval import KEval, Ref, Cond, Const, Top
from ..poly import Poly, ZERO, ONE
from ..forms import value_poly, real_guards, short, acc_name_of, is_full_range, scalar_resets
from ..trav import closed_forms, check_slim_counter, counter_increments, counter_init_zero
from .. import wire, paths
from ..model import norm_text, AnchorMissing
from ..controls import Control
from ..mutate import in_func

S_ = Poly.sym
E_ = Poly.elem
A2 = "autoarray.structures.arrays.array_2d_util"
A1 = "autoarray.structures.arrays.array_1d_util"
M2 = "autoarray.mask.mask_2d_util"
M1 = "autoarray.mask.mask_1d_util"
G2 = "autoarray.structures.grids.grid_2d_util"


def need(f, *names):
    for n in names:
        if n not in f.all_params:
            raise AnchorMissing(f"{f.key}: parameter {n}")


def gather(ctx, p, K, key, mask, payload, dims=2, out_rank=1):
    """payload(a, b) -> expected stored value(s) at out[k] (Poly, or tuple for a row store)"""
    rule = "C01.gather"
    f = p.func(key)
    need(f, mask)
    S = K.summarize(f)
    out = S.returned_array_names()
    if len(out) != 1:
        ctx.ob(rule, key, None, message=f"expected one returned array, got {out}")
        return
    sts = S.stores_to(out[0])
    if not sts:
        ctx.ob(rule, key, None, message="no store into the returned array")
        return
    cnt = acc_name_of(sts[0].idx[0]) if sts[0].idx else None
    if cnt is None:
        ctx.ob(rule, key, False, where=f, node=sts[0].node, construct=repr(sts[0])[:140], message="the slim output is not indexed by a running counter")
        return
    if not check_slim_counter(ctx, "C01.order", S, cnt, [mask], dims=dims, what="slim"):
        return
    lo = sts[0].loops
    a = S_(lo[0].var)
    b = S_(lo[1].var) if dims == 2 else None
    want = payload(a, b)
    got = {}
    for s in sts:
        got[s.idx[1:]] = s.value if isinstance(s.value, tuple) else value_poly(s.value)
    ok = True
    if isinstance(want, dict):
        ok = set(got) == set(want) and all(got[k] == want[k] for k in want)
    else:
        ok = len(got) == 1 and list(got.values())[0] == want
    ctx.ob(rule, key + ":payload", ok, where=f, node=sts[0].node, construct="; ".join(f"{out[0]}[k{', ' + ', '.join(map(repr, k)) if k else ''}] = {short(v)}" for k, v in got.items()),
           message=f"entry k of the slim output must hold the value of the k-th unmasked pixel at the loop position; expected {want}")
    # size = number of unmasked pixels of the same mask
    ref = S.env.get(out[0])
    shp = getattr(ref, "shape", None)
    tot = "total_pixels_2d_from" if dims == 2 else "total_pixels_1d_from"
    good = shp is not None and len(shp) >= 1 and isinstance(shp[0], Poly) and shp[0] == Poly.fn(tot, S_(mask))
    ctx.ob(rule, key + ":size", good, where=f, node=f.node, construct=f"shape {shp}", message=f"the slim output must have {tot}(mask) entries for the same mask")


def counting(ctx, p, K, key, mask, dims):
    f = p.func(key)
    need(f, mask)
    S = K.summarize(f)
    cnt = None
    for v, _, _ in S.returns:
        if isinstance(v, Poly):
            cnt = acc_name_of(v)
    if cnt is None:
        ctx.ob("C01.order", key, None, message="returned value is not a running counter")
        return
    check_slim_counter(ctx, "C01.order", S, cnt, [mask], dims=dims, what="unmasked-pixel")


def scatter(ctx, p, K, key, src, idxarr, shape_param, dims=2, init_ok=("zeros",)):
    rule = "C01.scatter"
    f = p.func(key)
    need(f, idxarr, shape_param, *([src] if src else []))
    S = K.summarize(f)
    out = S.returned_array_names()
    if len(out) != 1:
        ctx.ob(rule, key, None, message=f"expected one returned array, got {out}")
        return
    sts = S.stores_to(out[0])
    ok = len(sts) == 1 and sts[0].op == "=" and len(sts[0].loops) == 1 and not real_guards(sts[0].guards)
    if not ok:
        ctx.ob(rule, key, False, where=f, node=sts[0].node if sts else f.node, construct=f"{len(sts)} stores", message="the native output must be written by one unguarded store inside one loop over the slim index")
        return
    st = sts[0]
    l = st.loops[0]
    k = S_(l.var)
    full = is_full_range(l, [S_(f"{idxarr}.shape[0]")])
    ctx.ob(rule, key + ":range", full, where=f, node=st.node, construct=repr(l), message="the scatter must run over every slim index 0 .. len(native_index_for_slim_index)")
    want_idx = (E_(idxarr, k, ZERO), E_(idxarr, k, ONE)) if dims == 2 else (E_(idxarr, k),)
    ctx.ob(rule, key + ":target", st.idx == want_idx, where=f, node=st.node, construct=f"{out[0]}[{', '.join(map(repr, st.idx))}]",
           message=f"slim entry k must be written at native position native_index_for_slim_index[k] (row, column in that order); expected {[repr(x) for x in want_idx]}")
    if src:
        ctx.ob(rule, key + ":value", value_poly(st.value) == E_(src, k), where=f, node=st.node, construct=short(st.value), message="the value written must be slim entry k")
    ref = S.env.get(out[0])
    init = getattr(ref, "init", None)
    shp = getattr(ref, "shape", None)
    z = init is not None and (init[0] in init_ok or (init[0] == "expr" and isinstance(init[1], Poly) and init[1] == ZERO and "zeros" in init_ok))
    ctx.ob(rule, key + ":zeros", z, where=f, node=f.node, construct=f"init {init}", message="the native output must start as all zeros (masked positions stay zero)" if "zeros" in init_ok else "unexpected initial contents")
    good = shp is not None and ((dims == 1 and len(shp) >= 1 and shp[0] in (S_(shape_param), E_(shape_param, ZERO))) or (dims == 2 and len(shp) >= 2 and shp[0] == E_(shape_param, ZERO) and shp[1] == E_(shape_param, ONE)))
    ctx.ob(rule, key + ":shape", good, where=f, node=f.node, construct=f"shape {shp}", message="the native output must have the requested native shape")


def compose(ctx, p, key, idx_key, via_key, mask_kw, shape_expect):
    """X_native_from(mask) scatters through native_index_for_slim_index_from(the same mask) into the mask's shape."""
    rule = "C01.compose"
    f = p.func(key)
    ci = wire.calls_to(p, f, idx_key)
    cv = wire.calls_to(p, f, via_key)
    ok = len(ci) == 1 and len(cv) == 1
    det = ""
    if ok:
        bi = {k: norm_text(wire.strip_np_array(v)) for k, v in wire.kw(ci[0], p.func(idx_key)).items()}
        bv = wire.kw(cv[0], p.func(via_key))
        det = f"index list from {bi}; scatter {({k: norm_text(v) for k, v in bv.items()})}"
        ok = list(bi.values()) == [mask_kw]
        # the index list handed to the scatter is that call (possibly .astype('int')) via a local
        idx_arg = [v for k, v in bv.items() if k.startswith("native_index_for_slim_index")]
        ok = ok and len(idx_arg) == 1
        if ok:
            e = idx_arg[0]
            src = None
            if isinstance(e, ast.Name):
                for n in f.body_nodes():
                    if isinstance(n, ast.Assign) and isinstance(n.targets[0], ast.Name) and n.targets[0].id == e.id:
                        src = n.value
            else:
                src = e
            while isinstance(src, ast.Call) and isinstance(src.func, ast.Attribute) and src.func.attr == "astype":
                src = src.func.value
            ok = src is ci[0]
        shp = [v for k, v in bv.items() if k.startswith("shape")]
        ok = ok and len(shp) == 1
        if ok:
            e = shp[0]
            if isinstance(e, ast.Name):
                nm = e.id
                for n in f.body_nodes():
                    if isinstance(n, ast.Assign) and isinstance(n.targets[0], ast.Name) and n.targets[0].id == nm:
                        e = n.value
            ok = norm_text(e) in shape_expect
    ctx.ob(rule, key, ok, where=f, node=cv[0] if cv else f.node, construct=det,
           message="slim -> native must scatter through the index list of the SAME mask into an array of that mask's shape")


def flag_lists(ctx, p, K):
    """mask_slim_indexes_from: one nest parameterised by the flag, recording the row-major flattened index of each matching pixel."""
    rule = "C01.partition"
    key = f"{M2}:mask_slim_indexes_from"
    f = p.func(key)
    need(f, "mask_2d", "return_masked_indexes")
    S = K.summarize(f, {"return_masked_indexes": Ref("return_masked_indexes")})
    out = S.returned_array_names()
    if len(out) != 1:
        ctx.ob(rule, key, None, message=f"expected one returned array, got {out}")
        return
    sts = S.stores_to(out[0])
    if len(sts) != 1 or len(sts[0].loops) != 2:
        ctx.ob(rule, key, False, where=f, node=f.node, construct=f"{len(sts)} stores", message="expected one store inside the (y, x) nest")
        return
    st = sts[0]
    y, x = S_(st.loops[0].var), S_(st.loops[1].var)
    flag = S_("return_masked_indexes")

    def flag_guard(c, a, b):
        return c.kind == "cmp" and c.args[1] == "==" and {c.args[0], c.args[2]} == {E_("mask_2d", a, b), flag}
    cnt = acc_name_of(st.idx[0])
    if cnt is None:
        ctx.ob(rule, key, False, where=f, node=st.node, construct=repr(st)[:120], message="list is not filled through a running counter")
        return
    check_slim_counter(ctx, "C01.order", S, cnt, ["mask_2d"], guard_ok=flag_guard, what="list")
    # the value recorded: the row-major flattened index of (y, x)
    v = value_poly(st.value)
    if isinstance(v, Poly):
        v = closed_forms(S, f, v, st.loops)   # (a per-row offset advanced by the row length is y * W)
    flat_formula = y * S_("mask_2d.shape[1]") + x
    ok = v == flat_formula
    det = short(v)
    if not ok:
        rc = acc_name_of(v)
        if rc is not None and v == S_(rc + "~"):
            incs = counter_increments(S, rc)
            incs = [i for i in incs if tuple(id(l) for l in i[3]) == tuple(id(l) for l in st.loops)]
            ok = len(incs) == 1 and incs[0][0] == ONE and incs[0][1] == "+=" and not real_guards(incs[0][2]) and counter_init_zero(f, rc, st.loops[0].node.lineno) \
                and st.loops[0].lo == ZERO and st.loops[1].lo == ZERO and st.loops[0].hi == S_("mask_2d.shape[0]") and st.loops[1].hi == S_("mask_2d.shape[1]")
            det = f"running counter {rc}: {[(op, repr(vv), [repr(c) for c in real_guards(g)]) for vv, op, g, l, n in incs]}"
    ctx.ob(rule, key + ":flat-index", ok, where=f, node=st.node, construct=det,
           message="the recorded index must be the row-major flattened index y*W + x of the pixel (a counter advanced for every pixel, or that formula with W = shape[1])")
    # size: count of matching pixels by the same test
    shp = getattr(S.env.get(out[0]), "shape", None)
    tc = acc_name_of(shp[0]) if shp and isinstance(shp[0], Poly) else None
    good = False
    if tc:
        incs = counter_increments(S, tc)
        good = len(incs) == 1 and incs[0][0] == ONE and len(incs[0][3]) == 2 and len(real_guards(incs[0][2])) == 1 and \
            flag_guard(real_guards(incs[0][2])[0], S_(incs[0][3][0].var), S_(incs[0][3][1].var)) and is_full_range(incs[0][3][0], [S_("mask_2d.shape[0]")]) and is_full_range(incs[0][3][1], [S_("mask_2d.shape[1]")])
    if not good and shp and isinstance(shp[0], Poly):
        # or by the counting routine itself (C01.count decides that total_pixels_2d_from counts the False entries of the whole mask it is given), handed the mask that
        # is False exactly where the pixel matches the flag: `mask_2d != flag`
        good = repr(shp[0]) in ("total_pixels_2d_from(bool((mask_2d != return_masked_indexes)))", "total_pixels_2d_from(bool((return_masked_indexes != mask_2d)))",
                                "total_pixels_2d_from((mask_2d != return_masked_indexes))", "total_pixels_2d_from((return_masked_indexes != mask_2d))")
    ctx.ob(rule, key + ":size", good, where=f, node=f.node, construct=f"size counter {tc}; shape {shp[0]!r}"[:200] if shp else f"size counter {tc}", message="the list must be sized by counting the pixels that satisfy the same flag test over the whole mask")
    # masked / unmasked lists are this one routine with the two flag values
    c = p.cls("autoarray.mask.derive.indexes_2d:DeriveIndexes2D")
    flags = {}
    for name in ("unmasked_slim", "masked_slim"):
        m = c.methods.get(name)
        if m is None:
            raise AnchorMissing(f"DeriveIndexes2D.{name}")
        cs = wire.calls_to(p, m, key)
        if len(cs) == 1:
            b = wire.kw(cs[0], f)
            fl = b.get("return_masked_indexes")
            flags[name] = (fl.value if isinstance(fl, ast.Constant) else (True if fl is None else norm_text(fl)), norm_text(wire.strip_np_array(b.get("mask_2d"))))
    ctx.ob(rule, c.key + ":flags", flags.get("unmasked_slim") == (False, "self.mask") and flags.get("masked_slim") == (True, "self.mask"), where=c, node=c.node, construct=str(flags),
           message="unmasked_slim / masked_slim must be the same routine on self.mask with the flag False / True (so that the two lists partition the pixels)")


def _rebind_masking(f, work: str, mask: str):
    """statements  work = work * np.invert(mask)  (either operand order)"""
    out = []
    inv = (f"np.invert({mask})", f"numpy.invert({mask})", f"~{mask}")
    for n in f.body_nodes():
        if isinstance(n, ast.Assign) and len(n.targets) == 1 and isinstance(n.targets[0], ast.Name) and n.targets[0].id == work and isinstance(n.value, ast.BinOp) and isinstance(n.value.op, ast.Mult):
            a, b = norm_text(n.value.left), norm_text(n.value.right)
            if (a == work and b in inv) or (b == work and a in inv):
                out.append(n)
        # or through the converter that C01.masking verifies on its own (a native input comes back multiplied by np.invert(mask)):  work = convert_.._to_native(work, mask)
        if isinstance(n, ast.Assign) and len(n.targets) == 1 and isinstance(n.targets[0], ast.Name) and n.targets[0].id == work and isinstance(n.value, ast.Call) \
                and norm_text(n.value.func).split(".")[-1] in ("convert_array_2d_to_native", "convert_grid_2d_to_native"):
            b = {k: norm_text(wire.strip_np_array(v)) for k, v in wire.kw(n.value).items()}
            args = [norm_text(wire.strip_np_array(a_)) for a_ in n.value.args]
            if (b.get("array_2d", b.get("grid_2d", args[0] if args else None)) == work) and (b.get("mask_2d", args[1] if len(args) > 1 else None) == mask):
                out.append(n)
    return out


def _is_native_and_not_skip(f, test: ast.expr, work: str) -> bool:
    """test is  <is_native> and not skip_mask  with is_native := len(work.shape) == 2 (directly or through a local)"""
    if not (isinstance(test, ast.BoolOp) and isinstance(test.op, ast.And) and len(test.values) == 2):
        return False
    parts = [norm_text(v) for v in test.values]
    if "not skip_mask" not in parts:
        return False
    other = [v for v in test.values if norm_text(v) != "not skip_mask"][0]
    if isinstance(other, ast.Name):
        asg = [n for n in f.body_nodes() if isinstance(n, ast.Assign) and len(n.targets) == 1 and isinstance(n.targets[0], ast.Name) and n.targets[0].id == other.id]
        if len(asg) != 1:
            return False
        other = asg[0].value
    return norm_text(other) in (f"len({work}.shape) == 2", f"{work}.ndim == 2", f"np.ndim({work}) == 2")


def masking(ctx, p, K):
    """native inputs are multiplied by the inverted mask on every non-skip path of the converters"""
    rule = "C01.masking"
    # convert_array_2d
    f = p.func(f"{A2}:convert_array_2d")
    S = K.summarize(f, {"skip_mask": Ref("skip_mask"), "store_native": Ref("store_native")})
    inv = Poly.fn("invert", S_("mask_2d"))
    muls = [s for s in S.stores if s.op == "*=" and value_poly(s.value) == inv]
    rebinds = _rebind_masking(f, "array_2d", "mask_2d")
    det = ""
    if len(muls) == 1 and not rebinds:
        gs = real_guards(muls[0].guards)
        det = "; ".join(map(repr, gs))
        # guard must be exactly: is_native and not skip_mask, with is_native := len(shape) == 2
        txt = sorted(repr(c) for c in gs)
        ok = len(gs) == 2 and "not truth(skip_mask)" in txt and any(t.startswith("(ndim(array_2d") and t.endswith(" == 2)") for t in txt)
        site = muls[0].node
    elif len(rebinds) == 1 and not muls:
        # the same masking written as a rebinding  array_2d = array_2d * np.invert(mask_2d)
        site = rebinds[0]
        br = wire.enclosing_branches(f, site)
        det = "rebinding under " + "; ".join(("" if t else "not ") + norm_text(i.test) for i, t in br)
        ok = len(br) == 1 and br[0][1] and _is_native_and_not_skip(f, br[0][0].test, "array_2d")
    else:
        ok = False
        site = f.node
    ctx.ob(rule, f.key + ":mask-multiply", ok, where=f, node=site, construct=det or f"{len(muls)} in-place / {len(rebinds)} rebinding multiplications by ~mask",
           message="a native input must be multiplied by np.invert(mask) whenever skip_mask is False")
    # it happens before any return
    if ok:
        first_ret = min((n.lineno for n in wire.returns_of(f)), default=10 ** 9)
        ctx.ob(rule, f.key + ":before-return", site.lineno < first_ret, where=f, node=site, construct=f"multiply at line {site.lineno}, first return at {first_ret}",
               message="masking must precede every return of the converter")
    # convert_grid_2d: both components
    f = p.func(f"{G2}:convert_grid_2d")
    S = K.summarize(f, {"store_native": Ref("store_native")})
    comps = {}
    for s in S.stores:
        if s.op == "*=" and value_poly(s.value) == inv and len(s.idx) == 3:
            comps[repr(s.idx[2])] = s
    ok = set(comps) == {"0", "1"}
    det = f"components masked: {sorted(comps)}"
    if ok:
        for s in comps.values():
            gs = real_guards(s.guards)
            ok = ok and len(gs) == 1 and repr(gs[0]).startswith("(ndim(") and repr(gs[0]).endswith(" == 3)")
        first_ret = min((n.lineno for n in wire.returns_of(f)), default=10 ** 9)
        ok = ok and all(s.node.lineno < first_ret for s in comps.values())
    ctx.ob(rule, f.key + ":mask-multiply", ok, where=f, node=list(comps.values())[0].node if comps else f.node, construct=det,
           message="both the y and the x component of a native grid must be multiplied by np.invert(mask) before any return")
    # convert_array_2d_to_native
    f = p.func(f"{A2}:convert_array_2d_to_native")
    S = K.summarize(f)
    rets = [(v, g) for v, g, n in S.returns]
    native_rets = [v for v, g in rets if any(repr(c) == "(ndim(array_2d) == 2)" for c in g)]
    ok = len(native_rets) == 1 and value_poly(native_rets[0]) == S_("array_2d") * inv
    ctx.ob(rule, f.key, ok, where=f, node=f.node, construct="; ".join(short(v) for v in native_rets), message="a native input must be returned multiplied by np.invert(mask)")


def wiring(ctx, p):
    rule = "C01.wiring"
    table = [("autoarray.structures.arrays.uniform_2d:Array2D", "Array2D"), ("autoarray.structures.grids.uniform_2d:Grid2D", "Grid2D"),
             ("autoarray.structures.vectors.uniform:VectorYX2D", "VectorYX2D"), ("autoarray.structures.arrays.uniform_1d:Array1D", "Array1D"),
             ("autoarray.structures.grids.uniform_1d:Grid1D", "Grid1D")]
    n = 0
    for ck, cname in table:
        c = p.cls(ck)
        for prop, want_native in (("slim", False), ("native", True)):
            m = c.lookup(prop)
            if m is None:
                raise AnchorMissing(f"{cname}.{prop}")
            rets = wire.returns_of(m)
            ok = len(rets) == 1 and isinstance(rets[0].value, ast.Call) and norm_text(rets[0].value.func) == cname
            det = ""
            if ok:
                b = wire.kw(rets[0].value)
                sn = b.get("store_native")
                snv = sn.value if isinstance(sn, ast.Constant) else (False if sn is None else norm_text(sn))
                sk = b.get("skip_mask")
                det = f"values={norm_text(b.get('values'))} mask={norm_text(b.get('mask'))} store_native={snv}"
                ok = norm_text(b.get("values")) == "self" and norm_text(b.get("mask")) == "self.mask" and snv is want_native and (sk is None or (isinstance(sk, ast.Constant) and sk.value is False))
            n += 1
            ctx.ob(rule, f"{ck}.{prop}", ok, where=m, node=rets[0] if rets else m.node, construct=det,
                   message=f".{prop} must rebuild the same structure from self on self.mask with store_native={want_native} (and the masking step enabled)")
    ctx.require_count(rule, "slim/native properties", n, 10)
    # constructors route through the converters with their own mask and flag
    for ck, conv_key, arrkw, maskkw in (("autoarray.structures.arrays.uniform_2d:AbstractArray2D", f"{A2}:convert_array_2d", "array_2d", "mask_2d"),
                                        ("autoarray.structures.grids.uniform_2d:Grid2D", f"{G2}:convert_grid_2d", "grid_2d", "mask_2d")):
        c = p.cls(ck)
        init = c.methods.get("__init__")
        if init is None:
            raise AnchorMissing(f"{ck}.__init__")
        cs = wire.calls_to(p, init, conv_key)
        ok = len(cs) == 1
        det = ""
        if ok:
            b = {k: norm_text(v) for k, v in wire.kw(cs[0], p.func(conv_key)).items()}
            det = str(b)
            ok = b.get(arrkw) == "values" and b.get(maskkw) == "mask" and b.get("store_native") == "store_native"
        ctx.ob(rule, ck + ".__init__", ok, where=init, node=cs[0] if cs else init.node, construct=det, message="the constructor must convert `values` with its own `mask` and `store_native` flag")


def grid_stack(ctx, p):
    """decided on what the functions return with every local substituted and the thin wrapper array_2d_native_from written out (sa/paths.py, unfold): stack((conv(component 0),
    conv(component 1)), axis=-1), each conversion on the same mask"""
    rule = "C01.components"
    wrapper = f"{A2}:array_2d_native_from"
    for key, leaf, comp_kw in ((f"{G2}:grid_2d_slim_from", "array_2d_slim_from", "array_2d_native"), (f"{G2}:grid_2d_native_from", "array_2d_via_indexes_from", "array_2d_slim")):
        f = p.func(key)
        PS = paths.path_summaries(f, project=p, unfold={wrapper}) or []
        rets = paths.returns(PS)
        ok = len(PS) == 1 and len(rets) == 1
        det = ""
        if ok:
            stack = rets[0].value
            ok = isinstance(stack, ast.Call) and paths.ptext(stack.func) in ("np.stack", "numpy.stack") and len(stack.args) == 1 and isinstance(stack.args[0], (ast.Tuple, ast.List)) \
                and {k.arg: paths.ptext(k.value) for k in stack.keywords} == {"axis": "-1"}
            comps, masks = [], set()
            for e in (stack.args[0].elts if ok else []):
                k = None
                if isinstance(e, ast.Call) and paths.ptext(e.func).split(".")[-1] == leaf:
                    kw = paths.kwargs(e)
                    src = wire.strip_np_array(kw.get(comp_kw)) if kw.get(comp_kw) is not None else None
                    if isinstance(src, ast.Subscript) and isinstance(src.value, ast.Name):
                        els = src.slice.elts if isinstance(src.slice, ast.Tuple) else [src.slice]
                        if isinstance(els[-1], ast.Constant) and all(isinstance(x, ast.Slice) and x.lower is None and x.upper is None for x in els[:-1]):
                            k = els[-1].value
                    for kk, v in kw.items():
                        if kk.startswith("mask"):
                            masks.add(paths.ptext(wire.strip_np_array(v)))
                        elif kk == "shape":
                            for m_ in ast.walk(v):
                                if isinstance(m_, ast.Attribute) and m_.attr == "shape":
                                    masks.add(paths.ptext(wire.strip_np_array(m_.value)))
                        elif kk == "native_index_for_slim_index_2d":
                            inner = [c_ for c_ in ast.walk(v) if isinstance(c_, ast.Call) and paths.ptext(c_.func).split(".")[-1] == "native_index_for_slim_index_2d_from"]
                            masks.add(paths.ptext(wire.strip_np_array(paths.kwargs(inner[0]).get("mask_2d"))) if len(inner) == 1 else "?")
                comps.append(k)
            det = f"stacked components {comps} axis=-1; masks {sorted(masks)}"
            ok = ok and comps == [0, 1] and len(masks) == 1 and "?" not in masks
        ctx.ob(rule, key, ok, where=f, node=f.node, construct=det or (rets[0].text[:200] if rets else ""),
               message="component 0 (y) then component 1 (x) must each be converted with the same mask and stacked back in that order on the last axis")


def convert_dispatch(ctx, p):
    """convert_array_2d / convert_grid_2d hand back the form that was asked for: decided on the decision table of each converter (sa/paths.py).  On every returning path
    the input's form (native iff its rank is 2, resp. 3) and the requested form (store_native) are read off the path's conditions; the value returned must be the input
    itself when they agree, the slimming routine applied to it when a native input is to be stored slim, the native routine when a slim input is to be stored native."""
    import re
    rule = "C01.convert"
    from .. import paths
    G2 = "autoarray.structures.grids.grid_2d_util"
    for key in (f"{A2}:convert_array_2d", f"{G2}:convert_grid_2d"):
        f = p.func(key)
        qs = paths.returns(paths.path_summaries(f, project=p) or [])
        seen = set()
        bad = []
        for q in qs:
            native, N = None, None
            for t, tr in q.conds:
                m = re.fullmatch(r"(len\(.*\.shape\)|.*\.ndim|np\.ndim\(.*\)) == ([23])", t)
                if m and "store_native" not in t:
                    native, N = tr, t
            store = q.holds("store_native")
            eq = q.holds(f"({N}) == store_native") if N else None
            if eq is None and N:
                eq = q.holds(f"store_native == ({N})")
            if native is None:
                continue
            if store is None and eq is not None:
                store = native if eq else (not native)
            if store is None or (eq is not None and eq != (native == store)):
                continue   # (not decided on this path / a combination of tests that cannot occur)
            v = q.value
            callee = norm_text(v.func).split(".")[-1] if isinstance(v, ast.Call) else ""
            kind = "slim" if callee.endswith(("slim_from", "_to_slim")) else ("native" if callee.endswith(("native_from", "_to_native")) else "")
            want = "" if native == store else ("native" if store else "slim")
            # the `_to_slim` / `_to_native` converters take either form and leave an input that already has the requested one in that form (native ones masked: C01.masking)
            if want == "" and ((kind == "native" and store and callee.endswith("_to_native")) or (kind == "slim" and not store and callee.endswith("_to_slim"))):
                kind = ""
            seen.add((native, store))
            if kind != want:
                bad.append((q, f"input native={native}, store_native={store}: returns {q.text[:70]}"))
        ok = not bad and {(True, True), (True, False), (False, True), (False, False)} <= seen
        ctx.ob(rule, key, ok, where=f, node=(bad[0][0].node if bad else None) or f.node, construct=(bad[0][1] if bad else f"forms seen {sorted(seen)}"),
               message="the converter must return its input unchanged in form when it already has the requested form, slim a native input when store_native is False and "
                       "expand a slim input when store_native is True (all four combinations decided)")


def run(ctx):
    p = ctx.p
    K = KEval(p)
    ctx.rule("C01.order", "slim index k is the k-th unmasked pixel in row-major order: traversal typestate of every slim counter (E3)")
    ctx.rule("C01.gather", "each gather writes, at slim counter k, the value found at the loop position, into an array sized by the unmasked count of the same mask")
    ctx.rule("C01.scatter", "each scatter writes slim entry k at native_index_for_slim_index[k] (row, column), for all k, into zeros of the native shape")
    ctx.rule("C01.compose", "slim -> native composes the index list of the same mask with the scatter")
    ctx.rule("C01.partition", "masked / unmasked lists: one nest parameterised by the flag records the row-major flattened index; both lists come from it with flag True / False")
    ctx.rule("C01.masking", "native inputs are multiplied by the inverted mask on every non-skip path of convert_array_2d / convert_grid_2d (both components) / convert_array_2d_to_native")
    ctx.rule("C01.convert", "convert_array_2d / convert_grid_2d return the input as it is, slimmed or expanded according to (form of the input, store_native): decision table, four combinations")
    ctx.rule("C01.wiring", ".slim / .native of Array2D, Grid2D, VectorYX2D, Array1D, Grid1D rebuild from self on self.mask with store_native False / True")
    ctx.rule("C01.components", "grid slim/native conversion handles component 0 then 1 with one mask and stacks them back in order")
    convert_dispatch(ctx, p)
    gather(ctx, p, K, f"{A2}:array_2d_slim_from", "mask_2d", lambda a, b: E_("array_2d_native", a, b))
    gather(ctx, p, K, f"{A2}:array_2d_slim_complex_from", "mask", lambda a, b: E_("array_2d_native", a, b))
    gather(ctx, p, K, f"{M2}:native_index_for_slim_index_2d_from", "mask_2d", lambda a, b: {(ZERO,): a, (ONE,): b})
    gather(ctx, p, K, f"{A1}:array_1d_slim_from", "mask_1d", lambda a, b: E_("array_1d_native", a), dims=1)
    gather(ctx, p, K, f"{M1}:native_index_for_slim_index_1d_from", "mask_1d", lambda a, b: a, dims=1)
    counting(ctx, p, K, f"{M2}:total_pixels_2d_from", "mask_2d", 2)
    counting(ctx, p, K, f"{M1}:total_pixels_1d_from", "mask_1d", 1)
    scatter(ctx, p, K, f"{A2}:array_2d_via_indexes_from", "array_2d_slim", "native_index_for_slim_index_2d", "shape")
    scatter(ctx, p, K, f"{A2}:array_2d_native_complex_via_indexes_from", "array_2d_slim", "native_index_for_slim_index_2d", "shape_native")
    scatter(ctx, p, K, f"{A1}:array_1d_via_indexes_1d_from", "array_1d_slim", "native_index_for_slim_index_1d", "shape", dims=1)
    compose(ctx, p, f"{A2}:array_2d_native_from", f"{M2}:native_index_for_slim_index_2d_from", f"{A2}:array_2d_via_indexes_from", "mask_2d",
            ("(mask_2d.shape[0], mask_2d.shape[1])", "mask_2d.shape"))
    compose(ctx, p, f"{A1}:array_1d_native_from", f"{M1}:native_index_for_slim_index_1d_from", f"{A1}:array_1d_via_indexes_1d_from", "mask_1d", ("mask_1d.shape[0]",))
    flag_lists(ctx, p, K)
    masking(ctx, p, K)
    wiring(ctx, p)
    grid_stack(ctx, p)
    # native_for_slim published by the mask comes from the same routine on self.mask
    c = p.cls("autoarray.mask.derive.indexes_2d:DeriveIndexes2D")
    m = c.methods.get("native_for_slim")
    if m is None:
        raise AnchorMissing("DeriveIndexes2D.native_for_slim")
    cs = wire.calls_to(p, m, f"{M2}:native_index_for_slim_index_2d_from")
    ok = len(cs) == 1 and norm_text(wire.strip_np_array(wire.kw(cs[0], p.func(f"{M2}:native_index_for_slim_index_2d_from")).get("mask_2d"))) == "self.mask"
    ctx.ob("C01.compose", c.key + ".native_for_slim", ok, where=m, node=cs[0] if cs else m.node, construct=norm_text(cs[0]) if cs else "",
           message="Mask2D.derive_indexes.native_for_slim must be the index list of self.mask")


_A = "autoarray/structures/arrays/array_2d_util.py"
_M = "autoarray/mask/mask_2d_util.py"
_G = "autoarray/structures/grids/grid_2d_util.py"
CONTROLS = [
    Control("converter dispatch inverted: slim routine chosen when store_native is set (found by mutation fuzzing)", "autoarray/structures/arrays/array_2d_util.py", in_func("convert_array_2d", "    elif not store_native:\n        return array_2d_slim_from(", "    elif store_native:\n        return array_2d_slim_from("), "C01.convert"),
    Control("gather loops column-major", _A, in_func("array_2d_slim_from", "for y in range(mask_2d.shape[0]):\n        for x in range(mask_2d.shape[1]):", "for x in range(mask_2d.shape[1]):\n        for y in range(mask_2d.shape[0]):"), "C01.order"),
    Control("twin: increment first, store at index - 1", _A, in_func("array_2d_slim_complex_from", "                array_1d[index] = array_2d_native[y, x]\n                index += 1", "                index += 1\n                array_1d[index - 1] = array_2d_native[y, x]"), None, twin=True),
    Control("gather increments before store", _A, in_func("array_2d_slim_complex_from", "                array_1d[index] = array_2d_native[y, x]\n                index += 1", "                index += 1\n                array_1d[index] = array_2d_native[y, x]"), "C01.order"),
    Control("gather reads transposed pixel", _A, in_func("array_2d_slim_from", "array_2d_slim[index] = array_2d_native[y, x]", "array_2d_slim[index] = array_2d_native[x, y]"), "C01.gather"),
    Control("scatter swaps row and column", _A, in_func("array_2d_via_indexes_from", "native_index_for_slim_index_2d[slim_index, 0],\n            native_index_for_slim_index_2d[slim_index, 1],", "native_index_for_slim_index_2d[slim_index, 1],\n            native_index_for_slim_index_2d[slim_index, 0],"), "C01.scatter"),
    Control("scatter into ones", _A, in_func("array_2d_via_indexes_from", "array_native_2d = np.zeros(shape)", "array_native_2d = np.ones(shape)"), "C01.scatter"),
    Control("native index list skips last row", _M, in_func("native_index_for_slim_index_2d_from", "for y in range(mask_2d.shape[0]):", "for y in range(mask_2d.shape[0] - 1):"), "C01.order"),
    Control("flat index uses wrong axis (seed C01/1)", _M, in_func("mask_slim_indexes_from", "                mask_pixels[mask_index] = regular_index", "                mask_pixels[mask_index] = y * mask_2d.shape[0] + x"), "C01.partition"),
    Control("flat counter only advanced on matches", _M, in_func("mask_slim_indexes_from", "                mask_index += 1\n\n            regular_index += 1", "                mask_index += 1\n\n                regular_index += 1"), "C01.partition"),
    Control("grid converter masks only y", _G, in_func("convert_grid_2d", "        grid_2d[:, :, 1] *= np.invert(mask_2d)\n", ""), "C01.masking"),
    Control("early return before masking (seed C01/2)", _G, in_func("convert_grid_2d", "    if is_native:\n        grid_2d = grid_2d.copy()", "    if is_native == store_native:\n        return grid_2d\n\n    if is_native:\n        grid_2d = grid_2d.copy()"), "C01.masking"),
    Control("Grid2D.native forgets store_native", "autoarray/structures/grids/uniform_2d.py", in_func("Grid2D.native", "            store_native=True,\n", ""), "C01.wiring"),
    Control("grid components stacked x,y", _G, in_func("grid_2d_slim_from", "np.stack((grid_1d_slim_y, grid_1d_slim_x), axis=-1)", "np.stack((grid_1d_slim_x, grid_1d_slim_y), axis=-1)"), "C01.components"),
    Control("twin: flat index by formula y*W+x", _M, in_func("mask_slim_indexes_from", "                mask_pixels[mask_index] = regular_index", "                mask_pixels[mask_index] = x + mask_2d.shape[1] * y"), None, twin=True),
    Control("twin: masking written as a rebinding (array_2d = array_2d * ~mask)", _A, in_func("convert_array_2d", "        array_2d *= np.invert(mask_2d)", "        array_2d = array_2d * np.invert(mask_2d)"), None, twin=True),
    Control("masking rebinding under the wrong guard", _A, in_func("convert_array_2d", "    if is_native and not skip_mask:\n        array_2d *= np.invert(mask_2d)", "    if is_native and skip_mask:\n        array_2d = array_2d * np.invert(mask_2d)"), "C01.masking"),
    Control("twin: guard written == False", _A, in_func("array_2d_slim_from", "if not mask_2d[y, x]:", "if mask_2d[y, x] == False:"), None, twin=True),
]
