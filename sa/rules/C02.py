"""C02 - pixel indices and scaled (y,x) coordinates are consistent inverse maps (DESIGN.md section 4, C02)."""
from __future__ import annotations

import ast
from fractions import Fraction

from ..keval import KEval, Ref, Cond, Const, Top
from ..poly import Poly, ZERO, ONE
from ..forms import forwarded_values, cond_equiv, value_poly, real_guards, short, acc_name_of, is_full_range, norm_cond, CMP, AND, OR
from .. import wire
from ..model import norm_text, AnchorMissing
from ..controls import Control
from ..mutate import in_func

S_ = Poly.sym
E_ = Poly.elem
GU = "autoarray.geometry.geometry_util"
G2U = "autoarray.structures.grids.grid_2d_util"
G1U = "autoarray.structures.grids.grid_1d_util"
M2 = "autoarray.mask.mask_2d_util"
H, W, s0, s1, oy, ox = (S_(n) for n in ("H", "W", "s0", "s1", "oy", "ox"))
HALF = Poly.const(Fraction(1, 2))
CY = (H - ONE) * HALF          # central pixel coordinate, axis 0
CX = (W - ONE) * HALF
GEO = dict(shape_native=(H, W), pixel_scales=(s0, s1))


def need(f, *names):
    for n in names:
        if n not in f.all_params:
            raise AnchorMissing(f"{f.key}: parameter {n}")


def tuple_form(ctx, rule, K, key, args, want, what):
    f = ctx.p.func(key)
    need(f, *args.keys())
    S = K.summarize(f, dict(args))
    got = S.ret
    ok = isinstance(got, tuple) and len(got) == len(want) and all(isinstance(g, Poly) and g == w for g, w in zip(got, want))
    ctx.ob(rule, key, ok, where=f, node=f.node, construct=f"returns {tuple(short(g, 90) for g in got) if isinstance(got, tuple) else short(got)}",
           message=f"{what}: expected {tuple(short(w, 90) for w in want)}", detail=[repr(w) for w in want])
    return S


def store_forms(ctx, rule, K, key, args, out_idx_forms, what, loops_over):
    """the returned array is written at [k, c] (or [a, b, c]) with the reference forms, for every index of the input grid"""
    f = ctx.p.func(key)
    need(f, *args.keys())
    S = K.summarize(f, dict(args))
    out = S.returned_array_names()
    if len(out) != 1:
        ctx.ob(rule, key, None, message=f"expected one returned array, got {out}")
        return None
    sts = S.stores_to(out[0])
    got = {}
    ok = True
    # later stores overwrite earlier ones at the same place; a value that reads the array back (truncate in place, ...) is expressed through what was stored there
    for s, val in forwarded_values(sts, {out[0], getattr(S.env.get(out[0]), "origin", None) or out[0]} | {x.arr for x in sts}):
        lv = tuple(S_(l.var) for l in s.loops)
        ok = ok and len(s.loops) == len(loops_over) and all(is_full_range(l, [e]) or is_full_range(l, [S_(f"{out[0]}.shape[0]")]) for l, e in zip(s.loops, loops_over)) and s.idx[:len(lv)] == lv and s.op == "=" and not real_guards(s.guards)
        got[s.idx[len(lv):]] = (val, tuple(S_("k%d" % i) for i in range(len(lv))), lv)
    if not ok or not sts:
        ctx.ob(rule, key + ":loops", False, where=f, node=sts[0].node if sts else f.node, construct="; ".join(repr(s)[:100] for s in sts[:2]),
               message="the output must be assigned, unguarded, at the loop indices for every point of the input grid")
        return None
    # every final store is compared in its own loop variables
    good = True
    want = {}
    for k_, (val, _, lv) in got.items():
        want = out_idx_forms(*lv)
        good = good and k_ in want and val == want[k_]
    good = good and set(got) == set(want)
    ctx.ob(rule, key, good, where=f, node=sts[0].node, construct="; ".join(f"[.., {', '.join(map(repr, k))}] = {short(v[0], 100)}" for k, v in sorted(got.items(), key=repr)),
           message=f"{what}: expected " + "; ".join(f"[.., {', '.join(map(repr, k))}] = {short(v, 100)}" for k, v in sorted(want.items(), key=repr)),
           detail={repr(k): repr(v) for k, v in want.items()})
    return S


def mask_constructor(ctx, K, key, extra, want_cond, init_full_true=True):
    rule = "C02.shape-mask"
    f = ctx.p.func(key)
    args = dict(shape_native=(H, W), pixel_scales=(s0, s1), centre=(S_("cy"), S_("cx")))
    args.update({k: S_(k) for k in extra})
    need(f, *args.keys())
    S = K.summarize(f, args)
    out = S.returned_array_names()
    if len(out) != 1:
        ctx.ob(rule, key, None, message=f"expected one returned array, got {out}")
        return
    sts = S.stores_to(out[0])
    # one or several stores (if / elif arms) in the same full (y, x) nest, each unmasking [y, x]
    ok = len(sts) >= 1 and all(len(s.loops) == 2 and is_full_range(s.loops[0], [H]) and is_full_range(s.loops[1], [W]) for s in sts) and len({tuple(id(l) for l in s.loops) for s in sts}) == 1
    if ok:
        y, x = S_(sts[0].loops[0].var), S_(sts[0].loops[1].var)
        ok = all(s.idx == (y, x) and isinstance(s.value, Const) and s.value.v is False and s.op == "=" for s in sts)
    ctx.ob(rule, key + ":store", ok, where=f, node=sts[0].node if sts else f.node, construct=repr(sts[0])[:140] if sts else "no store",
           message="the mask must be unmasked (set False) at [y, x] inside the full (y, x) nest, and nowhere else")
    if not ok:
        return
    ref = S.env.get(out[0])
    init = getattr(ref, "init", None)
    shp = getattr(ref, "shape", None)
    ctx.ob(rule, key + ":init", init is not None and init[0] == "full" and isinstance(init[1], Const) and init[1].v is True and shp is not None and shp[:2] == (H, W),
           where=f, node=f.node, construct=f"init {init} shape {shp}", message="the mask must start fully masked (True) with the requested shape")
    # pixel-centre offsets from the requested centre (mask origin frame): canonical forms
    ys = (y - CY) * s0 + S_("cy")
    xs = (x - CX) * s1 - S_("cx")
    arms = []
    for s in sts:
        gs = real_guards(s.guards)
        arms.append(AND(*gs) if len(gs) != 1 else gs[0])
    got_c = OR(*arms) if len(arms) > 1 else arms[0]
    want_c = want_cond(ys, xs)
    got, want = norm_cond(got_c), norm_cond(want_c)
    ctx.ob(rule, key + ":inequality", got == want or cond_equiv(got_c, want_c), where=f, node=sts[0].node, construct=str(got)[:300],
           message=f"the unmasking condition (the union of the arms that unmask) must be the documented radial inequality evaluated at the pixel centre relative to `centre`; expected {str(want)[:300]}")


def ell(ys, xs, angle, q):
    r = Poly.fn("sqrt", xs * xs + ys * ys)
    th = Poly.fn("arctan2", ys, xs) + Poly.fn("radians", angle)
    ye, xe = r * Poly.fn("sin", th), r * Poly.fn("cos", th)
    return Poly.fn("sqrt", xe * xe + (ye / q) * (ye / q))


def wiring(ctx, p, K=None):
    """Geometry2D methods hand their own (shape_native, pixel_scales, origin) triple to the util of the same name"""
    rule = "C02.wiring"
    c = p.cls("autoarray.geometry.geometry_2d:Geometry2D")
    table = {"central_pixel_coordinates": ("central_pixel_coordinates_2d_from", None), "central_scaled_coordinates": ("central_scaled_coordinate_2d_from", None),
             "pixel_coordinates_2d_from": ("pixel_coordinates_2d_from", ("scaled_coordinates_2d", "scaled_coordinates_2d")),
             "scaled_coordinates_2d_from": ("scaled_coordinates_2d_from", ("pixel_coordinates_2d", "pixel_coordinates_2d")),
             "grid_pixels_2d_from": ("grid_pixels_2d_slim_from", ("grid_scaled_2d_slim", "grid_scaled_2d")),
             "grid_pixel_centres_2d_from": ("grid_pixel_centres_2d_slim_from", ("grid_scaled_2d_slim", "grid_scaled_2d")),
             "grid_pixel_indexes_2d_from": ("grid_pixel_indexes_2d_slim_from", ("grid_scaled_2d_slim", "grid_scaled_2d")),
             "grid_scaled_2d_from": ("grid_scaled_2d_slim_from", ("grid_pixels_2d_slim", "grid_pixels_2d"))}
    n = 0
    for meth, (util, operand) in table.items():
        m = c.lookup(meth)
        if m is None:
            raise AnchorMissing(f"Geometry2D.{meth}")
        callee = p.func(f"{GU}:{util}")
        cs = wire.calls_to(p, m, callee.key)
        ok = len(cs) == 1
        det = ""
        if ok:
            b = {k: norm_text(wire.strip_np_array(v)) for k, v in wire.kw(cs[0], callee).items()}
            det = str(b)
            want = {"shape_native": "self.shape_native"}
            if "pixel_scales" in callee.all_params:
                want["pixel_scales"] = "self.pixel_scales"
            for o in ("origin", "origins"):
                if o in callee.all_params:
                    want[o] = "self.origin"
            if operand:
                want[operand[0]] = operand[1]
            ok = b == want
            if not ok and K is not None:
                # however the call is spelled (e.g. a centre computed once by the geometry and passed in): the util evaluated under this call's arguments must
                # compute exactly what it computes for (shape_native, pixel_scales, origin) of the geometry itself
                ok = _same_result(K, c, m, cs[0], callee, want)
                det += "  [decided by evaluating the util under the call's arguments]"
        n += 1
        ctx.ob(rule, f"{c.key}.{meth}", ok, where=m, node=cs[0] if cs else m.node, construct=det,
               message="the geometry method must call its util with the geometry's OWN shape_native, pixel_scales and origin (and the caller's operand)")
    ctx.require_count(rule, "Geometry2D wiring instances", n, 8)
    # results are re-wrapped on the operand's mask
    for meth, cls in (("grid_pixels_2d_from", "Grid2D"), ("grid_pixel_centres_2d_from", "Grid2D"), ("grid_pixel_indexes_2d_from", "Array2D"), ("grid_scaled_2d_from", "Grid2D")):
        m = c.lookup(meth)
        rets = wire.returns_of(m)
        opn = [a for a in m.params if a != "self"][0]
        ok = len(rets) == 1 and isinstance(rets[0].value, ast.Call) and norm_text(rets[0].value.func) == cls and norm_text(wire.kw(rets[0].value).get("mask")) == f"{opn}.mask"
        ctx.ob(rule, f"{c.key}.{meth}:mask", ok, where=m, node=rets[0] if rets else m.node, construct=norm_text(rets[0].value)[:120] if rets else "", message="the result must be returned on the operand grid's mask")


def _same_result(K, c, m, call, callee, want) -> bool:
    """does `callee` evaluated under the arguments of `call` (written inside method m of the geometry class c) produce the same stores / result as under the
    canonical arguments `want` (texts over self.shape_native / self.pixel_scales / self.origin / the operand)?"""
    from ..keval import Summary
    fields = {"self.shape_native": (H, W), "self.pixel_scales": (s0, s1), "self.origin": (oy, ox)}

    def prop(name, depth=0):
        mm = c.lookup(name)
        if mm is None or depth > 4:
            return None
        return K.summarize(mm, {"self": SelfRef(fields, lambda n_: prop(n_, depth + 1))}).ret
    env = {"self": SelfRef(fields, prop)}
    for a in m.params:
        if a != "self":
            env[a] = Ref(a)
    _install_self_support(K)

    def args_of(texts_or_nodes):
        out = {}
        for k, v in texts_or_nodes.items():
            e = ast.parse(v, mode="eval").body if isinstance(v, str) else wire.strip_np_array(v)
            out[k] = K.ev(e, env, Summary(m), m, (), (), 0)
        return out
    try:
        Sa = K.summarize(callee, args_of(wire.kw(call, callee)))
        Sb = K.summarize(callee, args_of(want))
    except Exception:  # noqa - not evaluable: not decided in favour
        return False

    def shape(S):
        sts = [(s.arr, s.op, tuple(repr(i) for i in s.idx), repr(value_poly(s.value)), repr(list(s.guards)), tuple((l.var, repr(l.lo), repr(l.hi)) for l in s.loops)) for s in S.stores]
        return sts, repr(S.ret)
    import re
    # (fresh-allocation numbers of arrays made by callees differ between two evaluations)
    a, b = (re.sub(r"#\d+", "#", repr(shape(S_))) for S_ in (Sa, Sb))
    return a == b and "None" not in repr(a) and "Top" not in repr(a)


def extent_rule(ctx, p, K):
    rule = "C02.extent"
    c = p.cls("autoarray.geometry.geometry_2d:Geometry2D")
    env = {"self.shape_native": (H, W), "self.pixel_scales": (s0, s1), "self.origin": (oy, ox)}

    def prop(name, depth=0):
        m = c.lookup(name)
        if m is None:
            raise AnchorMissing(f"Geometry2D.{name}")
        S = K.summarize(m, {"self": SelfRef(env, lambda n: prop(n, depth + 1) if depth < 4 else None)})
        return S.ret
    want = {"shape_native_scaled": (s0 * H, s1 * W), "scaled_maxima": (s0 * H * HALF + oy, s1 * W * HALF + ox), "scaled_minima": (-s0 * H * HALF + oy, -s1 * W * HALF + ox),
            "extent": (-s1 * W * HALF + ox, s1 * W * HALF + ox, -s0 * H * HALF + oy, s0 * H * HALF + oy)}
    for name, w in want.items():
        got = prop(name)
        ok = isinstance(got, tuple) and len(got) == len(w) and all(isinstance(g, Poly) and g == x for g, x in zip(got, w))
        m = c.lookup(name)
        ctx.ob(rule, f"{c.key}.{name}", ok, where=m, node=m.node, construct=f"{tuple(short(g, 80) for g in got) if isinstance(got, tuple) else got!r}",
               message=f"expected {tuple(short(x, 80) for x in w)} (origin -/+ shape*scale/2; extent ordered (x_min, x_max, y_min, y_max))")
    c1 = p.cls("autoarray.geometry.geometry_1d:Geometry1D")
    env1 = {"self.shape_native": (W,), "self.pixel_scales": (s1,), "self.origin": (ox,)}

    def prop1(name, depth=0):
        m = c1.lookup(name)
        if m is None:
            raise AnchorMissing(f"Geometry1D.{name}")
        S = K.summarize(m, {"self": SelfRef(env1, lambda n: prop1(n, depth + 1) if depth < 4 else None)})
        return S.ret
    got = prop1("extent")
    w = (-s1 * W * HALF + ox, s1 * W * HALF + ox)
    ok = isinstance(got, tuple) and len(got) == 2 and all(isinstance(g, Poly) and g == x for g, x in zip(got, w))
    m = c1.lookup("extent")
    ctx.ob(rule, f"{c1.key}.extent", ok, where=m, node=m.node, construct=repr(got)[:160], message=f"expected {tuple(short(x, 60) for x in w)}")


class SelfRef(Ref):
    """`self` for class-layer evaluation: fields are atoms / given forms, other properties are evaluated on demand"""

    def __init__(self, fields, prop_eval):
        super().__init__("self")
        self.fields = fields
        self.prop_eval = prop_eval


def run(ctx):
    p = ctx.p
    K = KEval(p)
    _install_self_support(K)
    ctx.rule("C02.centre", "pixel-centre formula y = oy + ((H-1)/2 - i) s0, x = ox + (j - (W-1)/2) s1 in every coordinate producer (canonical-form equality, all H, W, s0, s1, oy, ox)")
    ctx.rule("C02.index", "index from coordinate is int(p + 1/2) with p the exact inverse affine map (+oy/s0, -ox/s1); flattened index is row*W + col")
    ctx.rule("C02.inverse", "compositions are the identity: centre -> continuous pixel -> centre; scaled -> continuous pixel -> scaled (substitution of canonical forms)")
    ctx.rule("C02.extent", "Geometry2D/1D shape_native_scaled, scaled_minima/maxima, extent equal origin -/+ shape*scale/2 in the documented order")
    ctx.rule("C02.shape-mask", "the five shape-mask constructors start all-masked and unmask [y, x] exactly under the documented radial inequality of the pixel-centre offset from `centre`")
    ctx.rule("C02.wiring", "Geometry2D methods pass the geometry's own (shape_native, pixel_scales, origin) and return on the operand's mask")
    geo = dict(GEO)
    # --- scalar conversions
    tuple_form(ctx, "C02.centre", K, f"{GU}:central_pixel_coordinates_2d_from", dict(shape_native=(H, W)), (CY, CX), "central pixel coordinates")
    tuple_form(ctx, "C02.centre", K, f"{GU}:central_scaled_coordinate_2d_from", dict(geo, origin=(oy, ox)), (CY + oy / s0, CX - ox / s1), "central scaled coordinate (+oy/s0, -ox/s1)")
    yq, xq, i, j = S_("yq"), S_("xq"), S_("i"), S_("j")
    Sp = tuple_form(ctx, "C02.index", K, f"{GU}:pixel_coordinates_2d_from", dict(geo, scaled_coordinates_2d=(yq, xq), origins=(oy, ox)),
                    (K.to_int((oy - yq) / s0 + CY + HALF), K.to_int((xq - ox) / s1 + CX + HALF)), "pixel index of a coordinate: int(inverse affine + 1/2)")
    tuple_form(ctx, "C02.centre", K, f"{GU}:scaled_coordinates_2d_from", dict(geo, pixel_coordinates_2d=(i, j), origins=(oy, ox)),
               (oy + (CY - i) * s0, ox + (j - CX) * s1), "pixel centre of index (i, j)")
    # 1-D analogues
    tuple_form(ctx, "C02.centre", K, f"{GU}:central_pixel_coordinates_1d_from", dict(shape_slim=(W,)), (CX,), "1-D central pixel")
    tuple_form(ctx, "C02.centre", K, f"{GU}:central_scaled_coordinate_1d_from", dict(shape_slim=(W,), pixel_scales=(s1,), origin=(ox,)), (CX - ox / s1,), "1-D central scaled coordinate")
    tuple_form(ctx, "C02.index", K, f"{GU}:pixel_coordinates_1d_from", dict(scaled_coordinates_1d=(xq,), shape_slim=(W,), pixel_scales=(s1,), origins=(ox,)),
               (K.to_int((xq - ox) / s1 + CX + HALF),), "1-D pixel index")
    tuple_form(ctx, "C02.centre", K, f"{GU}:scaled_coordinates_1d_from", dict(pixel_coordinates_1d=(j,), shape_slim=(W,), pixel_scales=(s1,), origins=(ox,)),
               (ox + (j - CX) * s1,), "1-D pixel centre")
    # --- grid conversions
    G = Ref("G")
    n = [S_("G.shape[0]")]
    cont = lambda k: {(ZERO,): -E_("G", k, ZERO) / s0 + CY + oy / s0 + HALF, (ONE,): E_("G", k, ONE) / s1 + CX - ox / s1 + HALF}
    store_forms(ctx, "C02.index", K, f"{GU}:grid_pixels_2d_slim_from", dict(geo, grid_scaled_2d_slim=G, origin=(oy, ox)), cont, "continuous pixel coordinates", n)
    store_forms(ctx, "C02.index", K, f"{GU}:grid_pixel_centres_2d_slim_from", dict(geo, grid_scaled_2d_slim=G, origin=(oy, ox)),
                lambda k: {kk: K.to_int(v) for kk, v in cont(k).items()}, "integer pixel coordinates: int(continuous)", n)
    store_forms(ctx, "C02.centre", K, f"{GU}:grid_scaled_2d_slim_from", dict(geo, grid_pixels_2d_slim=G, origin=(oy, ox)),
                lambda k: {(ZERO,): -(E_("G", k, ZERO) - CY - oy / s0 - HALF) * s0, (ONE,): (E_("G", k, ONE) - CX + ox / s1 - HALF) * s1}, "scaled coordinates of continuous pixel coordinates", n)
    store_forms(ctx, "C02.index", K, f"{GU}:grid_pixel_centres_2d_from", dict(geo, grid_scaled_2d=G, origin=(oy, ox)),
                lambda a, b: {(ZERO,): K.to_int(-E_("G", a, b, ZERO) / s0 + CY + oy / s0 + HALF), (ONE,): K.to_int(E_("G", a, b, ONE) / s1 + CX - ox / s1 + HALF)},
                "integer pixel coordinates (native grid)", [S_("G.shape[0]"), S_("G.shape[1]")])
    # flattened index = row * W + col of the integer pixel coordinates computed with the SAME geometry
    f = p.func(f"{GU}:grid_pixel_indexes_2d_slim_from")
    S = K.summarize(f, dict(geo, grid_scaled_2d_slim=G, origin=(oy, ox)))
    out = S.returned_array_names()
    ok = False
    det = ""
    if len(out) == 1:
        sts = S.stores_to(out[0])
        calls = [c for c in S.calls if c[0].endswith(":grid_pixel_centres_2d_slim_from")]
        if len(sts) == 1 and len(sts[0].loops) == 1 and len(calls) == 1:
            k = S_(sts[0].loops[0].var)
            v = value_poly(sts[0].value)
            det = short(v)
            ca = calls[0][1]
            same_geo = ca.get("shape_native") == (H, W) and ca.get("pixel_scales") == (s0, s1) and ca.get("origin") == (oy, ox) and isinstance(ca.get("grid_scaled_2d_slim"), Ref) and ca["grid_scaled_2d_slim"].name == "G"
            arrs = {a[1] for a in v.all_atoms() if a[0] == "i"} if v is not None else set()   # a value that is no polynomial (e.g. an index beyond the shape pair) fails the obligation
            if len(arrs) == 1:
                C = arrs.pop()
                ok = same_geo and sts[0].idx == (k,) and v in (K.to_int(E_(C, k, ZERO) * W + E_(C, k, ONE)), E_(C, k, ZERO) * W + E_(C, k, ONE)) and C.startswith("grid_pixel_centres_2d_slim_from#")   # the array returned by that routine, whatever it is called inside
                ok = ok and sts[0].loops[0].lo == ZERO and sts[0].loops[0].step == ONE
    ctx.ob("C02.index", f.key, ok, where=f, node=f.node, construct=det, message="flattened index must be row * W + col (W = shape_native[1]) of the integer pixel coordinates obtained with the same shape, scales and origin")
    # --- grid from mask
    M = Ref("M", shape=(H, W))
    f = p.func(f"{G2U}:grid_2d_slim_via_mask_from")
    S = K.summarize(f, dict(mask_2d=M, pixel_scales=(s0, s1), origin=(oy, ox)))
    out = S.returned_array_names()
    good = False
    det = ""
    if len(out) == 1:
        sts = S.stores_to(out[0])
        if len(sts) == 2 and all(len(s.loops) == 2 for s in sts):
            y, x = S_(sts[0].loops[0].var), S_(sts[0].loops[1].var)
            got = {s.idx[1]: value_poly(s.value) for s in sts}
            det = "; ".join(f"[k, {k!r}] = {short(v, 90)}" for k, v in got.items())
            good = got == {ZERO: oy + (CY - y) * s0, ONE: ox + (x - CX) * s1}
    ctx.ob("C02.centre", f.key, good, where=f, node=f.node, construct=det, message="grid from mask must hold the pixel centres y = oy + ((H-1)/2 - y) s0, x = ox + (x - (W-1)/2) s1 with (H, W) the mask's own shape")
    # ... one row per unmasked pixel in row-major order: the whole mask is traversed, the row counter starts at 0 and advances once per unmasked pixel, and the
    # output has exactly (unmasked pixels, 2) entries (a traversal over shape[1] rows, a counter started at 1 or a third column leave the formula above intact)
    if good:
        from ..trav import check_slim_counter
        cnt = acc_name_of(sts[0].idx[0]) if sts[0].idx else None
        if cnt is None:
            ctx.ob("C02.centre", f.key + ":rows", False, where=f, node=sts[0].node, construct=repr(sts[0])[:140], message="the rows of the grid from mask must be indexed by a running count of the unmasked pixels")
        else:
            check_slim_counter(ctx, "C02.centre", S, cnt, ["M", "mask_2d"], shape=(H, W), must_index=[out[0]], what="grid-row")
            ref = S.env.get(out[0])
            init, shp = getattr(ref, "init", None), getattr(ref, "shape", None)
            ctx.ob("C02.centre", f.key + ":shape", init is not None and init[0] == "zeros" and shp == (Poly.fn("total_pixels_2d_from", S_("M")), Poly.const(2)), where=f, node=f.node,
                   construct=f"init {init} shape {shp}", message="the grid from mask must have shape (number of unmasked pixels of the same mask, 2)")
    # 1-D analogue
    M1 = Ref("M1", shape=(W,))
    f = p.func(f"{G1U}:grid_1d_slim_via_mask_from")
    S = K.summarize(f, dict(mask_1d=M1, pixel_scales=(s1,), origin=(ox,)))
    out = S.returned_array_names()
    good = False
    det = ""
    if len(out) == 1:
        sts = S.stores_to(out[0])
        if len(sts) == 1 and len(sts[0].loops) == 1:
            x = S_(sts[0].loops[0].var)
            v = value_poly(sts[0].value)
            det = short(v, 120)
            good = v == ox + (x - CX) * s1 and sts[0].loops[0].lo == ZERO and sts[0].loops[0].step == ONE
    ctx.ob("C02.centre", f.key, good, where=f, node=f.node, construct=det, message="1-D grid from mask must hold the pixel centres x = ox + (x - (W-1)/2) s with W the mask's own length (origin NOT multiplied by the pixel scale)")
    # --- compositions (identity by substitution)
    compositions(ctx, p, K)
    extent_rule(ctx, p, K)
    # --- shape masks
    R, Ri, Ro, Ro2 = S_("radius"), S_("inner_radius"), S_("outer_radius"), S_("outer_radius_2_scaled")
    rr = lambda ys, xs: Poly.fn("sqrt", xs * xs + ys * ys)
    mask_constructor(ctx, K, f"{M2}:mask_2d_circular_from", ["radius"], lambda ys, xs: CMP(rr(ys, xs), "<=", R))
    mask_constructor(ctx, K, f"{M2}:mask_2d_circular_annular_from", ["inner_radius", "outer_radius"], lambda ys, xs: AND(CMP(rr(ys, xs), "<=", Ro), CMP(Ri, "<=", rr(ys, xs))))
    mask_constructor(ctx, K, f"{M2}:mask_2d_circular_anti_annular_from", ["inner_radius", "outer_radius", "outer_radius_2_scaled"],
                     lambda ys, xs: OR(CMP(rr(ys, xs), "<=", Ri), AND(CMP(rr(ys, xs), "<=", Ro2), CMP(Ro, "<=", rr(ys, xs)))))
    mask_constructor(ctx, K, f"{M2}:mask_2d_elliptical_from", ["major_axis_radius", "axis_ratio", "angle"],
                     lambda ys, xs: CMP(ell(ys, xs, S_("angle"), S_("axis_ratio")), "<=", S_("major_axis_radius")))
    mask_constructor(ctx, K, f"{M2}:mask_2d_elliptical_annular_from", ["inner_major_axis_radius", "inner_axis_ratio", "inner_phi", "outer_major_axis_radius", "outer_axis_ratio", "outer_phi"],
                     lambda ys, xs: AND(CMP(S_("inner_major_axis_radius"), "<=", ell(ys, xs, S_("inner_phi"), S_("inner_axis_ratio"))),
                                        CMP(ell(ys, xs, S_("outer_phi"), S_("outer_axis_ratio")), "<=", S_("outer_major_axis_radius"))))
    wiring(ctx, p, K)


def compositions(ctx, p, K):
    rule = "C02.inverse"
    geo = dict(GEO)
    i, j = S_("i"), S_("j")
    # centre of (i, j) -> index  ==  (i, j):   int(i + 1/2) and int(j + 1/2) for integer atoms i, j
    S1 = K.summarize(p.func(f"{GU}:scaled_coordinates_2d_from"), dict(geo, pixel_coordinates_2d=(i, j), origins=(oy, ox)))
    c = S1.ret
    if isinstance(c, tuple) and len(c) == 2:
        S2 = K.summarize(p.func(f"{GU}:pixel_coordinates_2d_from"), dict(geo, scaled_coordinates_2d=c, origins=(oy, ox)))
        got = S2.ret
        want = (K.to_int(i + HALF), K.to_int(j + HALF))
        ok = isinstance(got, tuple) and got == want
        ctx.ob(rule, "centre->index->centre", ok, where=p.func(f"{GU}:pixel_coordinates_2d_from"), node=None, construct=repr(got)[:200],
               message=f"index of the centre of pixel (i, j) must reduce to (int(i + 1/2), int(j + 1/2)) = (i, j) for all shapes, scales and origins; expected {want}")
    # scaled -> continuous pixels -> scaled == identity
    G = Ref("G")
    Sa = K.summarize(p.func(f"{GU}:grid_pixels_2d_slim_from"), dict(geo, grid_scaled_2d_slim=G, origin=(oy, ox)))
    Sb = K.summarize(p.func(f"{GU}:grid_scaled_2d_slim_from"), dict(geo, grid_pixels_2d_slim=Ref("P"), origin=(oy, ox)))
    oa, ob = Sa.returned_array_names(), Sb.returned_array_names()
    if len(oa) == 1 and len(ob) == 1:
        fa = {s.idx[1]: value_poly(s.value) for s in Sa.stores_to(oa[0]) if len(s.idx) == 2}
        ka = {s.idx[1]: S_(s.loops[0].var) for s in Sa.stores_to(oa[0]) if len(s.idx) == 2}
        good = True
        det = []
        for s in Sb.stores_to(ob[0]):
            if len(s.idx) != 2:
                continue
            comp = s.idx[1]
            kb = S_(s.loops[0].var)
            v = value_poly(s.value)

            def sub(at, comp=comp, kb=kb):
                if at[0] == "i" and at[1] == "P" and len(at[2]) == 2 and at[2][0] == kb:
                    f_ = fa.get(at[2][1])
                    if f_ is None:
                        return None
                    # rename the producer's loop atom to the consumer's
                    return f_.subst(lambda a2: Poly.atom(("i", "G", (kb,) + a2[2][1:])) if (a2[0] == "i" and a2[1] == "G") else None)
                return None
            if v is None:
                # (e.g. a value that depends on an optional argument the contract does not mention)
                det.append(f"comp {comp!r}: value is not an algebraic form")
                good = False
                continue
            r = v.subst(sub)
            det.append(f"comp {comp!r}: {short(r, 80)}")
            good = good and r == E_("G", kb, comp)
        ctx.ob(rule, "scaled->pixels->scaled", good and len(det) == 2, where=p.func(f"{GU}:grid_scaled_2d_slim_from"), node=None, construct="; ".join(det),
               message="grid_scaled_2d_slim_from(grid_pixels_2d_slim_from(G)) must be G component-wise for all shapes, scales, origins")


def _install_self_support(K: KEval):
    """class-layer evaluation: attribute reads on a SelfRef return the given field forms or evaluate the property"""
    if getattr(K, "_self_support", False):
        return
    K._self_support = True
    orig_ev = K.ev

    def ev(e, env, S, f, guards, loops, depth, hint=None):
        if isinstance(e, ast.Attribute) and isinstance(e.value, ast.Name) and e.value.id == "self":
            base = env.get("self")
            if isinstance(base, SelfRef):
                key = "self." + e.attr
                if key in base.fields:
                    return base.fields[key]
                v = base.prop_eval(e.attr)
                if v is not None:
                    return v
        return orig_ev(e, env, S, f, guards, loops, depth, hint)
    K.ev = ev


_G = "autoarray/geometry/geometry_util.py"
_M = "autoarray/mask/mask_2d_util.py"
_G2 = "autoarray/structures/grids/grid_2d_util.py"
CONTROLS = [
    Control("grid from mask traverses shape[1] rows", _G2, in_func("grid_2d_slim_via_mask_from", "for y in range(mask_2d.shape[0]):", "for y in range(mask_2d.shape[1]):"), "C02.centre"),
    Control("grid from mask: row counter starts at 1", _G2, in_func("grid_2d_slim_via_mask_from", "    index = 0\n", "    index = 1\n"), "C02.centre"),
    Control("origin sign flipped in central scaled coordinate", _G, in_func("central_scaled_coordinate_2d_from", "central_pixel_coordinates[1] - (origin[1] / pixel_scales[1])", "central_pixel_coordinates[1] + (origin[1] / pixel_scales[1])"), "C02.centre"),
    Control("rounding offset 0.4", _G, in_func("pixel_coordinates_2d_from", "+ central_pixel_coordinates[0]\n        + 0.5", "+ central_pixel_coordinates[0]\n        + 0.4"), "C02.index"),
    Control("flattened index uses shape[0]", _G, in_func("grid_pixel_indexes_2d_slim_from", "grid_pixels_2d_slim[slim_index, 0] * shape_native[1]", "grid_pixels_2d_slim[slim_index, 0] * shape_native[0]"), "C02.index"),
    Control("x divided by y pixel scale", _G, in_func("grid_pixel_centres_2d_slim_from", "(grid_scaled_2d_slim[slim_index, 1] / pixel_scales[1])", "(grid_scaled_2d_slim[slim_index, 1] / pixel_scales[0])"), "C02.index"),
    Control("mask centre x uses y scale (seed C02/2)", _M, in_func("mask_2d_centres_from", "(centre[1] / pixel_scales[1])", "(centre[1] / pixel_scales[0])"), "C02.shape-mask"),
    Control("circular mask strict inequality", _M, in_func("mask_2d_circular_from", "if r_scaled <= radius:", "if r_scaled < radius:"), "C02.shape-mask"),
    Control("elliptical annulus compares with the wrong radius", _M, in_func("mask_2d_elliptical_annular_from", "and outer_r_scaled_elliptical <= outer_major_axis_radius", "and outer_r_scaled_elliptical <= inner_major_axis_radius"), "C02.shape-mask"),
    Control("geometry passes grid origin (seed C02/1)", "autoarray/geometry/geometry_2d.py", in_func("Geometry2D.grid_pixel_indexes_2d_from", "origin=self.origin,", "origin=grid_scaled_2d.origin,"), "C02.wiring"),
    Control("extent order swapped", "autoarray/geometry/geometry_2d.py", in_func("Geometry2D.extent", "self.scaled_minima[1],\n            self.scaled_maxima[1],\n            self.scaled_minima[0],\n            self.scaled_maxima[0],", "self.scaled_minima[0],\n            self.scaled_maxima[0],\n            self.scaled_minima[1],\n            self.scaled_maxima[1],"), "C02.extent"),
    Control("1-D grid from mask scales the origin (seed C02/4)", "autoarray/structures/grids/grid_1d_util.py", in_func("grid_1d_slim_via_mask_from", "grid_1d[index] = (x - centres_scaled[0]) * pixel_scales[0]", "grid_1d[index] = (x - centres_scaled[0] + origin[0]) * pixel_scales[0]"), "C02.centre"),
    Control("grid from mask off by half a pixel", "autoarray/structures/grids/grid_2d_util.py", in_func("grid_2d_slim_via_mask_from", "grid_slim[index, 1] = (x - centres_scaled[1]) * pixel_scales[1]", "grid_slim[index, 1] = (x - centres_scaled[1] + 0.5) * pixel_scales[1]"), "C02.centre"),
    Control("twin: algebraic rearrangement", _G, in_func("scaled_coordinates_2d_from", "y_pixel = pixel_scales[0] * -(\n        pixel_coordinates_2d[0] - central_scaled_coordinates[0]\n    )", "y_pixel = (central_scaled_coordinates[0] - pixel_coordinates_2d[0]) * pixel_scales[0]"), None, twin=True),
    Control("twin: annulus test written the other way round", _M, in_func("mask_2d_circular_annular_from", "if outer_radius >= r_scaled >= inner_radius:", "if inner_radius <= r_scaled and r_scaled <= outer_radius:"), None, twin=True),
]
