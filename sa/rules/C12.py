"""C12 - all geometry is covariant under translation of the coordinate origin (DESIGN.md section 4, C12)."""
from __future__ import annotations

import ast
from fractions import Fraction

from ..keval import KEval, Ref, Cond, Const, Top, SelfObj
from ..poly import Poly, ZERO, ONE
from ..forms import value_poly, short, expr_poly
from .. import wire, geom
from ..model import norm_text, AnchorMissing
from ..controls import Control
from ..mutate import in_func

S_ = Poly.sym
E_ = Poly.elem
H, W, s0, s1, oy, ox, dy, dx = (S_(n) for n in ("H", "W", "s0", "s1", "oy", "ox", "dy", "dx"))

# --- G1 / G2 exceptions: (caller key, callee name) -> reason.  Every entry is a single named site; the side condition (where there is one) is re-checked on every run.
EXCEPTIONS = {
    ("autoarray.dataset.imaging.dataset:Imaging.__init__", "no_mask"): "PSF: a kernel's coordinates are relative to its own centre (side condition: the value only flows into self.psf)",
    ("autoarray.operators.over_sampling.iterate:OverSamplerIterate.threshold_mask_from", "all_false"): "escape filter: the temporary mask only supplies an all-True array; the mask actually returned is rebuilt with the parent's origin (side condition checked)",
    ("autoarray.layout.layout:Layout1D.extract_overscan_array_1d_from", "no_mask"): "layout extraction window: a detector region, not a sky-coordinate structure",
    ("autoarray.layout.layout:Layout2D.extract_parallel_overscan_array_2d_from", "no_mask"): "layout extraction window",
    ("autoarray.layout.layout:Layout2D.extract_serial_overscan_array_from", "no_mask"): "layout extraction window",
    ("autoarray.structures.arrays.uniform_2d:AbstractArray2D.binned_across_rows", "no_mask"): "1-D reduction of a 2-D array: the abscissa is a pixel offset along one axis, not a sky coordinate pair",
    ("autoarray.structures.arrays.uniform_2d:AbstractArray2D.binned_across_columns", "no_mask"): "1-D reduction of a 2-D array",
    ("autoarray.structures.decorators.project_grid:project_grid.<locals>.wrapper", "no_mask"): "1-D radial projection: the abscissa is a radius from the profile centre",
    ("autoarray.structures.decorators.to_projected:to_projected.<locals>.wrapper", "no_mask"): "1-D radial projection",
    ("autoarray.dataset.preprocess:background_noise_map_via_edges_from", "full"): "NOTE: drops the image origin, but is not one of the entry points C12 names (reported as a note, not a violation)",
    ("autoarray.dataset.abstract.dataset:AbstractDataset.__init__", "no_mask"): "NOTE: visualisation-only noise map built from a covariance matrix (also binds pixel_scales to a shape); not an entry point C12 names",
    ("autoarray.operators.contour:Grid2DContour.contour_array", "grid_pixel_centres_2d_slim_from"): "NOTE: Grid2DContour carries no origin of its own; not an entry point C12 names",
    ("autoarray.operators.contour:Grid2DContour.contour_list", "grid_scaled_2d_slim_from"): "NOTE: as above",
    ("autoarray.mask.derive.mask_1d:DeriveMask1D.to_mask_2d", "__init__"): "NOTE: 1-D -> 2-D mask conversion uses a literal origin; 1-D projections are outside C12's entry points",
}


def _reads_origin(cls, name: str, depth: int = 0, seen=None) -> bool:
    """does property / method `name` of cls read the object's origin (directly, or through other members of the same object)?"""
    seen = seen if seen is not None else set()
    if cls is None or depth > 3 or name in seen:
        return False
    seen.add(name)
    m = cls.lookup(name)
    if m is None:
        return False
    for n in m.body_nodes():
        if isinstance(n, ast.Attribute) and isinstance(n.value, ast.Name) and n.value.id == "self":
            if n.attr in geom.POINT_ATTRS or _reads_origin(cls, n.attr, depth + 1, seen):
                return True
    return False


def _origin_carrier(p, f, s):
    """the name of an argument of the call whose value is a member of the parent object that is itself computed from the parent's origin
    (`centres_scaled=self.central_scaled_coordinates`): the origin is handed on, only not under its own name"""
    if f.cls is None:
        return None
    for k, v in s["bind"].items():
        if k == s["oname"]:
            continue
        for n in ast.walk(wire.inline_locals(f, v)):
            if isinstance(n, ast.Attribute) and isinstance(n.value, ast.Name) and n.value.id == "self" and n.attr not in geom.GEO_ATTRS and _reads_origin(f.cls, n.attr):
                return f"`{k}={norm_text(v)[:60]}`"
    return None


def forwarding_rule(ctx, p):
    sites = geom.scan(p)
    ctx.require_count("C12.forward", "calls of coordinate-origin callables", len(sites), 120)
    ctx.stats["C12.origin_callables"] = len(geom.origin_table(p))
    used_exc = set()
    n_bound = n_missing_ok = 0
    for s in sites:
        f, c, t = s["func"], s["call"], s["callee"]
        ek = (f.key, t.name)
        inst = f"{f.key}->{t.cls.name + '.' if t.cls else ''}{t.name}@{norm_text(c)[:40]}"
        if s["bound"] is None:
            in_scope = bool(s["own_origin"]) or bool(s["roots"])
            if not in_scope:
                n_missing_ok += 1
                continue
            if ek in EXCEPTIONS:
                used_exc.add(ek)
                if EXCEPTIONS[ek].startswith("NOTE"):
                    ctx.note(f"{f.where(c)} {f.qualname}: {t.name}(...) without origin although {s['roots'] or s['own_origin']} is in scope - {EXCEPTIONS[ek][6:]}")
                continue
            carried = _origin_carrier(p, f, s)
            if carried:
                ctx.ob("C12.forward", inst, True, detail=f"`{s['oname']}` is not passed by name, but the origin travels inside argument {carried} (a quantity of the parent computed from its origin); what the callee computes from it is C02's question", nontrivial=False)
                continue
            ctx.ob("C12.forward", inst, False, where=f, node=c, construct=f"{norm_text(c.func)}({', '.join(sorted(s['bind']))}) with geometry from {s['roots'] or s['own_origin']}",
                   message=f"`{s['oname']}` is not passed although the parent's geometry is in scope: the result is rebuilt around (0.0, 0.0) and forgets where its parent was")
            continue
        n_bound += 1
        b = s["bound"]
        lit = isinstance(b, ast.Tuple) and all(isinstance(x, ast.Constant) for x in b.elts)
        if lit:
            if geom.literal_pixel_units(s["bind"]) or ek in EXCEPTIONS:
                if ek in EXCEPTIONS:
                    used_exc.add(ek)
                ctx.ob("C12.kind", inst, True, detail="literal origin next to literal pixel scales (pixel-unit computation)", nontrivial=False)
                continue
            if not s["roots"] and not s["own_origin"]:
                ctx.ob("C12.kind", inst, True, detail="literal origin, no parent geometry in scope", nontrivial=False)
                continue
        ok, why = geom.point_kind(b, f)
        ctx.ob("C12.kind", inst, ok, where=f, node=c, construct=f"{s['oname']}={norm_text(b)[:140]}", message=f"the origin handed on is not a point of the parent's coordinate system: {why}", detail=why)
    ctx.stats["C12.sites_origin_bound"] = n_bound
    ctx.stats["C12.sites_no_geometry_in_scope"] = n_missing_ok
    # side conditions of exceptions
    f = p.func("autoarray.operators.over_sampling.iterate:OverSamplerIterate.threshold_mask_from")
    rets = wire.returns_of(f)
    okr = len(rets) == 1 and isinstance(rets[0].value, ast.Call) and norm_text(rets[0].value.func) == "Mask2D" and geom.point_kind(wire.kw(rets[0].value).get("origin"), f)[0] if rets and wire.kw(rets[0].value).get("origin") is not None else False
    ctx.ob("C12.forward", f.key + ":escape", bool(okr), where=f, node=rets[0] if rets else f.node, construct=norm_text(rets[0].value)[:140] if rets else "", message="the mask returned by threshold_mask_from must carry the parent's origin (side condition of its exception)")
    im = p.func("autoarray.dataset.imaging.dataset:Imaging.__init__")
    psf_sites = [n for n in im.body_nodes() if isinstance(n, ast.Assign) and isinstance(n.value, ast.Call) and norm_text(n.value.func) == "Kernel2D.no_mask"]
    ctx.ob("C12.forward", im.key + ":psf-only", all(norm_text(n.targets[0]) == "psf" for n in psf_sites) and len(psf_sites) == 1, where=im, node=psf_sites[0] if psf_sites else im.node, construct="", message="the origin-free rebuild in Imaging.__init__ must only concern the PSF")
    for ek in EXCEPTIONS:
        if ek not in used_exc:
            ctx.note(f"exception {ek} no longer matches a site (can be removed from the table)")


def translate(v, coord_arrays=(), coord_scalars=()):
    """the form obtained when the origin and every coordinate-valued input are translated by (dy, dx)"""
    def sub(at):
        if at == ("s", "oy"):
            return oy + dy
        if at == ("s", "ox"):
            return ox + dx
        if at[0] == "s" and at[1] in coord_scalars:
            return Poly.atom(at) + (dy if coord_scalars[at[1]] == 0 else dx)
        if at[0] == "i" and at[1] in coord_arrays and at[2] and at[2][-1] in (ZERO, ONE):
            return Poly.atom(at) + (dy if at[2][-1] == ZERO else dx)
        return None
    return v.subst(sub)


def covariance_rule(ctx, p, K):
    rule = "C12.covariance"
    GU = "autoarray.geometry.geometry_util"
    geo = dict(shape_native=(H, W), pixel_scales=(s0, s1))
    G = Ref("G")
    M = Ref("M", shape=(H, W))

    def check_tuple(key, args, kind, coord_scalars=None):
        f = p.func(key)
        S = K.summarize(f, dict(args))
        got = S.ret
        ok = isinstance(got, tuple) and all(isinstance(g, Poly) for g in got)
        det = []
        if ok:
            for comp, g in enumerate(got):
                t = translate(g, coord_scalars=coord_scalars or {})
                want = g + ((dy if comp == 0 else dx) if kind == "coordinate" else ZERO)
                if len(got) == 1:
                    want = g + (dx if kind == "coordinate" else ZERO)
                    t = translate(g, coord_scalars=coord_scalars or {})
                det.append(f"comp {comp}: shift {t - g!r}")
                ok = ok and t == want
        ctx.ob(rule, key, ok, where=f, node=f.node, construct="; ".join(det)[:200],
               message=("a coordinate output must move by exactly the translation d" if kind == "coordinate" else "an index output must not change when the origin and the queried coordinates are translated together"))

    def check_stores(key, args, kind, coord_arrays=(), comps=2):
        f = p.func(key)
        S = K.summarize(f, dict(args))
        out = S.returned_array_names()
        ok = len(out) == 1
        det = []
        if ok:
            sts = S.stores_to(out[0])
            ok = len(sts) >= 1
            for s in sts:
                v = value_poly(s.value)
                if not isinstance(v, Poly) or not s.idx:
                    ok = False
                    continue
                comp = s.idx[-1].const_value() if isinstance(s.idx[-1], Poly) and comps == 2 else None
                t = translate(v, coord_arrays=coord_arrays)
                if kind == "coordinate":
                    want = v + (dy if comp == 0 else dx)
                else:
                    want = v
                det.append(f"[..{comp}] shift {t - v!r}")
                ok = ok and t == want
        ctx.ob(rule, key, ok, where=f, node=f.node, construct="; ".join(det)[:200],
               message=("every coordinate written must move by exactly d (coefficient 1 of its own origin component, 0 of the other)" if kind == "coordinate" else "indices must be unchanged when origin and input coordinates are translated together"))
    yq, xq, i, j = S_("yq"), S_("xq"), S_("i"), S_("j")
    check_tuple(f"{GU}:scaled_coordinates_2d_from", dict(geo, pixel_coordinates_2d=(i, j), origins=(oy, ox)), "coordinate")
    check_tuple(f"{GU}:pixel_coordinates_2d_from", dict(geo, scaled_coordinates_2d=(yq, xq), origins=(oy, ox)), "index", coord_scalars={"yq": 0, "xq": 1})
    check_stores(f"{GU}:grid_scaled_2d_slim_from", dict(geo, grid_pixels_2d_slim=Ref("P"), origin=(oy, ox)), "coordinate")
    check_stores(f"{GU}:grid_pixels_2d_slim_from", dict(geo, grid_scaled_2d_slim=G, origin=(oy, ox)), "index", coord_arrays=("G",))
    check_stores(f"{GU}:grid_pixel_centres_2d_slim_from", dict(geo, grid_scaled_2d_slim=G, origin=(oy, ox)), "index", coord_arrays=("G",))
    check_stores(f"{GU}:grid_pixel_centres_2d_from", dict(geo, grid_scaled_2d=G, origin=(oy, ox)), "index", coord_arrays=("G",))
    check_stores("autoarray.structures.grids.grid_2d_util:grid_2d_slim_via_mask_from", dict(mask_2d=M, pixel_scales=(s0, s1), origin=(oy, ox)), "coordinate")
    check_stores("autoarray.operators.over_sampling.over_sample_util:grid_2d_slim_over_sampled_via_mask_from", dict(mask_2d=M, pixel_scales=(s0, s1), sub_size=Ref("sub_size"), origin=(oy, ox)), "coordinate")
    # extent / minima / maxima of Geometry2D
    c = p.cls("autoarray.geometry.geometry_2d:Geometry2D")
    so = lambda: SelfObj(c, {"shape_native": (H, W), "pixel_scales": (s0, s1), "origin": (oy, ox)}, K)
    for name, shifts in (("scaled_minima", (dy, dx)), ("scaled_maxima", (dy, dx)), ("extent", (dx, dx, dy, dy)), ("shape_native_scaled", (ZERO, ZERO)), ("central_pixel_coordinates", (ZERO, ZERO))):
        v = so().attr(name, 0)
        ok = isinstance(v, tuple) and len(v) == len(shifts) and all(isinstance(x, Poly) and translate(x) == x + sh for x, sh in zip(v, shifts))
        ctx.ob(rule, f"{c.key}.{name}", ok, where=c.lookup(name), node=None, construct=repr(v)[:160], message=f"expected shifts {tuple(map(repr, shifts))} under translation of the origin")


def raw_origin_rule(ctx, p):
    """an origin read as `<X>.origin` that enters a sum directly (not through a coordinate util): a sum of kinds is a point of the parent's frame only when the origin
    counts +1 in it; it may count -1 only against a point (the difference is then a displacement).  Scaled origins (inside a product) belong to the util layer and
    are judged by C12.covariance; only the purely additive uses are decided here."""
    rule = "C12.kind"

    def is_origin(e):
        while True:
            if isinstance(e, ast.Call) and norm_text(e.func) in ("np.array", "np.asarray", "numpy.array", "numpy.asarray") and len(e.args) == 1:
                e = e.args[0]
            elif isinstance(e, ast.Subscript):
                e = e.value
            else:
                break
        return isinstance(e, ast.Attribute) and e.attr == "origin"
    n_sites = 0
    for f in p.all_functions():
        if f.module.name.startswith(("autoarray.plot", "autoarray.fixtures")) or ".mock" in f.module.name:
            continue
        tops = []
        inner = set()
        for n in f.body_nodes():
            if isinstance(n, ast.BinOp) and isinstance(n.op, (ast.Add, ast.Sub)) and id(n) not in inner:
                for sub in ast.walk(n):
                    if sub is not n and isinstance(sub, ast.BinOp) and isinstance(sub.op, (ast.Add, ast.Sub)):
                        # only the sub-sums that are direct additive operands belong to this chain
                        pass
                tops.append(n)
                stack = [n.left, n.right]
                while stack:
                    q = stack.pop()
                    if isinstance(q, ast.UnaryOp) and isinstance(q.op, ast.USub):
                        stack.append(q.operand)
                    elif isinstance(q, ast.BinOp) and isinstance(q.op, (ast.Add, ast.Sub)):
                        inner.add(id(q))
                        stack.extend([q.left, q.right])
        for top in tops:
            if id(top) in inner:
                continue
            terms = geom._terms(top)
            os_ = [(sg, t) for sg, t in terms if is_origin(t)]
            if not os_:
                continue
            n_sites += 1
            coef = sum(sg for sg, _ in os_)
            others = [t for sg, t in terms if not is_origin(t) and sg == 1]
            ok = coef == 1 or (coef == -1 and any(geom.expr_is_point(f, wire.inline_locals(f, t)) or geom.point_kind(t, f)[0] for t in others)) or (coef == 0 and len(os_) == 2)
            ctx.ob(rule, f"{f.key}:raw-origin@{norm_text(os_[0][1])}", ok, where=f, node=top, construct=norm_text(top)[:200],
                   message="an origin added to displacements gives a coordinate of the parent's frame only when it counts exactly +1 in the sum (translating the origin by d must translate the result by d, not -d or 2d); it may be subtracted only from a point")
    ctx.require_count(rule, "sums an origin attribute enters directly", n_sites, 8)


def derived_rule(ctx, p):
    """specific derived objects named by the property re-pass the parent's geometry"""
    rule = "C12.derived"
    # grid_pixels_in_mask_pixels_from forwards its own origin (two cooperating sites: callers pass mask.origin, the util must use it)
    f = p.func("autoarray.structures.grids.grid_2d_util:grid_pixels_in_mask_pixels_from")
    callee = p.func("autoarray.geometry.geometry_util:grid_pixel_centres_2d_slim_from")
    cs = wire.calls_to(p, f, callee.key)
    got = {k: norm_text(v) for k, v in wire.kw(cs[0], callee).items()} if len(cs) == 1 else {}
    ctx.ob(rule, f.key, got == {"grid_scaled_2d_slim": "grid", "shape_native": "shape_native", "pixel_scales": "pixel_scales", "origin": "origin"}, where=f, node=cs[0] if cs else f.node, construct=str(got), message="the count of mesh pixels per image pixel must locate the points with the caller's shape, scales and origin")
    for key in ("autoarray.inversion.pixelization.image_mesh.abstract:AbstractImageMesh.mesh_pixels_per_image_pixels_from", "autoarray.inversion.pixelization.mappers.mapper_grids:MapperGrids.mesh_pixels_per_image_pixels"):
        g = p.func(key)
        cs = wire.calls_to(p, g, f.key)
        got = {k: norm_text(wire.strip_np_array(v)) for k, v in wire.kw(cs[0], f).items()} if len(cs) == 1 else {}
        ok = got.get("origin") in ("mask.origin", "self.mask.origin") and got.get("pixel_scales") in ("mask.pixel_scales", "self.mask.pixel_scales") and got.get("shape_native") in ("mask.shape_native", "self.mask.shape_native")
        ctx.ob(rule, key, ok, where=g, node=cs[0] if cs else g.node, construct=str(got), message="the mask's own shape, pixel scales and origin must be handed to the counting routine")
    # Grid2D.from_mask / derive_grid / over-sampler / border relocator sub grid: grid of the mask with the mask's scales and origin
    spec = [
        ("autoarray.mask.mask_2d:Mask2D.mask_centre", "autoarray.structures.grids.grid_2d_util:grid_2d_slim_via_mask_from", {"mask_2d": "self", "pixel_scales": "self.pixel_scales", "origin": "self.origin"}),
        ("autoarray.mask.derive.grid_2d:DeriveGrid2D.unmasked", "autoarray.structures.grids.grid_2d_util:grid_2d_slim_via_mask_from", {"mask_2d": "self.mask", "pixel_scales": "self.mask.pixel_scales", "origin": "self.mask.origin"}),
        ("autoarray.mask.derive.grid_2d:DeriveGrid2D.all_false", "autoarray.structures.grids.grid_2d_util:grid_2d_slim_via_shape_native_from", {"shape_native": "self.mask.shape", "pixel_scales": "self.mask.pixel_scales", "origin": "self.mask.origin"}),
        ("autoarray.inversion.pixelization.border_relocator:BorderRelocator.sub_grid", "autoarray.operators.over_sampling.over_sample_util:grid_2d_slim_over_sampled_via_mask_from", {"mask_2d": "self.mask", "pixel_scales": "self.mask.pixel_scales", "sub_size": "self.sub_size", "origin": "self.mask.origin"}),
    ]
    for key, ck, want in spec:
        g = p.func(key)
        callee = p.func(ck)
        cs = wire.calls_to(p, g, ck)
        got = {k: norm_text(wire.strip_np_array(v)) for k, v in wire.kw(cs[0], callee).items()} if len(cs) == 1 else {}
        ctx.ob(rule, key, got == want, where=g, node=cs[0] if cs else g.node, construct=str(got), message=f"expected {want}")
    # radial projection: extent of the grid's own geometry and the requested centre
    g = p.func("autoarray.structures.grids.uniform_2d:Grid2D.grid_2d_radial_projected_from")
    callee = p.func("autoarray.structures.grids.grid_2d_util:grid_scaled_2d_slim_radial_projected_from")
    cs = wire.calls_to(p, g, callee.key)
    got = {k: norm_text(v) for k, v in wire.kw(cs[0], callee).items()} if len(cs) == 1 else {}
    ctx.ob(rule, g.key, got.get("extent") == "self.geometry.extent" and got.get("centre") == "centre" and got.get("pixel_scales") == "self.mask.pixel_scales", where=g, node=cs[0] if cs else g.node, construct=str(got),
           message="the radial projection must run from the requested centre inside the grid's own extent")
    # mask centre = bounding-box centre of the mask's own pixel-centre grid (a point)
    mc = p.func("autoarray.mask.mask_2d:Mask2D.mask_centre")
    rets = wire.returns_of(mc)
    okc = False
    if len(rets) == 1 and isinstance(rets[0].value, ast.Call) and norm_text(rets[0].value.func).endswith("grid_2d_centre_from"):
        inner = wire.see_name(mc, wire.kw(rets[0].value).get("grid_2d_slim")) if wire.kw(rets[0].value).get("grid_2d_slim") is not None else None
        okc = isinstance(inner, ast.Call) and norm_text(inner.func).endswith("grid_2d_slim_via_mask_from")   # (its arguments are decided by the obligation above)
    ctx.ob(rule, mc.key + ":centre", okc, where=mc, node=mc.node, construct=norm_text(rets[0].value) if rets else "", message="the mask centre must be the centre of the mask's own coordinate grid")


_EXT_FN = {f"call:{m}.{f}" for m in ("np", "numpy") for f in ("min", "max", "amin", "amax", "nanmin", "nanmax")}


class _ExtMatch:
    def __init__(self, col):
        self.col = col

    def group(self, k):
        return self.col


class _Ext:
    """extremum of one coordinate column of a grid: np.min(grid[:, k]) as a canonical application atom"""
    @staticmethod
    def match(at):
        if not (isinstance(at, tuple) and at[0] == "f" and at[1] in _EXT_FN and len(at[2]) == 1 and isinstance(at[2][0], Poly)):
            return None
        inner = [a for a in at[2][0].atoms()]
        if len(inner) == 1 and inner[0][0] == "f" and inner[0][1] == "index" and len(inner[0][2]) == 3 and at[2][0] == Poly.atom(inner[0]):
            col = inner[0][2][2]
            sl = inner[0][2][1]
            if isinstance(col, Poly) and col.is_const() and isinstance(sl, Poly) and sl == Poly.sym(":"):
                return _ExtMatch(str(int(col.const_value())) if hasattr(col, "const_value") else repr(col))
        return None


_EXT = _Ext


def extrema_rule(ctx, p):
    """geometry derived from the extrema of a coordinate grid must move with the grid: origin shifts by d, pixel scales do not change"""
    rule = "C12.covariance"
    table = geom.origin_table(p)
    n = 0
    for f in p.all_functions():
        if f.module.name.startswith(("autoarray.plot", "autoarray.fixtures")) or ".mock" in f.module.name:
            continue
        src_txt = None
        for c in f.calls():
            tg = p.resolve_call(c, f)
            if not tg or tg[0].key not in table:
                continue
            b, _ = p.bind(c, tg[0])
            o = b.get(table[tg[0].key])
            ps = b.get("pixel_scales")
            res = lambda nm: (lambda r: None if r is nm else r)(wire.resolve_local(f, nm, depth=1))
            o = wire.resolve_local(f, o) if o is not None else None
            ps = wire.resolve_local(f, ps) if ps is not None else None
            # (every temporary, unpacked tuple and new helper between the extrema and the origin is read through)
            if o is not None and not isinstance(o, ast.Tuple):
                o = wire.inline_locals(f, o, unpack=True)
            if not isinstance(o, ast.Tuple) or len(o.elts) != 2:
                continue
            o = wire.inline_locals(f, o, unpack=True)
            ps = wire.inline_locals(f, ps, unpack=True) if ps is not None else None
            polys = [expr_poly(e, res) for e in o.elts]
            ext = {a for pl in polys for a in pl.all_atoms() if _EXT.match(a)}
            if not ext:
                continue
            n += 1
            d = [Poly.sym("d0"), Poly.sym("d1")]

            def shift(pl):
                return pl.subst(lambda at: (Poly.atom(at) + d[int(_EXT.match(at).group(2))]) if _EXT.match(at) else None)
            ok = all(shift(polys[k]) - polys[k] == d[k] for k in (0, 1))
            det = f"origin = ({short(polys[0], 80)}, {short(polys[1], 80)})"
            if ok and isinstance(ps, ast.Tuple) and len(ps.elts) == 2:
                pp = []
                for e in ps.elts:
                    while isinstance(e, ast.Call) and norm_text(e.func) == "float" and e.args:
                        e = e.args[0]
                    pp.append(expr_poly(e, res))
                ok = all(shift(q) - q == ZERO for q in pp)
                det += f"; pixel_scales = ({short(pp[0], 60)}, {short(pp[1], 60)})"
            ctx.ob(rule, f"{f.key}: geometry from grid extrema", ok, where=f, node=c, construct=det,
                   message="a box built from the extrema of a coordinate grid must translate with the grid: its centre shifts by exactly d (component k from the extrema of column k) and its size does not depend on d; "
                           "a relative margin (min * (1 + buffer)) makes the box depend on where the grid sits")
    ctx.require_count(rule, "geometries derived from grid extrema", n, 1)


def run(ctx):
    p = ctx.p
    K = KEval(p)
    ctx.rule("C12.forward", "G1: wherever a coordinate-origin callable is called with the parent's geometry (or the caller's own origin parameter) in scope, `origin` is passed on; exceptions are single named sites with a reason")
    ctx.rule("C12.kind", "G2: the origin passed on is point-kinded: X.origin, an origin parameter, X.mask_centre, or a tuple whose k-th element is origin component k plus component-k displacements (axis purity)")
    ctx.rule("C12.covariance", "util layer: translating the origin (and coordinate inputs) by d shifts every coordinate output by exactly d and leaves every index output unchanged (substitution on canonical forms)")
    ctx.rule("C12.derived", "derived objects named by the property (mask centre, derived grids, sub-grids, mesh-pixel counts, radial projections) re-pass the parent's shape, scales and origin")
    forwarding_rule(ctx, p)
    covariance_rule(ctx, p, K)
    extrema_rule(ctx, p)
    derived_rule(ctx, p)
    raw_origin_rule(ctx, p)


_G = "autoarray/structures/grids/uniform_2d.py"
CONTROLS = [
    Control("padded grid drops the origin (original defect)", _G, in_func("Grid2D.padded_grid_from", "            pixel_scales=self.mask.pixel_scales,\n            origin=self.mask.origin,\n", "            pixel_scales=self.mask.pixel_scales,\n"), "C12.forward"),
    Control("blurring mask rebuilt without origin", "autoarray/mask/derive/mask_2d.py", in_func("DeriveMask2D.blurring_from", "            pixel_scales=self.mask.pixel_scales,\n            origin=self.mask.origin,\n", "            pixel_scales=self.mask.pixel_scales,\n"), "C12.forward"),
    Control("subtracted grid mixes origin components (seed C12/1)", _G, in_func("Grid2D.subtracted_from", "origin=(self.origin[0] - offset[0], self.origin[1] - offset[1]),", "origin=(self.origin[0] - offset[0], self.origin[0] - offset[1]),"), "C12.kind"),
    Control("zoom mask origin is a bare displacement (original defect)", "autoarray/mask/mask_2d.py", in_func("Mask2D.zoom_mask_unmasked", "            origin=(\n                self.origin[0] + self.zoom_offset_scaled[0],\n                self.origin[1] + self.zoom_offset_scaled[1],\n            ),", "            origin=self.zoom_offset_scaled,"), "C12.kind"),
    Control("mesh pixel count util ignores its origin (seed C12/2)", "autoarray/structures/grids/grid_2d_util.py", in_func("grid_pixels_in_mask_pixels_from", "        pixel_scales=pixel_scales,\n        origin=origin,\n    ).astype(\"int\")", "        pixel_scales=pixel_scales,\n    ).astype(\"int\")"), "C12.forward"),
    Control("origin enters the central coordinate with x scale", "autoarray/geometry/geometry_util.py", in_func("central_scaled_coordinate_2d_from", "(origin[1] / pixel_scales[1])", "(origin[1] / pixel_scales[0])"), "C12.covariance"),
    Control("over-sampled grid ignores origin[0]", "autoarray/operators/over_sampling/over_sample_util.py", in_func("grid_2d_slim_over_sampled_via_mask_from", "shape_native=mask_2d.shape, pixel_scales=pixel_scales, origin=origin", "shape_native=mask_2d.shape, pixel_scales=pixel_scales, origin=(0.0, origin[1])"), None),
    Control("simulator drops the image origin again (original defect)", "autoarray/dataset/imaging/simulator.py", in_func("SimulatorImaging.via_image_from", "            pixel_scales=image.pixel_scales,\n            origin=image.origin,\n        )\n\n        image = Array2D(values=image, mask=mask)", "            pixel_scales=image.pixel_scales,\n        )\n\n        image = Array2D(values=image, mask=mask)"), "C12.forward"),
    Control("twin: subtracted origin with reordered terms", _G, in_func("Grid2D.subtracted_from", "origin=(self.origin[0] - offset[0], self.origin[1] - offset[1]),", "origin=(-offset[0] + self.origin[0], -offset[1] + self.origin[1]),"), None, twin=True),
    Control("twin: padded grid keyword order swapped", _G, in_func("Grid2D.padded_grid_from", "            pixel_scales=self.mask.pixel_scales,\n            origin=self.mask.origin,\n", "            origin=self.mask.origin,\n            pixel_scales=self.mask.pixel_scales,\n"), None, twin=True),
    Control("mesh box grown by a relative margin (seed C12/4)", "autoarray/structures/mesh/rectangular_2d.py", in_func("Mesh2DRectangular.overlay_grid", "y_min = np.min(grid[:, 0]) - buffer", "y_min = np.min(grid[:, 0]) * (1.0 + buffer)"), "C12.covariance"),
    Control("mesh box centre uses the x extrema for y", "autoarray/structures/mesh/rectangular_2d.py", in_func("Mesh2DRectangular.overlay_grid", "y_max = np.max(grid[:, 0]) + buffer", "y_max = np.max(grid[:, 1]) + buffer"), "C12.covariance"),
    Control("Hilbert mesh points: origin subtracted instead of added", "autoarray/inversion/pixelization/image_mesh/hilbert.py", in_func("image_and_grid_from", "+ np.array(mask.origin)", "- np.array(mask.origin)"), "C12.kind"),
    Control("twin: Hilbert mesh points with the origin first", "autoarray/inversion/pixelization/image_mesh/hilbert.py", in_func("image_and_grid_from", "new_grid = grid_hb[grid_hb_radius <= mask_radius] + np.array(mask.origin)", "new_grid = np.asarray(mask.origin) + grid_hb[grid_hb_radius <= mask_radius]"), None, twin=True),
    Control("border relocator sub-grid at origin 0", "autoarray/inversion/pixelization/border_relocator.py", in_func("BorderRelocator.sub_grid", "            origin=self.mask.origin,\n", ""), "C12.forward"),
]
