"""C03 - masked PSF blurring equals true 2-D convolution restricted to the mask (DESIGN.md section 4, C03)."""
from __future__ import annotations

import ast

from ..keval import KEval, Ref, Cond, Const
from ..poly import Poly, ZERO, ONE
from ..forms import check_accumulate, nests_of, real_guards, short
from ..trav import check_slim_counter
from .. import wire
from ..model import norm_text, AnchorMissing
from ..controls import Control
from ..mutate import in_func

CV = "autoarray.operators.convolver"
S_ = Poly.sym


def odd_kernel_guard(ctx, rule, p, K, fkey, shape_forms, exc_names):
    """must-raise: an exception guarded by `shape[0] % 2 == 0 or shape[1] % 2 == 0` (both axes) precedes every other effect of the function."""
    f = p.func(fkey)
    S = K.summarize(f)
    # the evenness tests that lead to the rejection: one `a % 2 == 0 or b % 2 == 0` guard, or one guard per axis in sequence (each later one under "the earlier did not raise")
    def axis_of(c, op):
        if c.kind == "cmp" and c.args[1] == op and c.args[2] == ZERO:
            for k in (0, 1):
                for form in shape_forms:
                    if c.args[0] == Poly.fn("mod", form(k), Poly.const(2)):
                        return k
        return None
    axes, first = set(), None
    for name, guards, node in S.raises:
        if name.split(".")[-1] not in exc_names:
            continue
        own = [c for g_ in guards if not getattr(g_, "path", None) for c in g_.flat_and()]
        parts = own[0].args if len(own) == 1 and own[0].kind == "or" else own
        ks = {axis_of(c, "==") for c in parts}
        if parts and None not in ks:
            axes |= ks
            first = first or node
    if axes != {0, 1}:
        ctx.ob(rule, fkey, False, where=f, node=f.node, construct=f"even-kernel check covers axes {sorted(axes)}",
               message="no `raise` guarded by an evenness test of BOTH kernel axes (shape[0] % 2 == 0 or shape[1] % 2 == 0) found")
        return
    # dominance: every store recorded in the summary carries "axis k is odd" for both axes as a (path) condition
    def odd_axes(st):
        return {axis_of(c, "!=") for g_ in st.guards for c in g_.flat_and()} - {None}
    undominated = [st for st in S.stores if odd_axes(st) != {0, 1}]
    ctx.ob(rule, fkey, not undominated, where=f, node=undominated[0].node if undominated else first,
           construct=repr(undominated[0])[:120] if undominated else "both axes tested before any effect",
           message="an effect of the function is not dominated by the even-kernel rejection")


def frame_rule(ctx, p, K):
    f = p.func(f"{CV}:Convolver.frame_at_coordinates_jit")
    for n in ("coordinates", "mask", "mask_index_array", "kernel_2d"):
        if n not in f.all_params:
            raise AnchorMissing(f"{f.key}: parameter {n}")
    S = K.summarize(f)
    rule = "C03.frame"
    ret = S.ret
    if not (isinstance(ret, tuple) and len(ret) == 2 and all(isinstance(r, Ref) for r in ret)):
        ctx.ob(rule, f.key, None, message=f"expected a (frame, kernel_frame) pair of arrays to be returned, got {ret!r}")
        return
    fr, kf = ret
    sf, sk = S.stores_to(fr.name), S.stores_to(kf.name)
    if len(sf) != 1 or len(sk) != 1:
        ctx.ob(rule, f.key, False, where=f, node=f.node, construct=f"{len(sf)} stores into frame, {len(sk)} into kernel frame",
               message="frame and kernel-frame must each be written by exactly one store inside the kernel loop nest")
        return
    sf, sk = sf[0], sk[0]
    ok = True
    loops = sf.loops
    K0, K1 = S_("kernel_2d.shape[0]"), S_("kernel_2d.shape[1]")
    good_loops = len(loops) == 2 and loops[0].lo == ZERO and loops[1].lo == ZERO and loops[0].step == ONE and loops[1].step == ONE and loops[0].hi == K0 and loops[1].hi == K1
    ctx.ob(rule, f.key + ":loops", good_loops and tuple(id(l) for l in sk.loops) == tuple(id(l) for l in loops), where=f, node=sf.node,
           construct="; ".join(map(repr, loops)), message="frame construction must loop i over kernel axis 0 and j over kernel axis 1, full range, both stores in that nest")
    if not good_loops:
        return
    i, j = S_(loops[0].var), S_(loops[1].var)
    c0, c1 = Poly.elem("coordinates", ZERO), Poly.elem("coordinates", ONE)
    h0, h1 = Poly.fn("fdiv", K0, Poly.const(2)), Poly.fn("fdiv", K1, Poly.const(2))
    x, y = c0 - h0 + i, c1 - h1 + j
    # target pixel: source - half + (i, j), per axis, with the half-width of axis a taken from kernel.shape[a]
    want_t = Poly.elem("mask_index_array", x, y)
    got_t = sf.value.poly() if isinstance(sf.value, Ref) else sf.value
    ctx.ob(rule, f.key + ":target", got_t == want_t, where=f, node=sf.node, construct=f"frame[...] = {short(got_t)}",
           message=f"frame target must be mask_index_array[source - floor(K/2) + (i, j)] with each axis' half-width from its own kernel dimension; expected {short(want_t)}")
    want_k = Poly.elem("kernel_2d", i, j)
    got_k = sk.value.poly() if isinstance(sk.value, Ref) else sk.value
    ctx.ob(rule, f.key + ":kernel", got_k == want_k, where=f, node=sk.node, construct=f"kernel_frame[...] = {short(got_k)}",
           message=f"kernel value paired with target source - half + (i, j) must be kernel[i, j] (flipped, centred convolution, not a correlation); expected {short(want_k)}")
    # same slot
    ctx.ob(rule, f.key + ":slot", sf.idx == sk.idx and len(sf.idx) == 1, where=f, node=sk.node, construct=f"frame{list(sf.idx)} kernel_frame{list(sk.idx)}",
           message="frame entry and kernel entry must be written to the same slot")
    # guards: in-frame (4 bounds) and unmasked target; nothing else
    gs = real_guards(sf.guards)
    gk = real_guards(sk.guards)
    H, W = S_("mask_index_array.shape[0]"), S_("mask_index_array.shape[1]")
    Hm, Wm = S_("mask.shape[0]"), S_("mask.shape[1]")

    def is_bound(c):
        if c.kind != "cmp":
            return None
        a, op, b = c.args
        if op == "<=" and a == ZERO and b == x: return "x>=0"
        if op == ">=" and a == x and b == ZERO: return "x>=0"
        if op == "<=" and a == ZERO and b == y: return "y>=0"
        if op == ">=" and a == y and b == ZERO: return "y>=0"
        if op == "<" and a == x and b in (H, Hm): return "x<H"
        if op == "<" and a == y and b in (W, Wm): return "y<W"
        if op == "<=" and a == x and b in (H - ONE, Hm - ONE): return "x<H"
        if op == "<=" and a == y and b in (W - ONE, Wm - ONE): return "y<W"
        return None

    def is_unmasked(c):
        t = Poly.elem("mask_index_array", x, y)
        if c.kind == "cmp" and c.args[0] == ZERO and c.args[1] == "<=" and c.args[2] == t:  # t >= 0 (comparisons are stored oriented to < / <=)
            return True
        if c.kind == "not" and c.args[0].kind == "truth" and c.args[0].args[0] == Poly.elem("mask", x, y):
            return True
        return False
    bounds = {is_bound(c) for c in gs} - {None}
    unm = [c for c in gs if is_unmasked(c)]
    other = [c for c in gs if not is_bound(c) and not is_unmasked(c)]
    ctx.ob(rule, f.key + ":in-frame", bounds == {"x>=0", "y>=0", "x<H", "y<W"}, where=f, node=sf.node, construct="; ".join(map(repr, gs)),
           message=f"target must be recorded only when inside the frame on both axes (0 <= x < H and 0 <= y < W); found bounds {sorted(bounds)}")
    ctx.ob(rule, f.key + ":unmasked", bool(unm), where=f, node=sf.node, construct="; ".join(map(repr, gs)),
           message="target must be recorded only when it is an unmasked pixel (mask_index >= 0 / not mask[x, y])")
    ctx.ob(rule, f.key + ":no-extra-guard", not other, where=f, node=getattr(other[0], "node", None) if other else sf.node, construct=repr(other[0]) if other else "",
           message="frame entries are dropped under an extra condition (the convolution would lose contributions)")
    ctx.ob(rule, f.key + ":same-guard", {c.key() for c in gs} == {c.key() for c in gk}, where=f, node=sk.node, construct="kernel_frame guards differ",
           message="frame entry and kernel entry must be recorded under the same conditions")
    # count: one increment by 1 under the same guards, stores use the pre-increment count
    cname = None
    for at in sf.idx[0].atoms():
        if at[0] == "s" and at[1].endswith("~"):
            cname = at[1][:-1]
    incs = [(v, op, g, l, n) for (nm, v, op, g, l, n) in S.assigns if nm == cname and op != "="]
    good = cname is not None and sf.idx[0] == S_(cname + "~") and len(incs) == 1 and incs[0][1] == "+=" and incs[0][0] == ONE \
        and {c.key() for c in real_guards(incs[0][2])} == {c.key() for c in gs}
    ctx.ob(rule, f.key + ":count", good, where=f, node=sf.node, construct=f"slot {list(sf.idx)}; increments {[(op, repr(v)) for v, op, *_ in incs]}",
           message="slot counter must advance by 1 exactly once per recorded entry, after the stores")
    # unused slots are marked -1 so that the length equals the number recorded
    i0 = getattr(fr, "init", None)
    ctx.ob(rule, f.key + ":sentinel", i0 is not None and isinstance(i0[1], Poly) and i0[1] == Poly.const(-1), where=f, node=f.node, construct=f"frame init {i0}",
           message="unused frame slots must hold the sentinel -1 (the per-pixel length is counted as entries >= 0)")


def scatter_rule(ctx, p, K):
    rule = "C03.scatter"
    for fname, parts in (("convolve_jit", [("image_1d_array", "image_frame_1d_indexes", "image_frame_1d_kernels", "image_frame_1d_lengths"),
                                           ("blurring_1d_array", "blurring_frame_1d_indexes", "blurring_frame_1d_kernels", "blurring_frame_1d_lengths")]),
                         ("convolve_no_blurring_jit", [("image_1d_array", "image_frame_1d_indexes", "image_frame_1d_kernels", "image_frame_1d_lengths")])):
        f = p.func(f"{CV}:Convolver.{fname}")
        for part in parts:
            for n in part:
                if n not in f.all_params:
                    raise AnchorMissing(f"{f.key}: parameter {n}")
        S = K.summarize(f)
        out = S.returned_array_names()
        if len(out) != 1:
            ctx.ob(rule, f.key, None, message=f"expected one returned array, got {out}")
            continue
        nests = nests_of(S.stores_to(out[0]))
        if len(nests) != len(parts):
            ctx.ob(rule, f.key, False, where=f, node=f.node, construct=f"{len(nests)} accumulation nests",
                   message=f"expected {len(parts)} scatter-accumulate loop nests (image{' and blurring image' if len(parts) == 2 else ''}), found {len(nests)}")
            continue
        # output has one entry per image pixel
        shp = getattr(S.env.get(out[0]), "shape_like", None)
        ctx.ob(rule, f.key + ":size", isinstance(shp, Ref) and shp.name == "image_1d_array", where=f, node=f.node, construct=f"output shaped like {shp}",
               message="blurred image must have the shape of the (unmasked) image vector")
        remaining = list(parts)
        for g in nests:
            matched = False
            for part in list(remaining):
                arr, fi, fk, fl = part
                roles = {"a": [S_(f"{arr}.shape[0]")], "r": (lambda b, fl=fl: [Poly.elem(fl, b["a"])])}
                probe = _Probe()
                if check_accumulate(probe, rule, S, out[0], roles, lambda b, fi=fi: (Poly.elem(fi, b["a"], b["r"]),),
                                    lambda b, arr=arr, fk=fk: Poly.elem(arr, b["a"]) * Poly.elem(fk, b["a"], b["r"]), stores=g, require_zero_init=False):
                    check_accumulate(ctx, rule, S, out[0], roles, lambda b, fi=fi: (Poly.elem(fi, b["a"], b["r"]),),
                                     lambda b, arr=arr, fk=fk: Poly.elem(arr, b["a"]) * Poly.elem(fk, b["a"], b["r"]), stores=g, suffix=":" + arr,
                                     what="value[a] * frame_kernel[a, r] into out[frame_index[a, r]] for r < length[a]")
                    remaining.remove(part)
                    matched = True
                    break
            if not matched:
                # report against the first remaining expected part for a precise message
                arr, fi, fk, fl = remaining[0] if remaining else parts[0]
                roles = {"a": [S_(f"{arr}.shape[0]")], "r": (lambda b, fl=fl: [Poly.elem(fl, b["a"])])}
                check_accumulate(ctx, rule, S, out[0], roles, lambda b, fi=fi: (Poly.elem(fi, b["a"], b["r"]),),
                                 lambda b, arr=arr, fk=fk: Poly.elem(arr, b["a"]) * Poly.elem(fk, b["a"], b["r"]), stores=g, suffix=":" + arr,
                                 what="value[a] * frame_kernel[a, r] into out[frame_index[a, r]] for r < length[a]")

    # mapping-matrix variant
    f = p.func(f"{CV}:Convolver.convolve_matrix_jit")
    S = K.summarize(f)
    out = S.returned_array_names()
    M = lambda b: Poly.elem("mapping_matrix", b["a"], b["q"])
    roles = {"q": [S_("mapping_matrix.shape[1]")], "a": [S_("mapping_matrix.shape[0]")], "r": (lambda b: [Poly.elem("image_frame_1d_lengths", b["a"])])}
    if len(out) == 1:
        check_accumulate(ctx, "C03.matrix", S, out[0], roles, lambda b: (Poly.elem("image_frame_1d_indexes", b["a"], b["r"]), b["q"]),
                         lambda b: M(b) * Poly.elem("image_frame_1d_kernels", b["a"], b["r"]), zero_test_operand=M,
                         what="the image operator applied to column q: M[a, q] * frame_kernel[a, r] into out[frame_index[a, r], q]")
        shp = getattr(S.env.get(out[0]), "shape_like", None)
        ctx.ob("C03.matrix", f.key + ":size", isinstance(shp, Ref) and shp.name == "mapping_matrix", where=f, node=f.node, construct=f"output shaped like {shp}",
               message="blurred mapping matrix must have the shape of the mapping matrix")
    else:
        ctx.ob("C03.matrix", f.key, None, message=f"expected one returned array, got {out}")


class _Probe:
    """silent context used to try a match without recording obligations"""
    def ob(self, *a, **k):
        return a[2] if len(a) > 2 else None


def init_rule(ctx, p, K):
    """Convolver.__init__: frames of image and blurring pixels come from the same routine against the same mask-index array and kernel;
    row k of the image frames belongs to slim pixel k; the three traversals are slim-order."""
    f = p.func(f"{CV}:Convolver.__init__")
    S = K.summarize(f)
    rule = "C03.init"
    # the index array holds the slim index of every unmasked pixel
    st = [s for s in S.stores if s.arr == "self.mask_index_array" and len(s.idx) == 2]
    ok = len(st) == 1 and len(st[0].loops) == 2 and st[0].idx == (S_(st[0].loops[0].var), S_(st[0].loops[1].var))
    cname = None
    if ok:
        v = st[0].value
        ats = [a for a in v.atoms()] if isinstance(v, Poly) else []
        if len(ats) == 1 and ats[0][0] == "s" and ats[0][1].endswith("~") and v == Poly.atom(ats[0]):
            cname = ats[0][1][:-1]
    # equivalent vectorised numbering: index[U] = arange(count(U)) with U the boolean unmasked selector (numpy fills the True positions in row-major order)
    vec = False
    if not st:
        m = Poly.sym("mask")
        sels = [Poly.fn("logical_not", m), Poly.fn("invert", m)]
        for s in S.stores:
            if s.arr == "self.mask_index_array" and len(s.idx) == 1 and s.idx[0] in sels and isinstance(s.value, Poly) and s.op == "=" and not s.loops:
                u = s.idx[0]
                if s.value in [Poly.fn("arange", Poly.fn(c, u)) for c in ("sum", "count_nonzero")]:
                    vec = True
    ctx.ob(rule, f.key + ":index-array", vec or (ok and cname is not None), where=f, node=st[0].node if st else f.node, construct=repr(st[0])[:140] if st else "no store",
           message="mask_index_array[a, b] must be assigned the running slim counter at the loop indices (or index[unmasked] = arange(count(unmasked)))")
    if cname:
        check_slim_counter(ctx, "C03.slim", S, cname, ["mask"], what="mask-index")
    i0 = None
    for s in S.stores:
        if s.arr == "self.mask_index_array" and not s.idx and isinstance(s.value, Ref):
            i0 = s.value.init
    ctx.ob(rule, f.key + ":index-array-init", i0 is not None and i0[0] == "full" and i0[1] == Poly.const(-1), where=f, node=f.node, construct=f"init {i0}",
           message="mask_index_array must start as -1 everywhere (masked pixels are recognised by a negative index)")
    # row counters of the two frame tables
    def blur_guard(c, a, b):
        # `mask[a][b] and not blurring_mask[a, b]` : the blurring-region traversal
        if c.kind == "truth" and c.args[0] == Poly.elem("mask", a, b):
            return True
        if c.kind == "not" and c.args[0].kind == "truth":
            x = c.args[0].args[0]
            return isinstance(x, Poly) and len(x.atoms()) == 1 and list(x.atoms())[0][0] == "i" and list(x.atoms())[0][1].startswith("blurring_mask_2d_from#") and list(x.atoms())[0][2] == (a, b)
        return False
    rows = {}
    for s in S.stores:
        if s.arr in ("self.image_frame_1d_indexes", "self.image_frame_1d_kernels", "self.image_frame_1d_lengths",
                     "self.blurring_frame_1d_indexes", "self.blurring_frame_1d_kernels", "self.blurring_frame_1d_lengths") and s.idx:
            rows[s.arr] = s
    need = 6
    ctx.ob(rule, f.key + ":tables", len(rows) == need, where=f, node=f.node, construct=str(sorted(rows)), message="the six frame tables must each be filled row by row")
    if len(rows) != need:
        return
    counters = set()
    for arr, s in rows.items():
        ats = [a for a in s.idx[0].atoms()]
        if len(ats) == 1 and ats[0][1].endswith("~"):
            counters.add(ats[0][1][:-1])
    for c in sorted(counters):
        check_slim_counter(ctx, "C03.slim", S, c, ["mask", "self.mask_index_array"], guard_ok=blur_guard, what="frame-row")
    # both families are produced by the same routine with the same arguments
    calls = [(k, a, n) for (k, a, g, n) in S.calls if k.endswith("Convolver.frame_at_coordinates_jit")]
    ok = len(calls) == 2
    detail = []
    if ok:
        def nm(v):
            return (v.name, tuple(v.idx)) if isinstance(v, Ref) else repr(v)
        a0, a1 = calls[0][1], calls[1][1]
        for kname in ("mask", "mask_index_array", "kernel_2d"):
            same = nm(a0.get(kname)) == nm(a1.get(kname))
            detail.append(f"{kname}: {nm(a0.get(kname))} / {nm(a1.get(kname))}")
            ok = ok and same
        ok = ok and nm(a0.get("mask")) == ("mask", ()) and nm(a0.get("mask_index_array")) == ("self.mask_index_array", ())
        for a in (a0, a1):
            co = a.get("coordinates")
            ok = ok and isinstance(co, tuple) and len(co) == 2
    ctx.ob(rule, f.key + ":same-routine", ok, where=f, node=calls[0][2] if calls else f.node, construct="; ".join(detail),
           message="image frames and blurring frames must be built by the same frame routine against the same mask, mask-index array and kernel")
    # lengths = number of recorded (non-negative) entries of that frame
    for arr in ("self.image_frame_1d_lengths", "self.blurring_frame_1d_lengths"):
        s = rows[arr]
        v = s.value
        good = False
        if isinstance(v, Poly):
            ats = list(v.atoms())
            if len(ats) == 1 and ats[0][0] == "f" and ats[0][1] == "shape" and len(ats[0][2]) == 2 and ats[0][2][1] == ZERO:
                inner = list(ats[0][2][0].atoms())
                if len(inner) == 1 and inner[0][0] == "i" and len(inner[0][2]) == 1:
                    fname = inner[0][1]
                    mk = list(inner[0][2][0].atoms())
                    # frame[frame >= 0].shape[0] of the frame returned by the frame routine in this iteration
                    tag_, _, loc_ = fname.partition(".")
                    sub_ = getattr(S, "sub", {}).get(tag_)
                    first_ = sub_.ret[0].name if sub_ is not None and isinstance(sub_.ret, tuple) and sub_.ret and isinstance(sub_.ret[0], Ref) else None
                    # the FIRST array returned by the frame routine (the index frame, not the kernel frame), whatever it is called inside
                    good = loc_ == first_ and fname.startswith("frame_at_coordinates_jit#") and len(mk) == 1 and mk[0][0] == "f" and mk[0][1] == "mask" \
                        and repr(mk[0][2][0]) in (repr(Poly.sym(repr((fname, ">=", "0")))), repr(Poly.sym(repr(("0", "<=", fname)))))
        ctx.ob(rule, f.key + ":" + arr, good, where=f, node=s.node, construct=short(v), message="frame length must be the count of entries >= 0 of the frame just built")


def run(ctx):
    p = ctx.p
    K = KEval(p)
    ctx.rule("C03.frame", "frame_at_coordinates_jit: target = source - floor(K/2) + (i, j) per axis with the half-width of axis a from kernel.shape[a], paired with kernel[i, j] "
             "(flipped centred convolution); recorded iff in-frame on both axes and unmasked; slot counter advanced once per entry; sentinel -1 (E4 forms)")
    ctx.rule("C03.scatter", "convolve_jit / convolve_no_blurring_jit: out[frame_index[a, r]] += value[a] * frame_kernel[a, r] for exactly r < length[a], all a, onto zeros, no other guard")
    ctx.rule("C03.matrix", "convolve_matrix_jit is that operator column by column for every real entry: only a zero-test of the entry may guard the accumulation (E7)")
    ctx.rule("C03.odd", "even kernels are rejected on both axes before any other effect (must-raise) in Convolver.__init__, Kernel2D.convolved_array_from / _with_mask_from, DeriveMask2D.blurring_from")
    ctx.rule("C03.init", "Convolver.__init__: mask_index_array = slim index of each unmasked pixel (-1 elsewhere); image and blurring frames built by the same routine on the same arguments; lengths = entries >= 0")
    ctx.rule("C03.slim", "the traversals that number pixels / frame rows are slim-order (E3 typestate)")
    frame_rule(ctx, p, K)
    scatter_rule(ctx, p, K)
    init_rule(ctx, p, K)
    sn = lambda base: (lambda k: Poly.elem(base, Poly.const(k)))
    odd_kernel_guard(ctx, "C03.odd", p, K, f"{CV}:Convolver.__init__", [sn("kernel.shape_native"), lambda k: S_(f"kernel.native.shape[{k}]"), lambda k: S_(f"kernel.shape[{k}]")], {"KernelException"})
    for m in ("convolved_array_from", "convolved_array_with_mask_from"):
        odd_kernel_guard(ctx, "C03.odd", p, K, f"autoarray.structures.arrays.kernel_2d:Kernel2D.{m}",
                         [lambda k: S_(f"self.mask.shape[{k}]"), sn("self.shape_native"), lambda k: S_(f"self.native.shape[{k}]"), lambda k: S_(f"self.shape[{k}]")], {"KernelException"})
    odd_kernel_guard(ctx, "C03.odd", p, K, "autoarray.mask.derive.mask_2d:DeriveMask2D.blurring_from", [sn("kernel_shape_native")], {"MaskException", "KernelException"})
    wrapper_rule(ctx, p)
    simulate_rule(ctx, p)
    whole_frame_rule(ctx, p)


def wrapper_rule(ctx, p):
    """the public methods of Convolver hand their inputs, and the convolver's own tables, to the matching kernel on EVERY path and return its result untouched"""
    rule = "C03.wrapper"
    ctx.rule(rule, "convolve_image / convolve_image_no_blurring / convolve_mapping_matrix: one kernel call per path with the convolver's own tables bound to the same-named parameters and the slim inputs; "
                   "every return is the kernel's result (images wrapped on the convolver's mask); no shortcut path")
    img = {f"image_frame_1d_{k}": f"self.image_frame_1d_{k}" for k in ("indexes", "kernels", "lengths")}
    blr = {f"blurring_frame_1d_{k}": f"self.blurring_frame_1d_{k}" for k in ("indexes", "kernels", "lengths")}
    table = [
        ("convolve_image", "convolve_jit", {**img, **blr, "image_1d_array": ("image.slim", "image"), "blurring_1d_array": ("blurring_image.slim", "blurring_image")}, True),
        ("convolve_image_no_blurring", "convolve_no_blurring_jit", {**img, "image_1d_array": ("image.slim", "image")}, True),
        ("convolve_mapping_matrix", "convolve_matrix_jit", {**img, "mapping_matrix": ("mapping_matrix",)}, False),
    ]
    cls = p.cls(f"{CV}:Convolver")
    for meth, kern, want, wrapped in table:
        m = cls.methods.get(meth)
        k = cls.methods.get(kern)
        if m is None or k is None:
            raise AnchorMissing(f"Convolver.{meth} / {kern}")
        calls = [c for c in m.calls() if isinstance(c.func, ast.Attribute) and c.func.attr == kern and norm_text(c.func.value) == m.params[0]]
        ok = len(calls) == 1
        det = f"{len(calls)} call(s) of {kern}"
        if ok:
            b = {a: norm_text(wire.strip_np_array(wire.resolve_local(m, v))) for a, v in wire.kw(calls[0], k).items()}
            bad = [a for a, w in want.items() if (b.get(a) not in w if isinstance(w, tuple) else b.get(a) != w)]
            extra = [a for a in b if a not in want and a != m.params[0]]
            ok = not bad and not extra
            det = f"mis-bound: {[(a, b.get(a)) for a in bad]}" if bad else f"{len(b)} arguments bound to the convolver's own tables and the inputs"
            # every return is the kernel's result
            for r in wire.returns_of(m):
                v = r.value
                if wrapped:
                    good = isinstance(v, ast.Call) and norm_text(v.func) == "Array2D" and set(wire.kw(v)) == {"values", "mask"} and wire.is_value_of(m, wire.kw(v)["values"], calls[0]) \
                        and norm_text(wire.kw(v)["mask"]) == f"{m.params[0]}.mask"
                else:
                    good = wire.is_value_of(m, v, calls[0])
                if not good:
                    ok = False
                    det = f"return {norm_text(v)[:70]} is not the result of {kern}"
            # no path avoids the call except by raising
            br = wire.enclosing_branches(m, calls[0])
            if br:
                ok = False
                det = f"{kern} is called only under {[norm_text(i.test)[:50] for i, _ in br]}"
        ctx.ob(rule, f"Convolver.{meth}", ok, where=m, node=calls[0] if calls else m.node, construct=det,
               message=f"{meth} must return, on every path, the result of {kern} applied to its (slim) inputs with the convolver's own frame tables; a shortcut path replaces the operator by something else for some inputs")


def simulate_rule(ctx, p):
    """the dataset a simulator returns, and every dataset derived from it, is fitted with the PSF that generated it"""
    rule = "C03.simulate"
    ctx.rule(rule, "the simulator convolves with self.psf and returns an Imaging carrying that very PSF (no re-normalisation); apply_mask / apply_noise_scaling / apply_over_sampling pass the PSF and "
                   "the normalisation choice on; the dataset's convolver is built from its own mask and PSF")
    sim = p.func("autoarray.dataset.imaging.simulator:SimulatorImaging.via_image_from")
    s_ = sim.params[0]
    conv = [c for c in sim.calls() if isinstance(c.func, ast.Attribute) and c.func.attr == "convolved_array_from"]
    ok = len(conv) == 1 and norm_text(conv[0].func.value) == f"{s_}.psf" and not wire.enclosing_branches(sim, conv[0])
    ctx.ob(rule, "simulator convolves with its own PSF", ok, where=sim, node=conv[0] if conv else sim.node, construct=norm_text(conv[0])[:80] if conv else "no convolution",
           message="the simulated image must be convolved with the simulator's own PSF, unconditionally")
    rets = [r for r in wire.returns_of(sim) if isinstance(r.value, ast.Call) and norm_text(r.value.func) == "Imaging"]
    ok = len(rets) == 1
    det = ""
    if ok:
        kw = wire.kwtext(rets[0].value)
        det = str({k: kw.get(k) for k in ("psf", "use_normalized_psf")})
        ok = kw.get("psf") == f"{s_}.psf" and kw.get("use_normalized_psf") == "False"
    ctx.ob(rule, "simulated dataset carries the simulation PSF", ok, where=sim, node=rets[0] if rets else sim.node, construct=det,
           message="the Imaging returned by the simulator must carry self.psf unchanged (use_normalized_psf=False; the constructor would otherwise re-normalise it), or the generating image no longer fits its own data")
    ds = p.cls("autoarray.dataset.imaging.dataset:Imaging")
    n = 0
    for name in ("apply_mask", "apply_noise_scaling", "apply_over_sampling"):
        m = ds.methods.get(name)
        if m is None:
            raise AnchorMissing(f"Imaging.{name}")
        for c in [c for c in m.calls() if norm_text(c.func) in ("Imaging", "self.__class__", "type(self)")]:
            n += 1
            kw = wire.kwtext(c)
            ok = kw.get("psf") == f"{m.params[0]}.psf" and kw.get("use_normalized_psf") == f"{m.params[0]}.use_normalized_psf"
            ctx.ob(rule, f"Imaging.{name} keeps the PSF", ok, where=m, node=c, construct=str({k: kw.get(k) for k in ("psf", "use_normalized_psf")}),
                   message="a dataset derived from another must carry the same PSF and the same normalisation choice (the constructor default re-normalises)")
    ctx.require_count(rule, "derived Imaging constructions", n, 3)
    cv = ds.methods.get("convolver")
    rets = wire.returns_of(cv) if cv else []
    ok = len(rets) == 1 and isinstance(rets[0].value, ast.Call) and norm_text(rets[0].value.func) == "Convolver" and wire.kwtext(rets[0].value) == {"mask": "self.mask", "kernel": "self.psf"}
    ctx.ob(rule, "Imaging.convolver", ok, where=cv, node=rets[0] if rets else cv.node, construct=norm_text(rets[0].value) if rets else "", message="the dataset's convolver must be built from its own mask and its own PSF")


def whole_frame_rule(ctx, p):
    """Kernel2D.convolved_array_from: scipy.signal.convolve2d(array.native, self.native, mode='same') then slim via the array's own mask."""
    rule = "C03.whole"
    ctx.rule(rule, "whole-frame convolution: scipy.signal.convolve2d(<native array>, <native kernel>, mode='same'), result slimmed with the mask it is returned on")
    for m, arr_txt, mask_txt in (("convolved_array_from", ("array.native", "array_2d"), ("array_2d.mask", "array.mask", "array.native.mask")),
                                 ("convolved_array_with_mask_from", ("array", "array.native"), ("mask",))):
        f = p.func(f"autoarray.structures.arrays.kernel_2d:Kernel2D.{m}")
        cs = [c for c in f.calls() if norm_text(c.func).endswith("convolve2d")]
        ok = len(cs) == 1
        det = ""
        if ok:
            c = cs[0]
            a0 = norm_text(c.args[0]) if c.args else norm_text(wire.kw(c).get("in1"))
            a1 = norm_text(c.args[1]) if len(c.args) > 1 else norm_text(wire.kw(c).get("in2"))
            mode = wire.kw(c).get("mode")
            mode = mode.value if isinstance(mode, ast.Constant) else (c.args[2].value if len(c.args) > 2 and isinstance(c.args[2], ast.Constant) else None)
            det = f"convolve2d({a0}, {a1}, mode={mode})"
            # resolve a local alias `array_2d = array.native`
            ok = a1 in ("self.native", "self.native.array", "np.array(self.native)") and mode == "same" and a0 in arr_txt
        ctx.ob(rule, f.key, ok, where=f, node=cs[0] if cs else f.node, construct=det, message="whole-frame convolution must be scipy convolve2d of the native array with the native kernel in 'same' mode")
        # returned on / slimmed with the same mask
        callee = p.func("autoarray.structures.arrays.array_2d_util:array_2d_slim_from")
        sl = wire.calls_to(p, f, callee.key)
        rets = wire.returns_of(f)
        ok2 = len(sl) == 1 and len(rets) == 1 and isinstance(rets[0].value, ast.Call)
        det2 = ""
        if ok2:
            mk = norm_text(wire.strip_np_array(wire.kw(sl[0], callee).get("mask_2d")))
            rk = norm_text(wire.kw(rets[0].value).get("mask")) if wire.kw(rets[0].value).get("mask") is not None else None
            det2 = f"slim mask {mk}; returned on mask {rk}"
            ok2 = mk == rk and mk in mask_txt
        ctx.ob(rule, f.key + ":mask", ok2, where=f, node=sl[0] if sl else f.node, construct=det2, message="the convolved frame must be slimmed with the same mask it is returned on")


_M = "autoarray/operators/convolver.py"
CONTROLS = [
    Control("all-zero image shortcut skips the blurring image (seed C03/3)", _M, in_func("Convolver.convolve_image", "        convolved_image = self.convolve_jit(\n            image_1d_array=np.array(image.slim),", "        image_1d_array = np.array(image.slim)\n\n        if not image_1d_array.any():\n            return Array2D(values=np.zeros(image_1d_array.shape), mask=self.mask)\n\n        convolved_image = self.convolve_jit(\n            image_1d_array=image_1d_array,"), "C03.wrapper"),
    Control("(1, 1) kernel shortcut returns the matrix unblurred (seed C03/4)", _M, in_func("Convolver.convolve_mapping_matrix", "        return self.convolve_matrix_jit(", "        if self.kernel_max_size == 1:\n            return mapping_matrix\n\n        return self.convolve_matrix_jit("), "C03.wrapper"),
    Control("simulated dataset re-normalises its PSF (the defect fixed in d319173)", "autoarray/dataset/imaging/simulator.py", in_func("SimulatorImaging.via_image_from", "            use_normalized_psf=False,\n", ""), "C03.simulate"),
    Control("masked dataset forgets the PSF normalisation choice", "autoarray/dataset/imaging/dataset.py", in_func("Imaging.apply_mask", "            use_normalized_psf=self.use_normalized_psf,\n", ""), "C03.simulate"),
    Control("blurring tables swapped for image tables", _M, in_func("Convolver.convolve_image", "blurring_frame_1d_kernels=self.blurring_frame_1d_kernels,", "blurring_frame_1d_kernels=self.image_frame_1d_kernels,"), "C03.wrapper"),
    Control("twin: slim image taken into a local first", _M, in_func("Convolver.convolve_image", "        convolved_image = self.convolve_jit(\n            image_1d_array=np.array(image.slim),", "        image_1d_array = np.array(image.slim)\n        convolved_image = self.convolve_jit(\n            image_1d_array=image_1d_array,"), None, twin=True),
    Control("half-widths swapped between axes", _M, in_func("Convolver.frame_at_coordinates_jit", "half_x = int(kernel_shape_native[0] / 2)", "half_x = int(kernel_shape_native[1] / 2)"), "C03.frame"),
    Control("correlation instead of convolution", _M, in_func("Convolver.frame_at_coordinates_jit", "kernel_frame[count] = kernel_2d[i, j]",
                                                             "kernel_frame[count] = kernel_2d[kernel_shape_native[0] - 1 - i, kernel_shape_native[1] - 1 - j]"), "C03.frame"),
    Control("upper bound test off by one axis", _M, in_func("Convolver.frame_at_coordinates_jit", "and 0 <= y < mask_index_array.shape[1]", "and 0 <= y < mask_index_array.shape[0]"), "C03.frame"),
    Control("matrix guard back to > 0", _M, in_func("Convolver.convolve_matrix_jit", "if value != 0:", "if value > 0:"), "C03.matrix"),
    Control("blurring part uses image kernels", _M, in_func("Convolver.convolve_jit", "frame_1d_kernel = blurring_frame_1d_kernels[blurring_1d_index]", "frame_1d_kernel = image_frame_1d_kernels[blurring_1d_index]"), "C03.scatter"),
    Control("kernel loop one short", _M, in_func("Convolver.convolve_no_blurring_jit", "range(frame_1d_length)", "range(frame_1d_length - 1)"), "C03.scatter"),
    Control("even check on one axis only", _M, in_func("Convolver.__init__", "if kernel.shape_native[0] % 2 == 0 or kernel.shape_native[1] % 2 == 0:", "if kernel.shape_native[0] % 2 == 0:"), "C03.odd"),
    Control("mask index counted column-major", _M, in_func("Convolver.__init__", "for x in range(mask.shape[0]):\n            for y in range(mask.shape[1]):\n                if not mask[x, y]:\n                    self.mask_index_array[x, y] = count",
                                                        "for y in range(mask.shape[1]):\n            for x in range(mask.shape[0]):\n                if not mask[x, y]:\n                    self.mask_index_array[x, y] = count"), "C03.slim"),
    Control("twin: rename locals, reorder independent statements", _M, in_func("Convolver.frame_at_coordinates_jit", "x = coordinates[0] - half_x + i\n                y = coordinates[1] - half_y + j",
                                                                            "y = j + coordinates[1] - half_y\n                x = i - half_x + coordinates[0]"), None, twin=True),
    Control("twin: != 0 written as not == 0", _M, in_func("Convolver.convolve_matrix_jit", "if value != 0:", "if not value == 0:"), None, twin=True),
]
