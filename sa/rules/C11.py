"""C11 - queries are pure: no input mutation, no order dependence, deterministic (DESIGN.md section 4, C11).

Decided with the EFFECT engine (sa/effect.py): ownership tags per value, in-place writes per function, bottom-up to a fixpoint.
What is decided is the *shape* that makes the behaviour impossible to break: nobody writes in place into storage it does not own.
    C11.param    no function writes in place into (storage reachable from) one of its parameters, unless it is a listed in-place helper - and
                 every caller of a listed helper hands it only storage the caller allocated itself
    C11.cached   no function writes in place into the value of a cached property, except the evict idiom (write, then delete the cache entry
                 on the same path, the cached value being freshly allocated by every implementation of the property)
    C11.field    a method writes into storage reachable from a field of self only in a constructor, and then only if the field's content was
                 allocated by the constructor chain (never an alias of a constructor argument)
    C11.rebind   no method outside constructors rebinds / deletes a field of self, except the listed explicit setters
    C11.clone    a function that makes a shallow clone and changes its contents drops every cached-property value of the clone
    C11.seed     every draw from the global numpy RNG in a function with a `seed` parameter is preceded by seeding with that parameter,
                 and every caller that has a seed forwards it
"""
from __future__ import annotations

import ast
from typing import Dict, List, Optional, Set, Tuple

from .. import effect, wire
from ..effect import F
from ..model import norm_text, AnchorMissing, FuncInfo, ClassInfo, Project
from ..controls import Control
from ..mutate import in_func, in_module, chain

M = "autoarray.inversion.pixelization.mesh.mesh_util"
EXEMPT_ENTRY_WRITES: Dict[str, str] = {
    "autoarray.numba_util:profile_func.<locals>.wrapper": "records a timing in the object's run_time_dict (not a reported quantity)",
    "autoarray.inversion.linear_obj.neighbors:Neighbors.__new__": "ndarray subclass construction (sets attributes on the new view)",
    "autoarray.structures.arrays.array_2d_util:replace_noise_map_2d_values_where_image_2d_values_are_negative": "documented in-place utility on a noise map; not called anywhere in the library",
    "autoarray.util.cholesky_funcs:cholinsert": "rank-one insertion utility working on the factor it is given; not called anywhere in the library (the solver uses cholinsertlast)",
}
ALLOWED_MUTATORS: Dict[str, str] = {
    f"{M}:rectangular_corner_neighbors": "fills the neighbors / sizes tables its caller rectangular_neighbors_from allocated",
    f"{M}:rectangular_top_edge_neighbors": "same",
    f"{M}:rectangular_left_edge_neighbors": "same",
    f"{M}:rectangular_right_edge_neighbors": "same",
    f"{M}:rectangular_bottom_edge_neighbors": "same",
    f"{M}:rectangular_central_neighbors": "same",
    "autoarray.inversion.inversion.inversion_util:curvature_matrix_with_added_to_diag_from": "adds to the diagonal of the matrix its caller just built",
    "autoarray.inversion.pixelization.mappers.mapper_util:remove_bad_entries_voronoi_nn": "compacts the tables the C library call just returned",
    "autoarray.inversion.regularization.regularization_util:reg_split_from": "updates the split-cross tables its caller just computed",
    "autoarray.operators.over_sampling.iterate:threshold_mask_via_arrays_jit_from": "fills the mask its caller allocated",
    "autoarray.operators.over_sampling.iterate:iterated_array_jit_from": "fills the array its caller allocated",
    "autoarray.structures.arrays.array_2d_util:replace_noise_map_2d_values_where_image_2d_values_are_negative": "documented in-place helper on a noise-map the caller copied",
    "autoarray.util.cholesky_funcs:_choldowndate": "rank-one update of the factor owned by the solver loop",
    "autoarray.util.cholesky_funcs:_cholupdate": "same",
    "autoarray.util.cholesky_funcs:cholinsert": "same",
    "autoarray.util.cholesky_funcs:cholinsertlast": "same",
    "autoarray.util.cholesky_funcs:choldeleteindexes": "same",
    "autoarray.util.fnnls:fix_constraint_cholesky": "updates the solver loop's own state vectors",
    "autoarray.numba_util:profile_func.<locals>.wrapper": "records a timing in the run_time_dict (not a reported quantity)",
    "autoarray.inversion.linear_obj.neighbors:Neighbors.__new__": "ndarray subclass construction",
}
CONSTRUCTORS = {"__init__", "__new__", "__array_finalize__", "__setstate__", "__post_init__"}
EXPLICIT_MUTATORS = {"__setitem__": "the explicit element-assignment API of a structure"}
SKIP_MOD = ("autoarray.plot", "autoarray.fixtures", "autoarray.util.nn")

ALLOWED_REBINDS: Dict[Tuple[str, str], str] = {
    ("AbstractNDArray", "_clear_cached_properties"): "the cache-dropping helper itself",
    ("AbstractNDArray", "__setitem__"): "explicit element-assignment API (must drop the cached values: C11.clone)",
    ("AbstractInversion", "curvature_reg_matrix"): "evicts the cache entry it has just overwritten (validated by C11.cached)",
    ("Rectangular", "mapper_grids_from"): "stores the profiling dict (run_time_dict), not a reported quantity",
    ("Triangulation", "mapper_grids_from"): "stores the profiling dict (run_time_dict), not a reported quantity",
}
DRAWS = {"poisson", "normal", "uniform", "random", "rand", "randn", "choice", "shuffle", "permutation", "random_sample", "standard_normal", "binomial", "exponential", "gamma", "beta"}
UNSEEDED_BY_DESIGN = {
    "autoarray.dataset.preprocess:array_with_random_uniform_values_added": "documented as adding fresh random values; has no seed parameter and is not used by the seeded simulators",
}

_CACHE: Dict[int, effect.Effects] = {}


def in_scope(f: FuncInfo) -> bool:
    n = f.module.name
    return not (n.startswith(SKIP_MOD) or ".mock" in n or n.endswith(".mock"))


def get_effects(p: Project) -> effect.Effects:
    if id(p) not in _CACHE:
        effect.set_allowed(ALLOWED_MUTATORS)
        _CACHE.clear()
        _CACHE[id(p)] = effect.Effects(p)
    return _CACHE[id(p)]


def tagtext(t: tuple) -> str:
    return {"P": "parameter `%s`", "SA": "storage of self.%s", "C": "cached property `%s`", "PL": "preload slot `%s`"}.get(t[0], "%s") % (t[1] if len(t) > 1 else "")


# ------------------------------------------------------------------ cached content
def impls_of(p: Project, cls: Optional[ClassInfo], attr: str) -> List[FuncInfo]:
    """every implementation of property `attr` in the hierarchy of cls (no class: every class of the project)"""
    out = []
    if cls is None:
        classes = list(p.all_classes())
    else:
        classes = list(cls.mro()) + [c for c in cls.all_subclasses()]
    seen = set()
    for c in classes:
        m = c.methods.get(attr)
        if m is not None and m.key not in seen and ".mock" not in c.module.name:
            seen.add(m.key)
            out.append(m)
    return out


def content_of_cached(E: effect.Effects, cls: Optional[ClassInfo], attr: str) -> Dict[tuple, FuncInfo]:
    """ownership tags the value stored under cached property `attr` may carry (besides being fresh), with the implementation that produces each"""
    out: Dict[tuple, FuncInfo] = {}
    for m in impls_of(E.p, cls, attr):
        if not (m.is_cached or m.is_property):
            continue
        for t in E.ret.get(m.key, set()):
            if t != F and t[0] != "SELF" and t not in out:
                out[t] = m
    return out


# ------------------------------------------------------------------ rules
def _evicted_after(f: FuncInfo, node: ast.AST, attr: str) -> bool:
    """`del self.__dict__["attr"]` follows `node` in the same block before any return"""
    for parent in ast.walk(f.node):
        for fld in ("body", "orelse", "finalbody"):
            blk = getattr(parent, fld, None)
            if isinstance(blk, list) and node in blk:
                i = blk.index(node)
                for st in blk[i + 1:]:
                    if isinstance(st, ast.Return):
                        return False
                    if isinstance(st, ast.Delete):
                        for t in st.targets:
                            if isinstance(t, ast.Subscript) and norm_text(t.value) == f"{f.params[0]}.__dict__" and isinstance(t.slice, ast.Constant) and t.slice.value == attr:
                                return True
                return False
    return False


def rule_writes(ctx, E: effect.Effects):
    n_sites = 0
    n_funcs = 0
    for f in E.funcs:
        if not in_scope(f):
            continue
        n_funcs += 1
        for tag, site in E.direct_all[f.key]:
            n_sites += 1
            where = f"{f.module.relpath}:{getattr(site.node, 'lineno', 0)}"
            inst = f"{f.key} writes {tagtext(tag)}"
            if tag[0] == "P":
                continue   # parameters are judged below, at the entry points (the write may sit in a helper several calls down)
            elif tag[0] == "C":
                content = content_of_cached(E, f.cls if f.cls is not None and f.cls.lookup(tag[1]) is not None else None, tag[1])
                evict = f.cls is not None and f.params and _evicted_after(f, site.node, tag[1])
                foreign = {t: m for t, m in content.items() if not (t == ("C", tag[1]))}
                if evict and not foreign:
                    ctx.ob("C11.cached", inst, True, detail=f"evict idiom at {where}: cache entry deleted after the in-place update; every implementation of `{tag[1]}` returns a fresh array")
                elif evict:
                    t0, m0 = next(iter(foreign.items()))
                    ctx.ob("C11.cached", inst, False, where=f, node=site.node, construct=f"{tagtext(tag)} may alias {tagtext(t0)} (from {m0.qualname})",
                           message=f"in-place update of the cached `{tag[1]}`, which {m0.qualname} may return as an alias of {tagtext(t0)}: evicting the cache entry does not undo the write into that storage")
                else:
                    ctx.ob("C11.cached", inst, False, where=f, node=site.node, construct=f"{tagtext(tag)} written in place ({site.how.split(' (')[0]})",
                           message=f"writes in place into the value of cached property `{tag[1]}` ({site.how}); every later read of `{tag[1]}` reports the modified value")
            elif tag[0] == "SA":
                if f.cls is None:
                    continue
                if f.name in EXPLICIT_MUTATORS:
                    ctx.ob("C11.field", inst, True, detail=EXPLICIT_MUTATORS[f.name], nontrivial=False)
                    continue
                if f.name in CONSTRUCTORS:
                    bad = None
                    for S in [f.cls] + [c for c in f.cls.all_subclasses() if ".mock" not in c.module.name]:
                        init = S.lookup("__init__")
                        if init is None:
                            continue
                        # does the constructor chain of S run f?
                        if init is not f and not _init_chain_reaches(E.p, init, f):
                            continue
                        for t in effect.effective_fields(E, S).get(tag[1], set()):
                            if t[0] == "P":
                                bad = (S, t)
                                break
                        if bad:
                            break
                    if bad:
                        S, t = bad
                        ctx.ob("C11.field", inst, False, where=f, node=site.node, construct=f"{S.name}.{tag[1]} aliases constructor argument `{t[1]}`; {norm_text(site.node)[:70]}",
                               message=f"the constructor writes in place into self.{tag[1]}, which for {S.name} may be the very array passed as `{t[1]}` (no copy on the way): the caller's input is modified")
                    else:
                        ctx.ob("C11.field", inst, True, detail=f"constructor fills storage allocated by the constructor chain ({where})")
                else:
                    ctx.ob("C11.field", inst, False, where=f, node=site.node, construct=f"{tagtext(tag)} written in place outside a constructor",
                           message=f"a non-constructor method writes in place into storage held in self.{tag[1]} ({site.how}); what the object (and whoever shares that storage) reports changes with the access history")
            elif tag[0] == "PL":
                pass  # C15's concern
    # in-place writes into (storage reachable from) a parameter: a helper may fill what its caller allocated, so the obligation travels up the call chain with the ownership tags
    # and is judged where it cannot travel further - at an entry point: a public method / constructor of a class, a decorator's wrapper, or a function nobody in the project calls
    n_entry = 0
    # functions re-exported by the package's __init__ are entry points whoever else calls them
    api = set()
    try:
        init_mod = ctx.p.module("autoarray")
        for alias, target in init_mod.imports.items():
            mod, _, nm = target.rpartition(".")
            if mod in ctx.p.modules and nm in ctx.p.modules[mod].functions:
                api.add(ctx.p.modules[mod].functions[nm].key)
    except Exception:
        pass
    ctx.stats["C11.package-level API functions"] = len(api)
    for f in E.funcs:
        if not in_scope(f):
            continue
        ptags = {t: s_ for t, s_ in E.mut[f.key].items() if t[0] == "P"}
        if not ptags or f.key in getattr(ctx.p, "inlined_keys", set()):
            continue   # (a new private helper that was inlined into its callers is judged there)
        callers = {k for k in E.callers.get(f.key, set()) if k != f.key}
        public_method = f.cls is not None and (not f.name.startswith("_") or f.name in ("__init__", "__new__", "__call__", "__getitem__"))
        entry = public_method or f.parent is not None or not callers or f.key in api
        for tag, site in ptags.items():
            n_sites += 1
            inst = f"{f.key} writes {tagtext(tag)}"
            # a parameter whose default is an instance created in the signature is shared by every call that omits it: writing it is a defect wherever it happens
            dflt = f.defaults.get(tag[1])
            shared_default = isinstance(dflt, ast.Call)
            if not entry and not shared_default:
                ctx.ob("C11.param", inst, True, detail=f"in-place helper: judged at its {len(callers)} caller(s)", nontrivial=False)
                continue
            n_entry += 1
            if f.key in EXEMPT_ENTRY_WRITES:
                ctx.ob("C11.param", inst, True, detail=EXEMPT_ENTRY_WRITES[f.key], nontrivial=False)
                continue
            chain = f" through {site.via.split(':')[1]}" if site.via else ""
            ctx.ob("C11.param", inst, False, where=f, node=site.node, construct=f"{tagtext(tag)} written in place{chain}",
                   message=f"writes in place into its parameter `{tag[1]}`{chain} ({site.how}); the caller's object is modified")
    ctx.stats["C11.entry points that pass a parameter to an in-place write"] = n_entry
    ctx.stats["C11.functions analysed"] = n_funcs
    ctx.stats["C11.effect fixpoint rounds"] = E.rounds
    ctx.stats["C11.calls resolved"] = f"{E.calls_seen - E.unresolved}/{E.calls_seen}"
    ctx.require_count("C11.param", "in-place write sites classified", n_sites, 40)


def _init_chain_reaches(p: Project, init: FuncInfo, target: FuncInfo, depth: int = 0) -> bool:
    if init is target:
        return True
    if depth > 6:
        return False
    for c in init.calls():
        if isinstance(c.func, ast.Attribute) and c.func.attr == "__init__":
            for t in p.resolve_call(c, init):
                if _init_chain_reaches(p, t, target, depth + 1):
                    return True
    return False


def rule_allowed_table(ctx, E: effect.Effects):
    """every listed helper exists and really writes a parameter (a stale table would hide nothing, but must not rot)"""
    by_key = {f.key: f for f in E.funcs}
    for k, why in ALLOWED_MUTATORS.items():
        f = by_key.get(k)
        if f is None:
            ctx.note(f"listed in-place helper {k} no longer exists")
            continue
        writes = [t for t in E.mut.get(f.key, {}) if t[0] == "P"]
        ctx.ob("C11.param", f"listed helper {k}", True, detail=f"writes {sorted(t[1] for t in writes)}: {why}", nontrivial=False)


def rule_rebinds(ctx):
    n = 0
    for f in ctx.p.all_functions():
        if f.cls is None or f.name in CONSTRUCTORS or not in_scope(f) or f.is_staticmethod or f.is_classmethod or not f.params or f.parent is not None:
            continue
        s = f.params[0]
        for node in f.body_nodes():
            tg = []
            if isinstance(node, ast.Assign):
                tg = node.targets
            elif isinstance(node, (ast.AugAssign, ast.AnnAssign)):
                tg = [node.target]
            elif isinstance(node, ast.Delete):
                tg = node.targets
            elif isinstance(node, ast.Expr) and isinstance(node.value, ast.Call) and isinstance(node.value.func, ast.Attribute) and node.value.func.attr == "pop" \
                    and norm_text(node.value.func.value) == f"{s}.__dict__" and node.value.args:
                # self.__dict__.pop(key, ..) is `del self.__dict__[key]`
                tg = [ast.Subscript(value=node.value.func.value, slice=node.value.args[0], ctx=ast.Del())]
            for t in tg:
                for el in (t.elts if isinstance(t, (ast.Tuple, ast.List)) else [t]):
                    hit = None
                    if isinstance(el, ast.Attribute) and isinstance(el.value, ast.Name) and el.value.id == s:
                        hit = el.attr
                    elif isinstance(el, ast.Subscript) and norm_text(el.value) == f"{s}.__dict__":
                        hit = norm_text(el.slice)
                    if hit is None:
                        continue
                    n += 1
                    if f.cls.name == "Preloads" and f.name.startswith("set_"):
                        ctx.ob("C11.rebind", f"{f.qualname}:{hit}", True, detail="explicit Preloads setter", nontrivial=False)
                    elif (f.cls.name, f.name) in ALLOWED_REBINDS:
                        ctx.ob("C11.rebind", f"{f.qualname}:{hit}", True, detail=ALLOWED_REBINDS[(f.cls.name, f.name)], nontrivial=False)
                    else:
                        ctx.ob("C11.rebind", f"{f.qualname}:{hit}", False, where=f, node=node, construct=f"{f.qualname} rebinds self.{hit}",
                               message=f"a method outside the constructors rebinds / deletes self.{hit}: later reads on this object depend on whether this method ran")
    ctx.require_count("C11.rebind", "field rebinds outside constructors", n, 25)


# ------------------------------------------------------------------ clones
def _mro_cached_names(e: ast.expr, X: str, Ts=None) -> bool:
    """is e (temporaries already read through) the collection of ALL names that are a cached_property somewhere along type(X).__mro__ - possibly sorted / listed, possibly
    filtered to those that still resolve to a cached_property on type(X) (a sound filter: an overridden name has no cached value to drop)?"""
    Ts = Ts or {f"type({X})"}   # (X itself may have been read through to the expression it was bound to: type(copy.copy(self)))
    if isinstance(e, ast.Call) and isinstance(e.func, ast.Name) and e.func.id in ("sorted", "list", "tuple", "set", "frozenset") and len(e.args) == 1 and not e.keywords:
        return _mro_cached_names(e.args[0], X, Ts)
    if isinstance(e, (ast.ListComp, ast.SetComp, ast.GeneratorExp)):
        gens = e.generators
        if len(gens) == 1 and isinstance(gens[0].target, ast.Name) and isinstance(e.elt, ast.Name) and e.elt.id == gens[0].target.id:
            nm = gens[0].target.id
            if all(any(norm_text(t).replace(" ", "") == f"isinstance(getattr({T},{nm},None),cached_property)".replace(" ", "") for T in Ts) for t in gens[0].ifs):
                return _mro_cached_names(gens[0].iter, X, Ts)
            return False
        if len(gens) == 2 and isinstance(gens[0].target, ast.Name) and any(norm_text(gens[0].iter) == f"{T}.__mro__" for T in Ts) and not gens[0].ifs \
                and isinstance(gens[1].target, ast.Tuple) and len(gens[1].target.elts) == 2 and all(isinstance(x, ast.Name) for x in gens[1].target.elts) \
                and norm_text(gens[1].iter).replace(" ", "") in (f"vars({gens[0].target.id}).items()", f"{gens[0].target.id}.__dict__.items()"):
            nm, val = gens[1].target.elts[0].id, gens[1].target.elts[1].id
            return isinstance(e.elt, ast.Name) and e.elt.id == nm and [norm_text(t).replace(" ", "") for t in gens[1].ifs] == [f"isinstance({val},cached_property)"]
    return False


def _is_cache_drop_loop(st: ast.stmt, X: str, f=None) -> bool:
    if not isinstance(st, ast.For) or not isinstance(st.target, ast.Name):
        return False
    k = st.target.id
    it = norm_text(st.iter)
    if f is not None and len(st.body) == 1 and isinstance(st.body[0], ast.Expr) and norm_text(st.body[0].value).replace(" ", "") == f"{X}.__dict__.pop({k},None)":
        # the names collected up front over the whole MRO, each entry then popped
        from .. import wire
        Ts = {f"type({X})"} | {f"type({norm_text(n.value)})" for n in f.body_nodes() if isinstance(n, ast.Assign) and len(n.targets) == 1 and isinstance(n.targets[0], ast.Name) and n.targets[0].id == X}
        return _mro_cached_names(wire.inline_locals(f, st.iter), X, Ts)
    if it not in (f"list({X}.__dict__)", f"tuple({X}.__dict__)", f"list({X}.__dict__.keys())", f"{X}.__dict__.copy()", f"list(vars({X}))", f"tuple(vars({X}))", f"list(vars({X}).keys())", f"vars({X}).copy()"):
        return False
    if len(st.body) != 1 or not isinstance(st.body[0], ast.If) or st.body[0].orelse:
        return False
    test = norm_text(st.body[0].test)
    if test != f"isinstance(getattr(type({X}), {k}, None), cached_property)":
        return False
    body = st.body[0].body
    return len(body) == 1 and isinstance(body[0], ast.Delete) and norm_text(body[0].targets[0]) in (f"{X}.__dict__[{k}]", f"vars({X})[{k}]")


def _explicit_drops(f, X: str) -> set:
    """names of instance-dict entries of X that f removes one by one: `X.__dict__.pop("a", None)`, `del X.__dict__["a"]` (guarded or not), also written as a loop
    over a literal tuple / list of names"""
    out = set()

    def body_drops(stmts, var=None):
        hit = False
        for st in stmts:
            for n in ast.walk(st):
                if isinstance(n, ast.Call) and norm_text(n.func) == f"{X}.__dict__.pop" and n.args:
                    a = n.args[0]
                    if var is not None and isinstance(a, ast.Name) and a.id == var:
                        hit = True
                    elif isinstance(a, ast.Constant) and isinstance(a.value, str):
                        out.add(a.value)
                if isinstance(n, ast.Delete):
                    for t in n.targets:
                        if isinstance(t, ast.Subscript) and norm_text(t.value) == f"{X}.__dict__":
                            if var is not None and isinstance(t.slice, ast.Name) and t.slice.id == var:
                                hit = True
                            elif isinstance(t.slice, ast.Constant) and isinstance(t.slice.value, str):
                                out.add(t.slice.value)
        return hit
    for n in f.body_nodes():
        if isinstance(n, ast.For) and isinstance(n.target, ast.Name) and isinstance(n.iter, (ast.Tuple, ast.List)) and all(isinstance(e, ast.Constant) and isinstance(e.value, str) for e in n.iter.elts):
            if body_drops(n.body, n.target.id):
                out.update(e.value for e in n.iter.elts)
    body_drops([n for n in f.node.body])
    return out


def _cached_property_names(cls) -> set:
    names = set()
    for c in (cls.mro() if cls is not None else []):
        for m in c.methods.values():
            if any(norm_text(d).split(".")[-1] == "cached_property" for d in m.node.decorator_list):
                names.add(m.name)
    return names


def rule_clones(ctx):
    p = ctx.p
    n = 0
    # the helper itself
    try:
        h = p.func("autoarray.abstract_ndarray:AbstractNDArray._clear_cached_properties")
        ok = any(_is_cache_drop_loop(st, h.params[0], h) for st in h.node.body)
        ctx.ob("C11.clone", "AbstractNDArray._clear_cached_properties", ok, where=h, node=h.node, construct="_clear_cached_properties body",
               message="the helper must delete every instance-dict entry whose class attribute is a cached_property")
    except AnchorMissing:
        h = None
    for f in p.all_functions():
        if not in_scope(f) or f.cls is None or not f.params or f.is_staticmethod or f.is_classmethod:
            continue
        s = f.params[0]
        clones: Dict[str, ast.AST] = {}
        for node in f.body_nodes():
            if isinstance(node, ast.Assign) and len(node.targets) == 1 and isinstance(node.targets[0], ast.Name):
                v = norm_text(node.value)
                if v in (f"copy.copy({s})", f"copy({s})", f"{s}.copy()"):
                    clones[node.targets[0].id] = node
            if isinstance(node, ast.Expr) and isinstance(node.value, ast.Call) and norm_text(node.value.func).endswith(".__dict__.update") and node.value.args and norm_text(node.value.args[0]) == f"{s}.__dict__":
                nm = norm_text(node.value.func)[: -len(".__dict__.update")]
                clones[nm] = node
        for X, origin in clones.items():
            changed = []
            for node in f.body_nodes():
                if isinstance(node, ast.Assign):
                    for t in node.targets:
                        if isinstance(t, ast.Attribute) and isinstance(t.value, ast.Name) and t.value.id == X and not t.attr.startswith("__"):
                            v = norm_text(node.value)
                            if v in (f"{s}.{t.attr}.copy()", f"copy.copy({s}.{t.attr})", f"copy.deepcopy({s}.{t.attr})", f"copy({s}.{t.attr})", f"{X}.{t.attr}.copy()"):
                                continue  # value-preserving
                            changed.append((t.attr, node))
            raw = isinstance(origin, ast.Expr)  # X.__dict__.update(self.__dict__): cached values (and helper objects bound to self) travel along whatever happens next
            if not changed and not raw:
                ctx.ob("C11.clone", f"{f.qualname}:{X}", True, detail="copy made through the class's own copy protocol, contents unchanged", nontrivial=False)
                n += 1
                continue
            if not changed:
                changed = [("__dict__", origin)]
            n += 1
            dropped = False
            for node in f.body_nodes():
                if isinstance(node, ast.Expr) and isinstance(node.value, ast.Call) and norm_text(node.value.func) == f"{X}._clear_cached_properties" and h is not None:
                    dropped = True
                if _is_cache_drop_loop(node, X, f):
                    dropped = True
            if not dropped and f.cls is not None:
                # or entry by entry, by name: complete when every cached property of the class (inherited ones included) is among the names
                cp = _cached_property_names(f.cls)
                named = _explicit_drops(f, X)
                dropped = bool(cp) and cp <= named
            ctx.ob("C11.clone", f"{f.qualname}:{X}", dropped, where=f, node=changed[0][1], construct=f"{X} = clone of self; {X}.{changed[0][0]} replaced",
                   detail=f"contents replaced: {[a for a, _ in changed]}; cached values dropped",
                   message=f"`{X}` is a shallow clone of self (its instance dict, cached-property values included, is copied) whose `{changed[0][0]}` is then replaced, "
                           f"but the cached values are never dropped: the derived object reports quantities of the object it was derived from when those had been read first")
    ctx.require_count("C11.clone", "shallow-clone sites", n, 5)
    # contents replaced in place: every method outside the constructors that rebinds or writes self._array must drop the cached values afterwards
    try:
        base = p.cls("autoarray.abstract_ndarray:AbstractNDArray")
    except AnchorMissing:
        return
    n_w = 0
    for c in [base] + [x for x in base.all_subclasses() if ".mock" not in x.module.name]:
        for m in c.methods.values():
            if m.name in CONSTRUCTORS or not m.params or m.is_staticmethod or m.is_classmethod:
                continue
            s_ = m.params[0]
            writes = []
            for node in m.body_nodes():
                tg = node.targets if isinstance(node, ast.Assign) else ([node.target] if isinstance(node, ast.AugAssign) else [])
                for t in tg:
                    base_t = t.value if isinstance(t, ast.Subscript) else t
                    if norm_text(base_t) == f"{s_}._array":
                        writes.append(node)
            if not writes:
                continue
            n_w += 1
            drops = [node for node in m.body_nodes() if isinstance(node, ast.Expr) and isinstance(node.value, ast.Call) and norm_text(node.value.func) == f"{s_}._clear_cached_properties"]
            ok = bool(drops) and all(not wire.enclosing_branches(m, d) for d in drops[-1:]) and drops[-1].lineno > max(w.lineno for w in writes)
            ctx.ob("C11.clone", f"{m.qualname}: contents written in place", ok, where=m, node=writes[0], construct=f"{m.qualname} writes self._array",
                   detail="cached values dropped after the write",
                   message="the method changes the array of an existing object but keeps its cached property values: quantities read before the change are reported again after it")
    ctx.require_count("C11.clone", "in-place content writes outside constructors", n_w, 1)
    # no field is computed from the contents at construction: clones share the instance dict, so such a field keeps the parent's value in every derived object
    E = get_effects(p)
    n_f = 0
    for c in [base] + [x for x in base.all_subclasses() if ".mock" not in x.module.name]:
        init = c.methods.get("__init__")
        if init is None:
            continue
        content = {t[1] for t in effect.effective_fields(E, c).get("_array", set()) if t[0] == "P"}
        # names derived from the content parameter inside the constructor (visibilities = np.asarray(visibilities) ...)
        derived = set(content)
        changed = True
        while changed:
            changed = False
            for node in init.body_nodes():
                if isinstance(node, ast.Assign) and len(node.targets) == 1 and isinstance(node.targets[0], ast.Name) and node.targets[0].id not in derived:
                    if any(isinstance(x, ast.Name) and x.id in derived for x in ast.walk(node.value)):
                        derived.add(node.targets[0].id)
                        changed = True
        for node in init.body_nodes():
            if not isinstance(node, ast.Assign):
                continue
            for t in node.targets:
                if isinstance(t, ast.Attribute) and isinstance(t.value, ast.Name) and t.value.id == init.params[0] and t.attr != "_array":
                    n_f += 1
                    v = node.value
                    computed = not isinstance(v, (ast.Name, ast.Constant, ast.Attribute))
                    reads = sorted({x.id for x in ast.walk(v) if isinstance(x, ast.Name) and x.id in derived} | ({"self"} if any(isinstance(x, ast.Name) and x.id == init.params[0] for x in ast.walk(v)) else set()))
                    bad = computed and bool(reads) and bool(content)
                    ctx.ob("C11.clone", f"{c.name}.__init__: field {t.attr}", not bad, where=init, node=node, construct=f"self.{t.attr} computed from {reads}",
                           detail="metadata (not computed from the contents)", nontrivial=bad,
                           message=f"self.{t.attr} is computed from the array contents ({', '.join(reads)}) once, at construction; every object derived by arithmetic, slicing or copying shares the instance dict and "
                                   f"keeps reporting the parent's value - it must be a property computed from the current contents")
    ctx.require_count("C11.clone", "constructor field assignments in array classes", n_f, 10)


# ------------------------------------------------------------------ seeds
def _np_random_call(c: ast.Call) -> Optional[str]:
    t = norm_text(c.func)
    for pre in ("np.random.", "numpy.random."):
        if t.startswith(pre):
            return t[len(pre):]
    return None


def rule_seed(ctx):
    p = ctx.p
    seeded_funcs: Dict[str, FuncInfo] = {}
    n_draw = 0
    for f in p.all_functions():
        if not in_scope(f):
            continue
        draws = [(c, _np_random_call(c)) for c in f.calls() if _np_random_call(c) in DRAWS]
        if "seed" in f.all_params:
            seeded_funcs[f.key] = f
        if not draws:
            continue
        for c, nm in draws:
            n_draw += 1
            if "seed" not in f.all_params:
                if f.key in UNSEEDED_BY_DESIGN:
                    ctx.ob("C11.seed", f"{f.key}:{nm}", True, detail=UNSEEDED_BY_DESIGN[f.key], nontrivial=False)
                else:
                    ctx.ob("C11.seed", f"{f.key}:{nm}", False, where=f, node=c, construct=f"np.random.{nm} in a function without a seed",
                           message="draws from the global numpy RNG but takes no seed: the result depends on the prior state of the global generator")
                continue
            # a top-level statement before the draw seeds the generator with `seed`
            ok = False
            for st in f.node.body:
                if st.lineno >= c.lineno:
                    break
                for cc in [n for n in ast.walk(st) if isinstance(n, ast.Call)]:
                    t = norm_text(cc.func)
                    if t in ("np.random.seed", "numpy.random.seed") and cc.args and norm_text(cc.args[0]) == "seed" and st in f.node.body and isinstance(st, ast.Expr):
                        ok = True
                    tg = p.resolve_call(cc, f)
                    if tg and tg[0].name == "setup_random_seed" and isinstance(st, ast.Expr):
                        b, _ = Project.bind(cc, tg[0])
                        if norm_text(b.get("seed")) == "seed" if b.get("seed") is not None else False:
                            ok = True
            # `seed` may only be reassigned under `if seed == -1`
            for node in f.body_nodes():
                if isinstance(node, ast.Assign) and any(isinstance(t, ast.Name) and t.id == "seed" for t in node.targets):
                    br = wire.enclosing_branches(f, node)
                    if not (len(br) == 1 and br[0][1] and norm_text(br[0][0].test) == "seed == -1"):
                        ok = False
            ctx.ob("C11.seed", f"{f.key}:{nm}", ok, where=f, node=c, construct=f"np.random.{nm} not preceded by seeding with `seed`",
                   detail="np.random.seed(seed) / setup_random_seed(seed) precedes the draw unconditionally",
                   message="the draw is not (unconditionally) preceded by seeding the generator with the function's `seed`: equal seeds no longer give equal noise")
    # setup_random_seed itself
    try:
        srs = p.func("autoarray.dataset.preprocess:setup_random_seed")
        last = srs.node.body[-1]
        ok = isinstance(last, ast.Expr) and norm_text(last.value) in ("np.random.seed(seed)", "numpy.random.seed(seed)")
        for node in srs.body_nodes():
            if isinstance(node, ast.Assign) and any(isinstance(t, ast.Name) and t.id == "seed" for t in node.targets):
                br = wire.enclosing_branches(srs, node)
                ok = ok and len(br) == 1 and br[0][1] and norm_text(br[0][0].test) == "seed == -1"
        ctx.ob("C11.seed", "setup_random_seed", ok, where=srs, node=srs.node, construct="setup_random_seed body",
               message="setup_random_seed must end with np.random.seed(seed), replacing `seed` only when it is -1")
    except AnchorMissing:
        pass
    # forwarding: every call of a function with a `seed` parameter binds it to the caller's seed
    n_fw = 0
    for f in p.all_functions():
        if not in_scope(f):
            continue
        for c in f.calls():
            tg = p.resolve_call(c, f)
            if not tg or tg[0].key not in seeded_funcs or tg[0].name == "setup_random_seed":
                continue
            b, _ = Project.bind(c, tg[0])
            n_fw += 1
            got = norm_text(b["seed"]) if b.get("seed") is not None else None
            if "seed" in f.all_params:
                want = ["seed"]
            elif f.cls is not None and any(isinstance(n, ast.Attribute) and n.attr == "noise_seed" for n in ast.walk(f.cls.node)):
                want = [f"{f.params[0]}.noise_seed"] if f.params else []
            else:
                want = None
            if want is None:
                ctx.ob("C11.seed", f"{f.key}->{tg[0].name}", True, detail=f"caller has no seed of its own (seed={got})", nontrivial=False)
                continue
            ctx.ob("C11.seed", f"{f.key}->{tg[0].name}", got in want, where=f, node=c, construct=f"{tg[0].name}(seed={got})",
                   detail=f"seed={got}", message=f"the caller's seed ({want[0]}) is not forwarded to {tg[0].name} (seed={got}): a fixed seed no longer fixes the noise")
            if got in want and "." in got and f.cls is not None:
                # the field holding the seed is the constructor's parameter itself (`seed or -1`, int(seed) + 1, ... would turn some fixed seeds into others / into the random one)
                attr = got.split(".", 1)[1]
                init = f.cls.lookup("__init__")
                asg = [n for n in (init.body_nodes() if init else []) if isinstance(n, ast.Assign) and any(norm_text(t) == f"{init.params[0]}.{attr}" for t in n.targets)]
                okf = len(asg) == 1 and isinstance(asg[0].value, ast.Name) and asg[0].value.id in init.all_params and not wire.enclosing_branches(init, asg[0])
                ctx.ob("C11.seed", f"{f.cls.name}.{attr} is the constructor's seed", okf, where=init, node=asg[0] if asg else init.node, construct=norm_text(asg[0])[:80] if asg else "no assignment",
                       message=f"self.{attr} must be the constructor argument itself; a rewritten value maps some fixed seeds to other seeds (0 -> -1 means 'random')")
    ctx.require_count("C11.seed", "RNG draws", n_draw, 3)
    ctx.require_count("C11.seed", "seed forwarding sites", n_fw, 5)


def run(ctx):
    ctx.rule("C11.param", "no function writes in place into its parameters (listed in-place helpers excepted; their callers pass only storage they allocated)")
    ctx.rule("C11.cached", "no in-place write into a cached property's value, except write-then-evict of a freshly allocated value")
    ctx.rule("C11.field", "fields of self are written in place only by constructors and only when the constructor chain allocated them")
    ctx.rule("C11.rebind", "fields of self are rebound / deleted only in constructors and listed explicit setters")
    ctx.rule("C11.clone", "a shallow clone whose contents are replaced drops all cached-property values")
    ctx.rule("C11.seed", "draws from the global RNG are preceded by seeding with the function's seed; seeds are forwarded")
    E = get_effects(ctx.p)
    rule_writes(ctx, E)
    rule_allowed_table(ctx, E)
    rule_rebinds(ctx)
    rule_clones(ctx)
    rule_seed(ctx)
    ctx.note("decides the ownership shape only (who may write where, what a clone carries, where the RNG is seeded); value-level order independence of the remaining "
             "pure code follows from it, numerical determinism of library calls (scipy / numba) is assumed")


_A2 = "autoarray/structures/arrays/array_2d_util.py"
_G2 = "autoarray/structures/grids/grid_2d_util.py"
_MV = "autoarray/inversion/inversion/mapper_valued.py"
_AB = "autoarray/inversion/inversion/abstract.py"
_ND = "autoarray/abstract_ndarray.py"
_DS = "autoarray/dataset/abstract/dataset.py"
_PP = "autoarray/dataset/preprocess.py"
_SIM = "autoarray/dataset/imaging/simulator.py"
_MAP = "autoarray/inversion/inversion/imaging/mapping.py"
_DEL = "autoarray/inversion/pixelization/mappers/delaunay.py"
_FAC = "autoarray/inversion/inversion/factory.py"
CONTROLS = [
    Control("array converter masks the caller's array in place (copy dropped)", _A2, in_func("convert_array_2d", "array_2d = convert_array(array=array_2d).copy()", "array_2d = convert_array(array=array_2d)"), "C11.param"),
    Control("array converter neither copies nor writes; Kernel2D normalises the caller's array (seed C11/1)", _A2,
            chain(in_func("convert_array_2d", "array_2d = convert_array(array=array_2d).copy()", "array_2d = convert_array(array=array_2d)"),
                  in_func("convert_array_2d", "        array_2d *= np.invert(mask_2d)", "        array_2d = array_2d * np.invert(mask_2d)")), "C11.field"),
    Control("grid converter zeroes the caller's native grid again", _G2, in_func("convert_grid_2d", "        grid_2d = grid_2d.copy()\n", ""), "C11.param"),
    Control("valued mapper zeroes columns of the cached mapping matrix (np.asarray, seed C11/2)", _MV, in_func("MapperValued.mapped_reconstructed_image_from", "mapping_matrix = np.array(mapping_matrix)", "mapping_matrix = np.asarray(mapping_matrix)"), "C11.cached"),
    Control("curvature+regularization written into the cache without eviction", _AB, in_func("AbstractInversion.curvature_reg_matrix", "            del self.__dict__[\"curvature_matrix\"]\n", ""), "C11.cached"),
    Control("eviction of the wrong cache entry", _AB, in_func("AbstractInversion.curvature_reg_matrix", "del self.__dict__[\"curvature_matrix\"]", "self.__dict__.pop(\"curvature_reg_matrix\", None)"), "C11.cached"),
    Control("preloaded curvature matrix handed out un-copied (seed C15/2)", _MAP, in_func("InversionImagingMapping.curvature_matrix", "return copy.copy(self.preloads.curvature_matrix)", "return self.preloads.curvature_matrix"), "C11.cached"),
    Control("split-cross tables cached while reg_split_from updates them in place", _DEL, in_module("    @property\n    def pix_sub_weights_split_cross(self)", "    @cached_property\n    def pix_sub_weights_split_cross(self)"), "C11.cached"),
    Control("with_new_array keeps the parent's cached values", _ND, in_func("AbstractNDArray.with_new_array", "        new_array._clear_cached_properties()\n", ""), "C11.clone"),
    Control("invert keeps the parent's cached values", _ND, in_func("AbstractNDArray.invert", "        new._clear_cached_properties()\n", ""), "C11.clone"),
    Control("trimmed dataset keeps the parent's cached grids", _DS, in_func("AbstractDataset.trimmed_after_convolution_from", "        for key in list(dataset.__dict__):\n            if isinstance(getattr(type(dataset), key, None), cached_property):\n                del dataset.__dict__[key]\n", ""), "C11.clone"),
    Control("cache-drop helper deletes nothing (inverted test)", _ND, in_func("AbstractNDArray._clear_cached_properties", "if isinstance(getattr(type(self), key, None), cached_property):", "if not isinstance(getattr(type(self), key, None), cached_property):"), "C11.clone"),
    Control("item assignment keeps cached values (the defect fixed in ea8a434)", _ND, in_func("AbstractNDArray.__setitem__", "            self._array[key] = value\n        self._clear_cached_properties()\n", "            self._array[key] = value\n"), "C11.clone"),
    Control("__copy__ carries cached values and helper objects bound to the original", _ND, in_func("AbstractNDArray.__copy__", "        new._clear_cached_properties()\n", ""), "C11.clone"),
    Control("ordered values stored as a constructor-time attribute again (the defect fixed in 04c2816)", "autoarray/structures/visibilities.py", in_func("AbstractVisibilities.__init__", "        super().__init__(array=visibilities)", "        self.ordered_1d_at_construction = np.concatenate((np.real(visibilities), np.imag(visibilities)), axis=0)\n        super().__init__(array=visibilities)"), "C11.clone"),
    Control("poisson noise drawn without seeding", _PP, in_func("poisson_noise_via_data_eps_from", "    setup_random_seed(seed)\n", ""), "C11.seed"),
    Control("gaussian noise seeded only when seed is -1", _PP, in_func("gaussian_noise_via_shape_and_sigma_from", "        seed = np.random.randint(0, int(1e9))\n    np.random.seed(seed)", "        seed = np.random.randint(0, int(1e9))\n        np.random.seed(seed)"), "C11.seed"),
    Control("simulator does not forward its noise seed", _SIM, in_func("SimulatorImaging.via_image_from", "            seed=self.noise_seed,\n", ""), "C11.seed"),
    Control("seed 0 silently treated as random (seed C11/4)", _SIM, in_func("SimulatorImaging.__init__", "self.noise_seed = noise_seed", "self.noise_seed = noise_seed or -1"), "C11.seed"),
    Control("poisson wrapper drops the seed", _PP, in_func("data_eps_with_poisson_noise_added", "data_eps=data_eps, exposure_time_map=exposure_time_map, seed=seed", "data_eps=data_eps, exposure_time_map=exposure_time_map"), "C11.seed"),
    Control("setup_random_seed replaces every seed", _PP, in_func("setup_random_seed", "    if seed == -1:", "    if seed != 1:"), "C11.seed"),
    Control("query stores its result back into a field", _MV, in_func("MapperValued.values_masked", "        return values", "        self.values = values\n        return values"), "C11.rebind"),
    Control("factory edits the shared default settings object", _FAC, in_func("inversion_imaging_from", "    if not settings.use_w_tilde:", "    if use_w_tilde is False:\n        settings.use_w_tilde = False\n    if not settings.use_w_tilde:"), "C11.param"),
    Control("twin: copy via .copy()", _MV, in_func("MapperValued.mapped_reconstructed_image_from", "mapping_matrix = np.array(mapping_matrix)", "mapping_matrix = mapping_matrix.copy()"), None, twin=True),
    Control("twin: cache-drop loop over tuple(...)", _DS, in_func("AbstractDataset.trimmed_after_convolution_from", "for key in list(dataset.__dict__):", "for key in tuple(dataset.__dict__):"), None, twin=True),
    Control("twin: gaussian seeding through setup_random_seed", _PP, in_func("gaussian_noise_via_shape_and_sigma_from", "    if seed == -1:\n        # Use one seed, so all regions have identical column non-uniformity.\n        seed = np.random.randint(0, int(1e9))\n    np.random.seed(seed)", "    setup_random_seed(seed)"), None, twin=True),
]
