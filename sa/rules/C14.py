"""C14 - resize, pad and trim keep data centred and attached to its coordinates (DESIGN.md section 4, C14)."""
from __future__ import annotations

import ast
import itertools
from fractions import Fraction

from ..keval import KEval, Ref, Cond, Const, Top
from ..poly import Poly, ZERO, ONE
from ..forms import value_poly, real_guards, short, norm_cond, CMP, AND
from .. import wire
from ..model import canon_src, norm_text, AnchorMissing
from ..controls import Control
from ..mutate import in_func

S_ = Poly.sym
E_ = Poly.elem
A2 = "autoarray.structures.arrays.array_2d_util"
TWO = Poly.const(2)
HALF = Poly.const(Fraction(1, 2))
H, W, R0, R1 = (S_(n) for n in ("H", "W", "R0", "R1"))


def fd(x):
    return Poly.fn("fdiv", x, TWO)


def simplify_parity(pv: Poly) -> Poly:
    """fdiv(2*Q + c, 2) -> Q for c in {0, 1} (all non-constant coefficients even)"""
    def sub(at):
        if at[0] == "f" and at[1] == "fdiv" and len(at[2]) == 2 and at[2][1] == TWO:
            x = simplify_parity(at[2][0])
            c = x.t.get((), Fraction(0))
            rest = Poly({k: v for k, v in x.t.items() if k != ()})
            if c in (0, 1) and all(v.denominator == 1 and v % 2 == 0 for v in rest.t.values()):
                return Poly({k: v / 2 for k, v in rest.t.items()})
            return Poly.fn("fdiv", x, TWO)
        return None
    return pv.subst(sub)


def bounds(yy, xx, Hs, Ws):
    return {str(norm_cond(c)) for c in (CMP(yy, ">=", ZERO), CMP(yy, "<", Hs), CMP(xx, ">=", ZERO), CMP(xx, "<", Ws))}


def canon_bounds(conds: set, yy, xx, Hs, Ws) -> set:
    """rewrite the integer-index variants `i <= N - 1` as `i < N` so that both spellings compare equal"""
    alt = {str(norm_cond(CMP(yy, "<=", Hs - ONE))): str(norm_cond(CMP(yy, "<", Hs))), str(norm_cond(CMP(xx, "<=", Ws - ONE))): str(norm_cond(CMP(xx, "<", Ws)))}
    return {alt.get(c, c) for c in conds}


def conj_set(c: Cond):
    return {str(norm_cond(x)) for x in c.flat_and()}


def resize_rule(ctx, p, K):
    rule = "C14.window"
    f = p.func(f"{A2}:resized_array_2d_from")
    for n in ("array_2d", "resized_shape", "origin", "pad_value"):
        if n not in f.all_params:
            raise AnchorMissing(f"{f.key}: parameter {n}")
    S = K.summarize(f, dict(array_2d=Ref("A", shape=(H, W)), resized_shape=(R0, R1), pad_value=S_("pad")))
    out = S.returned_array_names()
    if len(out) != 1:
        ctx.ob(rule, f.key, None, message=f"expected one returned array, got {out}")
        return None
    sts = S.stores_to(out[0])
    copies = [s for s in sts if isinstance(s.value, Ref) and s.value.name == "A"]
    pads = [s for s in sts if value_poly(s.value) == S_("pad")]
    if len(copies) != 1 or len(pads) != 1 or len(sts) != 2:
        ctx.ob(rule, f.key, False, where=f, node=f.node, construct=f"{len(copies)} copy stores, {len(pads)} pad stores, {len(sts)} total", message="expected one store copying a source pixel and one store writing the pad value")
        return None
    cp, pd = copies[0], pads[0]
    if len(cp.loops) != 2:
        ctx.ob(rule, f.key, False, where=f, node=cp.node, construct="", message="expected the (row, column) nest over the destination")
        return None
    yr, xr = S_(cp.loops[0].var), S_(cp.loops[1].var)
    off_y, off_x = fd(H) - fd(R0), fd(W) - fd(R1)
    src = cp.value.idx
    ok = cp.idx == (yr, xr) and len(src) == 2 and src[0] == off_y + yr and src[1] == off_x + xr
    ctx.ob(rule, f.key + ":offset", ok, where=f, node=cp.node, construct=f"dest {list(map(repr, cp.idx))} <- source {list(map(repr, src))}",
           message=f"destination pixel (i, j) must receive source pixel (i + floor(H/2) - floor(R0/2), j + floor(W/2) - floor(R1/2)): each axis offset from its own extents; expected offsets {off_y!r}, {off_x!r}")
    # loop coverage of the destination
    ext_ok = cp.loops[0].lo == ZERO and cp.loops[1].lo == ZERO and cp.loops[0].hi == TWO * fd(R0) + ONE and cp.loops[1].hi == TWO * fd(R1) + ONE
    ctx.ob(rule, f.key + ":coverage", ext_ok and tuple(id(l) for l in pd.loops) == tuple(id(l) for l in cp.loops), where=f, node=cp.node, construct="; ".join(map(repr, cp.loops)),
           message="the destination window must span 2*floor(R/2) + 1 rows / columns from 0 (>= R for either parity), the same for copied and padded cells")
    # guards
    gs = real_guards(cp.guards)
    src_b = bounds(off_y + yr, off_x + xr, H, W)
    dst_b = bounds(yr, xr, R0, R1)
    got = set()
    for g in gs:
        got |= conj_set(g)
    got = canon_bounds(canon_bounds(got, off_y + yr, off_x + xr, H, W), yr, xr, R0, R1)
    # a destination index that is the variable of a loop starting at 0 is non-negative by construction: that test may be left out
    implied = {str(norm_cond(CMP(v_, ">=", ZERO))) for v_, l_ in ((yr, cp.loops[0]), (xr, cp.loops[1])) if l_.lo == ZERO and l_.step == ONE}
    ctx.ob(rule, f.key + ":copy-guards", got <= (src_b | dst_b) and got | implied == src_b | dst_b, where=f, node=cp.node, construct=str(sorted(got))[:400],
           message="a cell is copied exactly when its source lies inside the source array and the cell inside the destination, each index tested against its own axis extent")
    gp = real_guards(pd.guards)
    neg = [g for g in gp if g.kind == "not"]
    pos = [g for g in gp if g.kind != "not"]
    okp = len(neg) == 1 and canon_bounds(conj_set(neg[0].args[0]), off_y + yr, off_x + xr, H, W) == src_b and (canon_bounds(set().union(*[conj_set(g) for g in pos]), yr, xr, R0, R1) | implied) == dst_b and pd.idx == (yr, xr)
    ctx.ob(rule, f.key + ":pad-guards", okp, where=f, node=pd.node, construct="; ".join(map(repr, gp))[:400], message="a destination cell receives pad_value exactly when its source lies outside the source array (and nothing else does)")
    ref = S.env.get(out[0])
    init, shp = getattr(ref, "init", None), getattr(ref, "shape", None)
    ctx.ob(rule, f.key + ":shape", init is not None and init[0] == "zeros" and shp is not None and shp[:2] == (R0, R1), where=f, node=f.node, construct=f"init {init} shape {shp}", message="the result must have exactly the requested shape")
    # parity domain: for equal parity the offset is (N - R)/2, which keeps every surviving pixel at its scaled coordinate under the centre formula y = oy + ((N-1)/2 - i) s
    n, r, k = S_("n"), S_("r"), S_("h")
    bad = []
    for pn, pr in itertools.product((0, 1), repeat=2):
        sub = lambda at, pn=pn, pr=pr: (TWO * n + Poly.const(pn)) if at == ("s", "H") else ((TWO * r + Poly.const(pr)) if at == ("s", "R0") else None)
        off = simplify_parity(off_y.subst(sub))
        Nn, Rr = TWO * n + Poly.const(pn), TWO * r + Poly.const(pr)
        if pn == pr and off != (Nn - Rr) * HALF:
            bad.append((pn, pr, repr(off)))
        # coverage of the destination: 2*floor(R/2) + 1 >= R
        span = simplify_parity((TWO * fd(R0) + ONE).subst(sub))
        if (span - Rr).const_value() not in (0, 1):
            bad.append((pn, pr, "span " + repr(span)))
    ctx.ob(rule, f.key + ":centred", not bad, where=f, node=cp.node, construct=str(bad) if bad else "offset = (N - R)/2 for equal parities; span covers R for all parities",
           message="for equal parity of source and target extent the index offset must equal (N - R)/2 - the condition for a surviving pixel to keep its scaled coordinate (parity case analysis of the computed offset form)")
    return off_y


def pad_trim_rule(ctx, p, K):
    rule = "C14.pad-trim"
    c = p.cls("autoarray.structures.arrays.uniform_2d:AbstractArray2D")
    m = c.lookup("padded_before_convolution_from")
    if m is None:
        raise AnchorMissing("AbstractArray2D.padded_before_convolution_from")
    # name-free (sa/paths.py): returns self.resized_from(new_shape=(H + K0 - 1, W + K1 - 1), mask_pad_value=mask_pad_value), the two extents compared as canonical forms
    from .. import paths
    from ..forms import expr_poly as _E, src_poly as _Ps
    PSp = paths.returns(paths.path_summaries(m, project=p) or [])
    ok = len(PSp) == 1 and isinstance(PSp[0].value, ast.Call) and paths.ptext(PSp[0].value.func) == "self.resized_from"
    asg = []
    if ok:
        kw_ = paths.kwargs(PSp[0].value)
        ns = kw_.get("new_shape")
        ok = set(kw_) == {"new_shape", "mask_pad_value"} and paths.ptext(kw_["mask_pad_value"]) == "mask_pad_value" and isinstance(ns, (ast.Tuple, ast.List)) and len(ns.elts) == 2 \
            and all(_E(ns.elts[k_]) == _Ps(f"self.shape_native[{k_}] + kernel_shape[{k_}] - 1") for k_ in (0, 1))
    ctx.ob(rule, m.key, ok, where=m, node=m.node, construct=PSp[0].text[:160] if PSp else "", message="padding for a kernel must enlarge each axis by its own kernel extent minus 1 and resize (centred) with the requested mask pad value")
    t = c.lookup("trimmed_after_convolution_from")
    if t is None:
        raise AnchorMissing("AbstractArray2D.trimmed_after_convolution_from")
    # name-free: every local temporary of the method is inlined before comparing
    rets = wire.returns_of(t)
    kwn = wire.kw(rets[0].value) if len(rets) == 1 and isinstance(rets[0].value, ast.Call) else {}
    cy, cx = "(int(np.ceil(kernel_shape[0] / 2)) - 1)", "(int(np.ceil(kernel_shape[1] / 2)) - 1)"
    window = f"self.native[{cy}:int(self.mask.shape[0]) - {cy}, {cx}:int(self.mask.shape[1]) - {cx}]"
    vals = wire.inline_locals(t, kwn["values"]) if "values" in kwn else None
    arr = wire.kw(vals).get("array_2d") if isinstance(vals, ast.Call) and norm_text(vals.func).endswith("convert_array_2d") else None
    ok = arr is not None and norm_text(arr, 2000) == canon_src(window, 2000)
    ctx.ob(rule, t.key + ":window", ok, where=t, node=t.node, construct=norm_text(arr, 400) if arr is not None else "no converted window",
           message="trimming must cut ceil(K/2) - 1 cells from both ends of each axis, each axis with its own kernel extent and array extent")
    want_mask = canon_src(f"self.mask.resized_from(new_shape={window}.shape)", 2000)
    m_ret = norm_text(wire.inline_locals(t, kwn["mask"]), 2000) if "mask" in kwn else None
    m_conv = norm_text(wire.kw(vals).get("mask_2d"), 2000) if arr is not None and wire.kw(vals).get("mask_2d") is not None else None
    kwv = {k: norm_text(v) for k, v in kwn.items()}
    ctx.ob(rule, t.key + ":mask", m_ret == want_mask and m_conv == want_mask, where=t, node=t.node, construct=str(kwv)[:300], message="the trimmed values must be returned on the parent mask resized (centred) to the trimmed shape")
    # pad -> trim identity for odd kernels, by parity algebra: N' = N + K - 1, source placed at floor(N'/2) - floor(N/2), window starts at ceil(K/2) - 1
    n, h = S_("n"), S_("h")
    bad = []
    for pn in (0, 1):
        N = TWO * n + Poly.const(pn)
        Kk = TWO * h + ONE
        Np = N + Kk - ONE
        place = simplify_parity(fd(Np) - fd(N))          # destination index of source pixel 0 after padding
        cut = h                                           # ceil((2h+1)/2) - 1 = h
        length = Np - TWO * cut
        if place != cut or length != N:
            bad.append((pn, repr(place), repr(length)))
        # the mask crop offset equals the array cut: floor(N'/2) - floor((N' - 2 cut)/2) = cut
        crop = simplify_parity(fd(Np) - fd(Np - TWO * cut))
        if crop != cut:
            bad.append((pn, "mask crop " + repr(crop)))
    ctx.ob(rule, "pad-then-trim", not bad, where=t, node=t.node, construct=str(bad) if bad else "source placed at index h, window [h, N + h): identity; mask crop offset = array cut",
           message="padding for an odd kernel K = 2h + 1 followed by trimming for the same kernel must select exactly the original cells (and crop the mask by the same offset)")


def _pad_alternative(m, util_call, asg) -> bool:
    """the two assignments are the two arms of one `if`: one arm is the resize util, the other np.pad of the SAME array, taken only when neither axis shrinks, with leading
    widths new // 2 - old // 2 (where the util puts pixel 0 of the source) and trailing widths that make up the new extent - the util's placement written as a padding"""
    from ..forms import expr_poly
    a_util = [a for a in asg if any(x is util_call for x in ast.walk(a.value))]
    a_pad = [a for a in asg if a not in a_util]
    if len(a_util) != 1 or len(a_pad) != 1:
        return False
    bu, bp = wire.enclosing_branches(m, a_util[0]), wire.enclosing_branches(m, a_pad[0])
    if len(bu) != 1 or len(bp) != 1 or bu[0][0] is not bp[0][0] or bu[0][1] == bp[0][1]:
        return False
    pc = a_pad[0].value
    if not (isinstance(pc, ast.Call) and norm_text(pc.func) in ("np.pad", "numpy.pad")):
        return False
    b = wire.kw(pc)
    arr = b.get("array", pc.args[0] if pc.args else None)
    pw = b.get("pad_width", pc.args[1] if len(pc.args) > 1 else None)
    mode = b.get("mode")
    if arr is None or pw is None or (mode is not None and norm_text(mode) not in ("'constant'", '"constant"')) or ("constant_values" in b and norm_text(b["constant_values"]) not in ("0", "0.0")):
        return False
    # the same data as the util receives
    data_u = norm_text(wire.strip_np_array(wire.inline_locals(m, wire.kw(util_call).get("array_2d"))))
    a0 = wire.inline_locals(m, arr)
    while isinstance(a0, ast.Call) and isinstance(a0.func, ast.Attribute) and a0.func.attr == "astype":
        a0 = a0.func.value
    if norm_text(wire.strip_np_array(a0)) != data_u:
        return False
    new = norm_text(wire.inline_locals(m, wire.kw(util_call).get("resized_shape")))
    pw = wire.inline_locals(m, pw)
    if not (isinstance(pw, (ast.Tuple, ast.List)) and len(pw.elts) == 2 and all(isinstance(x, (ast.Tuple, ast.List)) and len(x.elts) == 2 for x in pw.elts)):
        return False
    src = norm_text(a0)
    for k, (lo, hi) in enumerate((x.elts for x in pw.elts)):
        want_lo = expr_poly(ast.parse(f"({new})[{k}] // 2 - ({src}).shape[{k}] // 2", mode="eval").body)
        want_sum = expr_poly(ast.parse(f"({new})[{k}] - ({src}).shape[{k}]", mode="eval").body)
        if expr_poly(lo) != want_lo or expr_poly(lo) + expr_poly(hi) != want_sum:
            return False
    # taken only when both extents grow or stay
    conds = [(t, tr) for t, tr in wire.path_conds(m, a_pad[0], inline=True)]
    need = [f"({new})[{k}] - ({src}).shape[{k}] >= 0" for k in (0, 1)]
    from ..forms import cond_equiv
    for nd in need:
        if not any(tr and _same_cond(t, nd) for t, tr in conds):
            return False
    return True


def _same_cond(a: str, b: str) -> bool:
    """two comparisons `L >= 0` equal as canonical forms (either may be written `0 <= L`, `X >= Y`)"""
    from ..forms import expr_poly

    def diff(t):
        e = ast.parse(t, mode="eval").body
        if not (isinstance(e, ast.Compare) and len(e.ops) == 1):
            return None
        l, r = expr_poly(e.left), expr_poly(e.comparators[0])
        if isinstance(e.ops[0], ast.GtE):
            return l - r
        if isinstance(e.ops[0], ast.LtE):
            return r - l
        return None
    da, db = diff(a), diff(b)
    return da is not None and db is not None and da == db


def _sole_producer(ctx, rule, m, cs, rets, kwname, what):
    """the value returned under keyword `kwname` is produced by the single util call cs[0] on EVERY path (values and mask are placed by one and the same window arithmetic)"""
    ok = len(cs) == 1 and len(rets) == 1 and isinstance(rets[0].value, ast.Call)
    det = "util call or return not unique"
    if ok:
        chain = []

        def flows(e, depth=0) -> bool:
            """e is the util call, or a value-preserving wrapper / single-assignment local around it, never chosen by a branch"""
            if e is cs[0]:
                return not wire.enclosing_branches(m, cs[0])
            if depth > 6:
                return False
            if isinstance(e, ast.Name):
                asg = [n for n in m.body_nodes() if isinstance(n, (ast.Assign, ast.AugAssign, ast.For)) and any(isinstance(x, ast.Name) and x.id == e.id and isinstance(x.ctx, ast.Store)
                                                                                                               for t in (n.targets if isinstance(n, ast.Assign) else [n.target]) for x in ast.walk(t))]
                chain.append(f"{e.id}:{len(asg)}")
                if len(asg) == 2 and all(isinstance(a_, ast.Assign) for a_ in asg) and _pad_alternative(m, cs[0], asg):
                    chain.append("np.pad with the util's own offsets where nothing is cut")
                    return True
                return len(asg) == 1 and isinstance(asg[0], ast.Assign) and not wire.enclosing_branches(m, asg[0]) and flows(asg[0].value, depth + 1)
            if isinstance(e, ast.Call):
                # the data argument of a converter / cast:  f(array_2d=X, ...), X.astype(...), np.array(X)
                cands = []
                if isinstance(e.func, ast.Attribute) and e.func.attr in ("astype", "copy"):
                    cands.append(e.func.value)
                cands += [k.value for k in e.keywords if k.arg in ("array_2d", "values", "mask", "array")]
                if norm_text(e.func) in ("np.array", "numpy.array", "np.asarray") and e.args:
                    cands.append(e.args[0])
                return any(flows(x, depth + 1) for x in cands)
            return False
        v = wire.kw(rets[0].value).get(kwname)
        ok = v is not None and flows(v)
        det = f"{kwname} <- {' <- '.join(chain) or 'direct'}"
    ctx.ob(rule, m.key + ":sole-producer", ok, where=m, node=cs[0] if cs else m.node, construct=det,
           message=f"{what} must come from the one resize util on every path: a second way of placing the data (np.pad, slicing) uses its own offsets, which differ from the util's floor(new/2) - floor(old/2) for some parities, "
                   f"and the values detach from the mask")


def class_rule(ctx, p):
    rule = "C14.geometry"
    c = p.cls("autoarray.structures.arrays.uniform_2d:AbstractArray2D")
    m = c.lookup("resized_from")
    callee = p.func(f"{A2}:resized_array_2d_from")
    cs = wire.calls_to(p, m, callee.key)
    got = {k: norm_text(wire.strip_np_array(wire.inline_locals(m, v))) for k, v in wire.kw(cs[0], callee).items()} if len(cs) == 1 else {}
    rets = wire.returns_of(m)
    kwv = wire.kwr(m, rets[0].value) if rets and isinstance(rets[0].value, ast.Call) else {}   # name-free: the mask handed on is the parent mask resized to the same new shape
    txt = {"resized_mask": kwv.get("mask")}
    ok = got == {"array_2d": "self.native", "resized_shape": "new_shape"} and kwv.get("mask") == "self.mask.resized_from(new_shape=new_shape, pad_value=mask_pad_value)"
    ctx.ob(rule, m.key, ok, where=m, node=m.node, construct=f"{got}; mask {txt.get('resized_mask')}", message="values and mask must be resized to the same new shape; the result lives on the resized parent mask (which carries pixel scales and origin)")
    _sole_producer(ctx, rule, m, cs, rets, "values", "the values of the resized array")
    mm = p.cls("autoarray.mask.mask_2d:Mask2D").lookup("resized_from")
    cs = wire.calls_to(p, mm, callee.key)
    got = {k: norm_text(wire.strip_np_array(v)) for k, v in wire.kw(cs[0], callee).items()} if len(cs) == 1 else {}
    rets = wire.returns_of(mm)
    kwv = {k: norm_text(v) for k, v in wire.kw(rets[0].value).items()} if rets and isinstance(rets[0].value, ast.Call) else {}
    kwv.pop("mask", None)   # where the mask comes from is the sole-producer obligation below
    ctx.ob(rule, mm.key, got == {"array_2d": "self", "resized_shape": "new_shape", "pad_value": "pad_value"} and kwv == {"pixel_scales": "self.pixel_scales", "origin": "self.origin"},
           where=mm, node=rets[0] if rets else mm.node, construct=f"{got} -> {kwv}", message="the resized mask must keep the parent's pixel scales AND origin (otherwise surviving pixels lose their coordinates)")
    _sole_producer(ctx, rule, mm, cs, rets, "mask", "the resized mask")
    # automatic padding when masking: data and noise map padded identically
    init = p.cls("autoarray.dataset.imaging.dataset:Imaging").methods.get("__init__")
    if init is None:
        raise AnchorMissing("Imaging.__init__")
    pads = [cc for cc in init.calls() if isinstance(cc.func, ast.Attribute) and cc.func.attr == "padded_before_convolution_from"]
    got = sorted((norm_text(cc.func.value), tuple(sorted((k, norm_text(v)) for k, v in wire.kw(cc).items()))) for cc in pads)
    want = sorted((who, (("kernel_shape", "psf.shape_native"), ("mask_pad_value", "1"))) for who in ("data", "noise_map"))
    ctx.ob(rule, init.key + ":auto-pad", got == want, where=init, node=pads[0] if pads else init.node, construct=str(got), message="data and noise map must be padded with the same kernel shape and the same mask pad value")
    br = wire.enclosing_branches(init, pads[0]) if pads else []
    trig = [cc for cc in init.calls() if isinstance(cc.func, ast.Attribute) and cc.func.attr == "blurring_from"]
    okt = len(trig) == 1 and norm_text(trig[0].func.value) == "data.mask.derive_mask" and norm_text(wire.kw(trig[0]).get("kernel_shape_native")) == "psf.shape_native"
    hand = [n for n in init.body_nodes() if isinstance(n, ast.Try)]
    okt = okt and len(hand) >= 1 and any(norm_text(h.type) == "exc.MaskException" for h in hand[0].handlers)
    ctx.ob(rule, init.key + ":trigger", okt, where=init, node=trig[0] if trig else init.node, construct=norm_text(trig[0]) if trig else "", message="padding must be triggered by the blurring region of the data's own mask leaving the frame for the PSF's own shape")


def zoom_rule(ctx, p, K):
    rule = "C14.zoom"
    f = p.func(f"{A2}:extracted_array_2d_from")
    S = K.summarize(f, dict(array_2d=Ref("A", shape=(H, W)), y0=S_("y0"), y1=S_("y1"), x0=S_("x0"), x1=S_("x1")))
    out = S.returned_array_names()
    sts = S.stores_to(out[0]) if len(out) == 1 else []
    ok = len(sts) == 1 and len(sts[0].loops) == 2
    det = ""
    if ok:
        st = sts[0]
        yr, xr = S_(st.loops[0].var), S_(st.loops[1].var)
        y0, x0, y1, x1 = S_("y0"), S_("x0"), S_("y1"), S_("x1")
        det = repr(st)[:300]
        got = set()
        for g in real_guards(st.guards):
            got |= conj_set(g)
        ok = st.idx == (yr, xr) and isinstance(st.value, Ref) and st.value.name == "A" and st.value.idx == (y0 + yr, x0 + xr) \
            and (st.loops[0].lo, st.loops[0].hi) == (ZERO, y1 - y0) and (st.loops[1].lo, st.loops[1].hi) == (ZERO, x1 - x0) \
            and canon_bounds(got, y0 + yr, x0 + xr, H, W) == bounds(y0 + yr, x0 + xr, H, W)
        shp = getattr(S.env.get(out[0]), "shape", None)
        ok = ok and shp is not None and shp[:2] == (y1 - y0, x1 - x0)
    if not ok and len(sts) == 1 and not sts[0].loops:
        # the same window written as ONE block copy: the overlap [max(o, 0), min(e, extent)) of the window [o, e) with the frame, copied to the same cells shifted by -o
        st = sts[0]
        det = repr(st)[:300]

        def sl(ix):
            ats = list(ix.atoms()) if isinstance(ix, Poly) else []
            if len(ats) == 1 and ats[0][0] == "f" and ats[0][1] == "slice" and ix == Poly.atom(ats[0]):
                lo, hi, step = ats[0][2]
                if repr(step) in ("None", "1"):
                    return lo, hi
            return None
        y0, x0, y1, x1 = S_("y0"), S_("x0"), S_("y1"), S_("x1")
        okb = len(st.idx) == 2 and isinstance(st.value, Ref) and st.value.name == "A" and len(st.value.idx) == 2 and st.op == "="
        if okb:
            for k_, (o_, e_, n_) in enumerate(((y0, y1, H), (x0, x1, W))):
                d_, s_ = sl(st.idx[k_]), sl(st.value.idx[k_])
                lo_w, hi_w = Poly.fn("max", o_, ZERO), Poly.fn("min", e_, n_)
                lo_alt = Poly.fn("max", ZERO, o_)
                hi_alt = Poly.fn("min", n_, e_)
                okb = okb and d_ is not None and s_ is not None and s_[0] in (lo_w, lo_alt) and s_[1] in (hi_w, hi_alt) and d_[0] == s_[0] - o_ and d_[1] == s_[1] - o_
            # the only guard allowed: the overlap is not empty (an empty block copies nothing either way)
            for g in real_guards(st.guards):
                for c_ in g.flat_and():
                    okb = okb and c_.kind == "cmp" and c_.args[1] in ("<", "<=") and any(c_.args[0] in (Poly.fn("max", o_, ZERO), Poly.fn("max", ZERO, o_)) and c_.args[2] in (Poly.fn("min", e_, n_), Poly.fn("min", n_, e_))
                                                                                                 for o_, e_, n_ in ((y0, y1, H), (x0, x1, W))) and c_.args[1] == "<"
        shp = getattr(S.env.get(out[0]), "shape", None)
        ok = okb and shp is not None and shp[:2] == (y1 - y0, x1 - x0)
    ctx.ob(rule, f.key, ok, where=f, node=f.node, construct=det,
           message="window cell (i, j) must hold source pixel (y0 + i, x0 + j) whenever that pixel exists (cells outside the frame stay zero): the window is never shifted, whatever part of it leaves the frame")
    c = p.cls("autoarray.structures.arrays.uniform_2d:AbstractArray2D")
    m = c.lookup("zoomed_around_mask")
    cs = wire.calls_to(p, m, f.key)
    from ..forms import src_poly
    got = wire.kwr(m, cs[0], f, unpack=True) if len(cs) == 1 else {}   # name-free: temporaries and tuple-unpacked names replaced by what they stand for
    want = {k: canon_src(v) for k, v in {"array_2d": "self.native", "y0": "self.mask.zoom_region[0] - buffer", "y1": "self.mask.zoom_region[1] + buffer", "x0": "self.mask.zoom_region[2] - buffer", "x1": "self.mask.zoom_region[3] + buffer"}.items()}
    ctx.ob(rule, m.key, set(got) == set(want) and all(got[k] == want[k] or src_poly(got[k]) == src_poly(want[k]) for k in want), where=m, node=cs[0] if cs else m.node, construct=str(got), message="the zoom window must be the mask's zoom region widened by the buffer on every side, taken from the native values")
    mk = [cc for cc in m.calls() if norm_text(cc.func) == "Mask2D.all_false"]
    kwv = {k: norm_text(v) for k, v in wire.kw(mk[0]).items()} if mk else {}
    shp = wire.kw(mk[0]).get("shape_native") if mk else None
    if isinstance(shp, ast.Attribute) and shp.attr == "shape" and cs and wire.is_value_of(m, shp.value, cs[0]):
        kwv["shape_native"] = "extracted_array_2d.shape"   # the shape of the extracted window, under whatever name it is held
    ctx.ob(rule, m.key + ":geometry", kwv == {"shape_native": "extracted_array_2d.shape", "pixel_scales": "self.pixel_scales", "origin": "self.mask.mask_centre"}, where=m, node=mk[0] if mk else m.node, construct=str(kwv), message="the zoomed array keeps the pixel scales and is centred on the mask centre")
    # zoom region: bounding box of the unmasked pixels, only ever widened
    z = p.cls("autoarray.mask.mask_2d:Mask2D").lookup("zoom_region")
    # decided on every path's returned value with the locals substituted (sa/paths.py) and compared as canonical forms: [lo_y, hi_y, lo_x, hi_x] with
    # lo_k = min_k - (a non-negative whole number), hi_k = max_k + 1 + (a non-negative whole number), min / max over the unmasked pixels of axis k
    from .. import paths
    from ..forms import expr_poly, src_poly
    from ..poly import Poly as _Poly
    PS = paths.returns(paths.path_summaries(z, project=p) or [])
    WH = "np.array(np.where(np.invert(self.astype(dtype='bool'))))"
    base = {(fn, k): src_poly(f"{m}.{fn}({WH}, axis=1)[{k}]") for fn in ("amin", "amax") for k in (0, 1) for m in ("np",)}
    ok = bool(PS)
    aug = []
    for q in PS:
        v = q.value
        if not (isinstance(v, (ast.List, ast.Tuple)) and len(v.elts) == 4):
            ok = False
            continue
        for pos, (fn, k, plus) in enumerate((("amin", 0, 0), ("amax", 0, 1), ("amin", 1, 0), ("amax", 1, 1))):
            d = expr_poly(v.elts[pos]) - base[(fn, k)] - _Poly.const(plus)
            # d must be 0 or a floor-division / int(...) term of the right sign: a bound is only ever moved outwards
            terms = list(d.t.items())
            good = all(len(mono) == 1 and mono[0][1] == 1 and mono[0][0][0] == "f" and mono[0][0][1] in ("fdiv", "int") and ((coef < 0) if fn == "amin" else (coef > 0)) for mono, coef in terms)
            aug.append((pos, repr(d)[:60]))
            ok = ok and good
    rets = wire.returns_of(z)
    ctx.ob(rule, z.key, ok, where=z, node=z.node, construct=f"{[a_ for a_ in aug if a_[1] != '0'][:4]}; {len(PS)} returning path(s)", message="the zoom region must be [min row, max row + 1, min column, max column + 1] of the unmasked pixels, lower bounds only decreased and upper bounds only increased (every unmasked pixel inside)")


def run(ctx):
    p = ctx.p
    K = KEval(p)
    ctx.rule("C14.window", "resized_array_2d_from: destination (i, j) <- source (i + floor(H/2) - floor(R0/2), j + floor(W/2) - floor(R1/2)) when inside both arrays, pad_value when the source is outside, nothing else; parity case analysis: offset = (N - R)/2 for equal parity")
    ctx.rule("C14.pad-trim", "padding enlarges each axis by its own K - 1; trimming cuts ceil(K/2) - 1 per own axis; pad-then-trim for odd K is the identity window and crops the mask by the same offset (parity algebra)")
    ctx.rule("C14.geometry", "Array2D / Mask2D resize rebuild on the parent's pixel scales and origin; automatic padding pads data and noise map identically")
    ctx.rule("C14.zoom", "extracted window cell (i, j) = source (y0 + i, x0 + j) when it exists, never shifted; zoom window = zoom region +/- buffer; zoom region = bounding box of unmasked pixels, only widened")
    resize_rule(ctx, p, K)
    pad_trim_rule(ctx, p, K)
    class_rule(ctx, p)
    zoom_rule(ctx, p, K)


_A = "autoarray/structures/arrays/array_2d_util.py"
_U = "autoarray/structures/arrays/uniform_2d.py"
CONTROLS = [
    Control("x offset computed from the y extents", _A, in_func("resized_array_2d_from", "    if x_is_even:\n        x_min = origin[1] - int(resized_shape[1] / 2)", "    if x_is_even:\n        x_min = origin[1] - int(resized_shape[0] / 2)"), "C14.window"),
    Control("odd source arrays centred half a pixel off", _A, in_func("resized_array_2d_from", "        elif not y_is_even:\n            y_centre = int(array_2d.shape[0] / 2)", "        elif not y_is_even:\n            y_centre = int(array_2d.shape[0] / 2) + 1"), "C14.window"),
    Control("padding cells left at zero instead of pad_value", _A, in_func("resized_array_2d_from", "                    resized_array[y_resized, x_resized] = pad_value", "                    resized_array[y_resized, x_resized] = 0.0"), "C14.window"),
    Control("column bound tested against the row extent", _A, in_func("resized_array_2d_from", "if y >= 0 and y < array_2d.shape[0] and x >= 0 and x < array_2d.shape[1]:", "if y >= 0 and y < array_2d.shape[0] and x >= 0 and x < array_2d.shape[0]:"), "C14.window"),
    Control("mask resize drops the origin (seed C14/1)", "autoarray/mask/mask_2d.py", in_func("Mask2D.resized_from", "            pixel_scales=self.pixel_scales,\n            origin=self.origin,\n", "            pixel_scales=self.pixel_scales,\n"), "C14.geometry"),
    Control("extraction clamps its ranges (seed C14/2 shape)", _A, in_func("extracted_array_2d_from", "    for y_resized, y in enumerate(range(y0, y1)):", "    for y_resized, y in enumerate(range(max(y0, 0), y1)):"), "C14.zoom"),
    Control("trim cuts one cell too many on x", _U, in_func("AbstractArray2D.trimmed_after_convolution_from", "psf_cut_x = int(np.ceil(kernel_shape[1] / 2)) - 1", "psf_cut_x = int(np.ceil(kernel_shape[1] / 2))"), "C14.pad-trim"),
    Control("padding uses the y kernel extent for x", _U, in_func("AbstractArray2D.padded_before_convolution_from", "self.shape_native[1] + (kernel_shape[1] - 1),", "self.shape_native[1] + (kernel_shape[0] - 1),"), "C14.pad-trim"),
    Control("pure enlargements padded by np.pad with pad//2 (seed C14/4)", _U, in_func("AbstractArray2D.resized_from", "        resized_array_2d = array_2d_util.resized_array_2d_from(\n            array_2d=np.array(self.native), resized_shape=new_shape\n        )",
            "        if new_shape[0] >= self.shape_native[0] and new_shape[1] >= self.shape_native[1]:\n            py, px = new_shape[0] - self.shape_native[0], new_shape[1] - self.shape_native[1]\n            resized_array_2d = np.pad(np.array(self.native), ((py // 2, py - py // 2), (px // 2, px - px // 2)))\n        else:\n            resized_array_2d = array_2d_util.resized_array_2d_from(\n                array_2d=np.array(self.native), resized_shape=new_shape\n            )"), "C14.geometry"),
    Control("noise map padded with a different mask value", "autoarray/dataset/imaging/dataset.py", in_func("Imaging.__init__", "                    noise_map = noise_map.padded_before_convolution_from(\n                        kernel_shape=psf.shape_native, mask_pad_value=1", "                    noise_map = noise_map.padded_before_convolution_from(\n                        kernel_shape=psf.shape_native, mask_pad_value=0"), "C14.geometry"),
    Control("zoom window buffer only on the upper side", _U, in_func("AbstractArray2D.zoomed_around_mask", "y0=self.mask.zoom_region[0] - buffer,", "y0=self.mask.zoom_region[0],"), "C14.zoom"),
    Control("twin: bound written as <= N - 1", _A, in_func("resized_array_2d_from", "if y >= 0 and y < array_2d.shape[0] and x >= 0 and x < array_2d.shape[1]:", "if y >= 0 and y <= array_2d.shape[0] - 1 and x >= 0 and x <= array_2d.shape[1] - 1:"), None, twin=True),
]
