"""C18 - border relocation only pulls outliers radially inward to the border (DESIGN.md section 4, C18)."""
from __future__ import annotations

import ast
from fractions import Fraction

from ..keval import KEval, Ref, Cond, Const, Top, SLICE
from ..poly import Poly, ZERO, ONE
from ..forms import drop_implied_any, resolve_default_ite, value_poly, real_guards, short, is_full_range, norm_cond, CMP
from .. import wire
from ..model import norm_text, AnchorMissing
from ..controls import Control
from ..mutate import in_func

S_ = Poly.sym
E_ = Poly.elem
G2 = "autoarray.structures.grids.grid_2d_util"
BR = "autoarray.inversion.pixelization.border_relocator"
HALF = Poly.const(Fraction(1, 2))


def kernel_rule(ctx, p, K):
    rule = "C18.relocate"
    f = p.func(f"{G2}:relocated_grid_via_jit_from")
    for n in ("grid", "border_grid"):
        if n not in f.all_params:
            raise AnchorMissing(f"{f.key}: parameter {n}")
    S = K.summarize(f)
    out = S.returned_array_names()
    if len(out) != 1:
        ctx.ob(rule, f.key, None, message=f"expected one returned array, got {out}")
        return
    sts = S.stores_to(out[0])
    init = [s for s in sts if not s.loops]
    moved = [s for s in sts if s.loops]
    # (a) output starts as an element-wise copy of the input, one row per input row
    ref = S.env.get(out[0])
    okc = len(init) == 1 and isinstance(init[0].value, Ref) and init[0].value.name == "grid" and not init[0].value.idx and all(x == SLICE for x in init[0].idx) and not real_guards(init[0].guards) \
        and isinstance(getattr(ref, "shape_like", None), Ref) and ref.shape_like.name == "grid"
    ctx.ob(rule, f.key + ":copy", okc, where=f, node=init[0].node if init else f.node, construct=repr(init[0])[:120] if init else "no initial copy",
           message="the output must start as an element-wise copy of the input grid with the input's shape (interior points unchanged bit-for-bit, number and order preserved)")
    # (b) the only other store
    if len(moved) != 1 or len(moved[0].loops) != 1:
        ctx.ob(rule, f.key + ":single-move", False, where=f, node=moved[0].node if moved else f.node, construct=f"{len(moved)} stores besides the copy", message="exactly one store may move a point, inside one loop over the points")
        return
    mv = moved[0]
    l = mv.loops[0]
    k = S_(l.var)
    ctx.ob(rule, f.key + ":all-points", is_full_range(l, [S_("grid.shape[0]")]) and mv.idx[0] == k and all(x == SLICE for x in mv.idx[1:]) and mv.op == "=", where=f, node=mv.node, construct=f"{l!r}; idx {list(map(repr, mv.idx))}",
           message="every input row k is considered and, if moved, written back to the same row k")
    # the relocation centre: the local 2-vector that is filled component by component (whatever it is called)
    two = {}
    for s_ in S.stores:
        if s_.local and s_.idx in ((ZERO,), (ONE,)) and not s_.loops:
            two.setdefault(s_.arr, set()).add(s_.idx)
    BO = next((nm_ for nm_, ix_ in two.items() if ix_ == {(ZERO,), (ONE,)}), "border_origin")
    c0, c1 = E_(BO, ZERO), E_(BO, ONE)

    def rad(name, idx):
        return Poly.fn("sqrt", (E_(name, idx, ZERO) - c0) ** 2 + (E_(name, idx, ONE) - c1) ** 2)
    r_k = rad("grid", k)
    Rb_all = Poly.fn("sqrt", (E_("border_grid", S_(":"), ZERO) - c0) ** 2 + (E_("border_grid", S_(":"), ONE) - c1) ** 2)
    closest = Poly.fn("argmin", (E_("grid", k, ZERO) - E_("border_grid", S_(":"), ZERO)) ** 2 + (E_("grid", k, ONE) - E_("border_grid", S_(":"), ONE)) ** 2)
    Rb_closest = rad("border_grid", closest)
    mf = Rb_closest / r_k
    # centroid
    bo = {s.idx: value_poly(s.value) for s in S.stores_to(BO)}
    okc = bo == {(ZERO,): Poly.fn("mean", E_("border_grid", S_(":"), ZERO)), (ONE,): Poly.fn("mean", E_("border_grid", S_(":"), ONE))}
    ctx.ob(rule, f.key + ":centroid", okc, where=f, node=f.node, construct=str({repr(i): repr(v) for i, v in bo.items()}), message="the relocation centre must be the centroid (mean y, mean x) of the border points")
    # guards
    gs, mv_value = resolve_default_ite(drop_implied_any(real_guards(mv.guards), [l.var for l in mv.loops]), value_poly(mv.value))   # (a move factor defaulted to 1.0 and clamped with min(1.0, .) is the same test and the same factor)
    gs = [x for g_ in gs for x in g_.flat_and()]
    _unused = 0   # (an early return taken when no point lies beyond the smallest border radius is the same decision, made once)
    got = sorted(str(norm_cond(c)) for c in gs)
    want = sorted([str(norm_cond(CMP(r_k, ">", Poly.fn("min", Rb_all)))), str(norm_cond(CMP(mf, "<", ONE)))])
    ctx.ob(rule, f.key + ":guards", got == want, where=f, node=mv.node, construct="; ".join(got)[:500],
           message="a point may be moved only if (its radius from the centroid > the smallest border radius) and (move factor = nearest-border-point radius / its radius < 1): never outward, interior points untouched; "
                   "all radii measured from the same centroid, the nearest border point found by squared distance in both components")
    # moved point = factor * (p - c) + c : on the ray from the centroid through the point
    want_v = mf * (E_("grid", k) - S_(BO)) + S_(BO)
    v = mv_value
    ctx.ob(rule, f.key + ":on-ray", v == want_v, where=f, node=mv.node, construct=short(v, 260),
           message="the moved point must be factor * (p - c) + c with the same centre c (on its ray from the centroid, at the radius of the nearest border point)")


def furthest_rule(ctx, p, K):
    rule = "C18.sub-border"
    f = p.func(f"{G2}:furthest_grid_2d_slim_index_from")
    S = K.summarize(f)
    # squared distance of candidate k to the coordinate, per component paired with the right coordinate component
    # name-free: the candidate's squared distance is whatever scalar of the loop has that canonical form; the running maximum is the scalar set to it under the >= test
    loops1 = [l for l in S.loops if l.kind == "iter" and isinstance(getattr(l, "seq", None), Ref) and l.seq.name == "slim_indexes"]
    ok = len(loops1) == 1
    cand = dist = None
    if ok:
        lp = loops1[0]
        cand = lp.seq.index((S_(lp.var + "@"),)).poly()
        dist = (E_("grid_2d_slim", cand, ONE) - E_("coordinate", ONE)) ** 2 + (E_("grid_2d_slim", cand, ZERO) - E_("coordinate", ZERO)) ** 2
    dn = [(v, g, l) for (nm, v, op, g, l, n) in S.assigns if op == "=" and isinstance(v, Poly) and dist is not None and v == dist and len(l) == 1 and not real_guards(g)]
    ok = ok and len(dn) >= 1
    ctx.ob(rule, f.key + ":distance", ok, where=f, node=f.node, construct=short(dn[0][0]) if dn else "", message="the candidate distance must be (x - cx)^2 + (y - cy)^2 with y = grid[k, 0], x = grid[k, 1] and (cy, cx) = coordinate, over the given candidate indices only")
    upd = [(nm, v, g) for (nm, v, op, g, l, n) in S.assigns if op == "=" and l and real_guards(g)]
    ok2 = len(upd) == 2 and ok
    if ok2:
        best = [nm for nm, v, g in upd if isinstance(v, Poly) and v == dist]
        idxs = [nm for nm, v, g in upd if isinstance(v, Ref) and v.poly() == cand]
        ok2 = len(best) == 1 and len(idxs) == 1
        if ok2:
            for nm, v, g in upd:
                gg = real_guards(g)
                ok2 = ok2 and len(gg) == 1 and norm_cond(gg[0]) == norm_cond(CMP(dist, ">=", S_(best[0] + "~")))
            # the index returned is the remembered one
            ok2 = ok2 and [norm_text(r_.value) for r_ in wire.returns_of(f)] == [idxs[0]]
    ctx.ob(rule, f.key + ":keep-farthest", ok2 and ok, where=f, node=f.node, construct=str([(nm, [repr(c) for c in real_guards(g)][:1]) for nm, v, g in upd])[:300],
           message="the running maximum and the remembered index must be updated together, exactly when the candidate is at least as far (>=) as the farthest so far")
    rets = wire.returns_of(f)
    ctx.ob(rule, f.key + ":returns", len(rets) == 1 and isinstance(rets[0].value, ast.Name), where=f, node=f.node, construct="", message="the remembered index must be returned")
    # bounding-box centre
    g = p.func(f"{G2}:grid_2d_centre_from")
    G = K.summarize(g)
    A = lambda c: E_("grid_2d_slim", S_(":"), c)
    want = ((Poly.fn("max", A(ZERO)) + Poly.fn("min", A(ZERO))) * HALF, (Poly.fn("max", A(ONE)) + Poly.fn("min", A(ONE))) * HALF)
    ctx.ob(rule, g.key, G.ret == want, where=g, node=g.node, construct=repr(G.ret)[:200], message="the reference centre must be the centre of the bounding box: ((max y + min y)/2, (max x + min x)/2)")
    # sub_border_pixel_slim_indexes_from wiring
    h = p.func(f"{BR}:sub_border_pixel_slim_indexes_from")

    def one_call(key_or_name, by_name=False):
        cs = wire.calls_to(p, h, None if by_name else key_or_name, name=key_or_name if by_name else None)
        return cs[0] if len(cs) == 1 else None
    cb = one_call("autoarray.mask.mask_2d_util:border_slim_indexes_from")
    cg = one_call("autoarray.operators.over_sampling.over_sample_util:grid_2d_slim_over_sampled_via_mask_from")
    cc = one_call(f"{G2}:grid_2d_centre_from")
    cf = one_call(f"{G2}:furthest_grid_2d_slim_index_from")
    cs_ = one_call(f"{BR}:sub_slim_indexes_for_slim_index_via_mask_2d_from")
    if not all((cb, cg, cc, cf, cs_)):
        ctx.ob(rule, h.key, False, where=h, node=h.node, construct=f"border list {bool(cb)}, pixel-unit grid {bool(cg)}, centre {bool(cc)}, farthest {bool(cf)}, sub-index table {bool(cs_)}",
               message="the sub-border search must use: the border list of the mask, the over-sampled grid in pixel units, the bounding-box centre of that grid, and the farthest-point search among each border pixel's own sub-pixels")
        return

    def local(call):
        t = [n.targets[0].id for n in h.body_nodes() if isinstance(n, ast.Assign) and n.value is call and isinstance(n.targets[0], ast.Name)]
        return t[0] if t else None
    kg = {k: norm_text(wire.strip_np_array(v)) for k, v in wire.kw(cg).items()}
    ctx.ob(rule, h.key + ":pixel-units", kg == {"mask_2d": "mask_2d", "pixel_scales": "(1.0, 1.0)", "sub_size": "sub_size", "origin": "(0.0, 0.0)"}, where=h, node=cg, construct=str(kg),
           message="distances must be measured in pixel units: the over-sampled grid of the same mask and sub-size map with pixel_scales=(1.0, 1.0) and origin=(0.0, 0.0)")
    # name-free, from the abstract evaluation of the function (KEval): the arguments each routine actually receives, as canonical forms of what they were computed from
    H = K.summarize(h)
    rec = {}
    for ck, ca, cgd, cn in H.calls:
        rec.setdefault(ck.split(":")[-1], []).append(ca)

    def one_rec(nm):
        return rec[nm][0] if len(rec.get(nm, [])) == 1 else {}
    rc, rf = one_rec("grid_2d_centre_from"), one_rec("furthest_grid_2d_slim_index_from")
    grid_ref = rc.get("grid_2d_slim")
    okc = isinstance(grid_ref, Ref) and grid_ref.name.startswith("grid_2d_slim_over_sampled_via_mask_from#")
    ctx.ob(rule, h.key + ":centre", okc, where=h, node=cc, construct=repr(grid_ref)[:120], message="the reference centre must be the bounding-box centre of that pixel-unit grid")
    outs = H.returned_array_names()
    sts = H.stores_to(outs[0]) if len(outs) == 1 else []   # the returned array, whatever it is called
    okl = len(sts) == 1 and len(sts[0].loops) == 1 and sts[0].loops[0].lo == ZERO and sts[0].loops[0].step == ONE
    okf = False
    det = ""
    if okl and okc:
        i = S_(sts[0].loops[0].var)
        A0 = lambda c: Poly.elem(grid_ref.name, S_(":"), c)
        centre = ((Poly.fn("max", A0(ZERO)) + Poly.fn("min", A0(ZERO))) * HALF, (Poly.fn("max", A0(ONE)) + Poly.fn("min", A0(ONE))) * HALF)
        cands = rf.get("slim_indexes")
        det = f"grid {rf.get('grid_2d_slim')!r}; candidates {cands!r}"[:300]
        border_i = None
        if isinstance(cands, Ref) and cands.name.startswith("sub_slim_indexes_for_slim_index_via_mask_2d_from(") and len(cands.idx) == 1:
            border_i = cands.idx[0]
        okf = isinstance(rf.get("grid_2d_slim"), Ref) and rf["grid_2d_slim"].name == grid_ref.name and rf.get("coordinate") == centre and border_i is not None \
            and __import__("re").fullmatch(r"(int\()?border_slim_indexes_from#\d+\.\w+\[" + __import__("re").escape(sts[0].loops[0].var) + r"\]\)?", repr(border_i)) is not None   # element i of the border list (the array that routine returns, whatever it is called inside)
        # one entry per border pixel: the loop runs over the whole border list
        hi = sts[0].loops[0].hi
        okl = okl and ("total_border_pixels_from(" in repr(hi) or "border_pixels.shape[0]" in repr(hi))
    ctx.ob(rule, h.key + ":farthest", okl and okf, where=h, node=cf, construct=det, message="for each border pixel the farthest point must be searched among that pixel's OWN sub-pixels, on the pixel-unit grid, from the bounding-box centre")
    # stored at the border pixel's position in the output, one per border pixel
    oks = okl and sts[0].idx == (S_(sts[0].loops[0].var),) and not real_guards(sts[0].guards) and sts[0].op == "="
    ctx.ob(rule, h.key + ":store", oks, where=h, node=sts[0].node if sts else h.node, construct=repr(sts[0])[:160] if sts else "", message="entry i of the result must belong to border pixel i (order of the border list preserved)")
    kb = {k: norm_text(wire.strip_np_array(v)) for k, v in wire.kw(cb).items()}
    ks = {k: norm_text(wire.strip_np_array(v)) for k, v in wire.kw(cs_).items()}
    ctx.ob(rule, h.key + ":same-mask", kb == {"mask_2d": "mask_2d"} and ks == {"mask_2d": "mask_2d", "sub_size": "sub_size"}, where=h, node=cb, construct=f"{kb}; {ks}", message="border list and sub-index table must come from the same mask and sub-size map")
    # the sub-index table groups sub slim indices by their slim index
    t = p.func(f"{BR}:sub_slim_indexes_for_slim_index_via_mask_2d_from")
    cs = wire.calls_to(p, t, "autoarray.operators.over_sampling.over_sample_util:slim_index_for_sub_slim_index_via_mask_2d_from")
    app = [c for c in t.calls() if isinstance(c.func, ast.Attribute) and c.func.attr == "append"]
    loop = [n for n in t.node.body if isinstance(n, ast.For)]
    okt = len(cs) == 1 and len(app) == 1 and len(loop) == 1
    if okt:
        # however the loop is spelled (enumerate, range(len()), ...): element k of the slim-for-sub table selects the list, and k itself is appended (wire.loop_canon)
        okt = isinstance(app[0].func.value, ast.Subscript) and len(app[0].args) == 1
        if okt:
            sel = wire.loop_canon(t, loop[0], app[0].func.value.slice)
            val = wire.loop_canon(t, loop[0], app[0].args[0])
            table = norm_text(wire.inline_locals(t, cs[0]), limit=2000).replace(" ", "").replace('"', "'")
            okt = val == "__k__" and sel in (f"{table}[__k__]", f"{table}.astype('int')[__k__]", f"int({table}[__k__])", f"{table}.astype(dtype='int')[__k__]")
    ctx.ob(rule, t.key, okt, where=t, node=t.node, construct=norm_text(app[0]) if app else "", message="sub slim index j must be appended to the list of the slim pixel it belongs to (slim_for_sub_slim[j])")


_BORDER_SEQ = ("self.sub_border_grid", "self.sub_border_slim", "self.border_grid", "self.border_slim")


def _emptiness(test):
    """'empty' / 'nonempty' when the test says exactly that about one of the relocator's border sequences, else None."""
    if isinstance(test, ast.UnaryOp) and isinstance(test.op, ast.Not):
        e = _emptiness(test.operand)
        return None if e is None else ("nonempty" if e == "empty" else "empty")

    def count(e):
        if isinstance(e, ast.Call) and norm_text(e.func) == "len" and len(e.args) == 1 and norm_text(e.args[0]) in _BORDER_SEQ:
            return True
        t = norm_text(e)
        return any(t in (f"{b}.shape[0]", f"{b}.size") for b in _BORDER_SEQ)
    if count(test):
        return "nonempty"
    if isinstance(test, ast.Compare) and len(test.ops) == 1:
        l, op, r = test.left, test.ops[0], test.comparators[0]
        if count(r) and isinstance(l, ast.Constant):
            flip = {ast.Lt: ast.Gt, ast.Gt: ast.Lt, ast.LtE: ast.GtE, ast.GtE: ast.LtE}
            l, r, op = r, l, flip.get(type(op), type(op))()
        if count(l) and isinstance(r, ast.Constant) and type(r.value) is int:
            k = r.value
            table = {(ast.Eq, 0): "empty", (ast.NotEq, 0): "nonempty", (ast.Gt, 0): "nonempty", (ast.LtE, 0): "empty", (ast.Lt, 1): "empty", (ast.GtE, 1): "nonempty"}
            return table.get((type(op), k))
    return None


def entry_rule(ctx, p):
    rule = "C18.entry"
    c = p.cls(f"{BR}:BorderRelocator")
    callee = p.func(f"{G2}:relocated_grid_via_jit_from")
    for meth, gridarg, retempty in (("relocated_grid_from", "grid", "grid"), ("relocated_mesh_grid_from", "mesh_grid", "mesh_grid")):
        m = c.lookup(meth)
        if m is None:
            raise AnchorMissing(f"BorderRelocator.{meth}")
        cs = wire.calls_to(p, m, callee.key)
        got = {k: norm_text(wire.strip_np_array(v)) for k, v in wire.kw(cs[0], callee).items()} if len(cs) == 1 else {}
        ctx.ob(rule, f"{c.key}.{meth}", got == {"grid": gridarg, "border_grid": "grid[self.sub_border_slim]"}, where=m, node=cs[0] if cs else m.node, construct=str(got),
               message=f"the points relocated are `{gridarg}`; the border must be taken from the DATA grid argument at the sub-border indices (grid[self.sub_border_slim])")
        rets = wire.returns_of(m)
        wrap = [r for r in rets if isinstance(r.value, ast.Call) and norm_text(r.value.func) == "Grid2DIrregular" and cs and wire.kw(r.value).get("values") is cs[0]]
        ctx.ob(rule, f"{c.key}.{meth}:result", len(wrap) == 1, where=m, node=m.node, construct="", message="the relocated coordinates must be returned untouched as the irregular grid")
        # every other exit hands the input back unchanged and is taken only for an empty border (the property quantifies over non-empty borders)
        bad = []
        for r in rets:
            br = [(_emptiness(ast.parse(t_, mode="eval").body), t) for t_, t in wire.path_conds(m, r, inline=True)]
            if r in wrap:
                if any(e is None or (e == "empty") == t for e, t in br):
                    bad.append(r)
            elif not (r.value is not None and norm_text(r.value) == retempty and len(br) == 1 and br[0][0] is not None and (br[0][0] == "empty") == br[0][1]):
                bad.append(r)
        ctx.ob(rule, f"{c.key}.{meth}:exits", not bad, where=m, node=bad[0] if bad else m.node, construct=norm_text(bad[0])[:160] if bad else "",
               message=f"the only exit that skips the relocation returns `{retempty}` itself and is taken exactly when the border is empty (len(self.sub_border_grid) == 0); the relocation itself must not depend on anything else")
    m = c.lookup("sub_border_slim")
    h = p.func(f"{BR}:sub_border_pixel_slim_indexes_from")
    cs = wire.calls_to(p, m, h.key)
    got = {k: norm_text(wire.strip_np_array(v)) for k, v in wire.kw(cs[0], h).items()} if len(cs) == 1 else {}
    ctx.ob(rule, f"{c.key}.sub_border_slim", got == {"mask_2d": "self.mask", "sub_size": "self.sub_size"}, where=m, node=cs[0] if cs else m.node, construct=str(got), message="sub-border indices must be computed for the relocator's own mask and sub-size map")
    # mesh vertices: relocated against the border of the data grid
    ab = p.cls("autoarray.inversion.pixelization.mesh.abstract:AbstractMesh")
    for meth, call_name, want in (("relocated_grid_from", "relocated_grid_from", {"grid": "source_plane_data_grid"}),
                                  ("relocated_mesh_grid_from", "relocated_mesh_grid_from", {"grid": "source_plane_data_grid", "mesh_grid": "source_plane_mesh_grid"})):
        m = ab.lookup(meth)
        if m is None:
            raise AnchorMissing(f"AbstractMesh.{meth}")
        cs = [cc for cc in m.calls() if isinstance(cc.func, ast.Attribute) and cc.func.attr == call_name and norm_text(cc.func.value) == "border_relocator"]
        got = {k: norm_text(v) for k, v in wire.kw(cs[0]).items()} if len(cs) == 1 else {}
        ctx.ob(rule, f"{ab.key}.{meth}", got == want, where=m, node=cs[0] if cs else m.node, construct=str(got), message=f"expected border_relocator.{call_name}({want})")
        # the relocator is consulted exactly when one is given: its call sits under `border_relocator is not None`; an exit that hands the input back is taken only without a relocator
        def given(conds):
            """True / False when the path conditions say a relocator is given / absent, None when they do not say"""
            for t_, truth in conds:
                t_ = t_.replace(" ", "")
                if t_ in ("border_relocatorisnotNone", "border_relocator"):
                    return truth
                if t_ == "border_relocatorisNone":
                    return not truth
            return None
        passthrough = "source_plane_data_grid" if meth == "relocated_grid_from" else "source_plane_mesh_grid"
        bad = []
        for r in wire.returns_of(m):
            conds = wire.path_conds(m, r, inline=True)
            if cs and any(sub is cs[0] for sub in ast.walk(r)):
                if given(conds) is not True:
                    bad.append(r)
            elif r.value is not None and norm_text(r.value) == passthrough:
                if given(conds) is not False:
                    bad.append(r)
        ctx.ob(rule, f"{ab.key}.{meth}:given", bool(cs) and not bad, where=m, node=bad[0] if bad else m.node, construct=norm_text(bad[0])[:160] if bad else "",
               message=f"border_relocator.{call_name} must be the result whenever a relocator is given (border_relocator is not None); `{passthrough}` may be handed back unchanged only without one")


def run(ctx):
    p = ctx.p
    K = KEval(p)
    ctx.rule("C18.relocate", "relocated_grid_via_jit_from: output = copy of the input; the only other store is dominated by (radius > min border radius) and (move factor < 1); moved point = factor*(p - c) + c with one centroid c; row k -> row k")
    ctx.rule("C18.sub-border", "sub-border indices: pixel-unit grid (scales (1,1), origin (0,0)), bounding-box centre, farthest (>=) candidate among the border pixel's own sub-pixels, one entry per border pixel in order")
    ctx.rule("C18.entry", "entry points: the points relocated are the argument grid; the border is taken from the DATA grid argument at the sub-border indices; mesh vertices use the data grid's border")
    kernel_rule(ctx, p, K)
    furthest_rule(ctx, p, K)
    entry_rule(ctx, p)


_G = "autoarray/structures/grids/grid_2d_util.py"
_B = "autoarray/inversion/pixelization/border_relocator.py"
CONTROLS = [
    Control("move-factor guard removed (points may move outward)", _G, in_func("relocated_grid_via_jit_from", "            if move_factor < 1.0:\n                grid_relocated[pixel_index, :] = (\n                    move_factor * (grid[pixel_index, :] - border_origin[:])\n                    + border_origin[:]\n                )",
                                                                           "            grid_relocated[pixel_index, :] = (\n                move_factor * (grid[pixel_index, :] - border_origin[:])\n                + border_origin[:]\n            )"), "C18.relocate"),
    Control("interior test uses >=", _G, in_func("relocated_grid_via_jit_from", "if grid_radii[pixel_index] > border_min_radii:", "if grid_radii[pixel_index] >= border_min_radii:"), "C18.relocate"),
    Control("moved point not re-centred", _G, in_func("relocated_grid_via_jit_from", "move_factor * (grid[pixel_index, :] - border_origin[:])\n                    + border_origin[:]", "move_factor * (grid[pixel_index, :] - border_origin[:])"), "C18.relocate"),
    Control("nearest border point by y only", _G, in_func("relocated_grid_via_jit_from", "np.square(grid[pixel_index, 0] - border_grid[:, 0])\n                + np.square(grid[pixel_index, 1] - border_grid[:, 1])", "np.square(grid[pixel_index, 0] - border_grid[:, 0])"), "C18.relocate"),
    Control("output starts as zeros only", _G, in_func("relocated_grid_via_jit_from", "    grid_relocated[:, :] = grid[:, :]\n", ""), "C18.relocate"),
    Control("mesh: relocator consulted only when absent", "autoarray/inversion/pixelization/mesh/abstract.py", in_func("AbstractMesh.relocated_mesh_grid_from", "if border_relocator is not None:", "if border_relocator is None:"), "C18.entry"),
    Control("twin: mesh relocator test by early return", "autoarray/inversion/pixelization/mesh/abstract.py", in_func("AbstractMesh.relocated_mesh_grid_from", "        if border_relocator is not None:\n            return border_relocator.relocated_mesh_grid_from(\n                grid=source_plane_data_grid, mesh_grid=source_plane_mesh_grid\n            )\n        return source_plane_mesh_grid",
            "        if border_relocator is None:\n            return source_plane_mesh_grid\n        return border_relocator.relocated_mesh_grid_from(\n            grid=source_plane_data_grid, mesh_grid=source_plane_mesh_grid\n        )"), None, twin=True),
    Control("empty-border exit negated (a non-empty border relocates nothing)", _B, in_func("BorderRelocator.relocated_grid_from", "if len(self.sub_border_grid) == 0:", "if not len(self.sub_border_grid) == 0:"), "C18.entry"),
    Control("empty-border exit taken for a one-point border", _B, in_func("BorderRelocator.relocated_mesh_grid_from", "if len(self.sub_border_grid) == 0:", "if len(self.sub_border_grid) <= 1:"), "C18.entry"),
    Control("twin: empty-border exit by truthiness", _B, in_func("BorderRelocator.relocated_grid_from", "if len(self.sub_border_grid) == 0:", "if not len(self.sub_border_slim):"), None, twin=True),
    Control("mesh relocation uses the image-plane border (seed C18/1)", _B, in_func("BorderRelocator.relocated_mesh_grid_from", "border_grid=np.array(grid[self.sub_border_slim]),", "border_grid=np.array(self.sub_border_grid),"), "C18.entry"),
    Control("centre is the centroid (seed C18/2)", _B, in_func("sub_border_pixel_slim_indexes_from", "mask_centre = grid_2d_util.grid_2d_centre_from(grid_2d_slim=sub_grid_2d_slim)", "mask_centre = (np.mean(sub_grid_2d_slim[:, 0]), np.mean(sub_grid_2d_slim[:, 1]))"), "C18.sub-border"),
    Control("sub-border search in scaled units", _B, in_func("sub_border_pixel_slim_indexes_from", "pixel_scales=(1.0, 1.0),", "pixel_scales=(1.0, 2.0),"), "C18.sub-border"),
    Control("farthest search keeps the first of ties (>)", _G, in_func("furthest_grid_2d_slim_index_from", "if distance_to_centre_new >= distance_to_centre:", "if distance_to_centre_new > distance_to_centre:"), "C18.sub-border"),
    Control("farthest search pairs x with centre y", _G, in_func("furthest_grid_2d_slim_index_from", "(x - coordinate[1]) ** 2 + (y - coordinate[0]) ** 2", "(x - coordinate[0]) ** 2 + (y - coordinate[1]) ** 2"), "C18.sub-border"),
    Control("twin: radius computed with ** 2", _G, in_func("relocated_grid_via_jit_from", "np.square(np.subtract(grid[:, 0], border_origin[0])),\n            np.square(np.subtract(grid[:, 1], border_origin[1])),", "(grid[:, 0] - border_origin[0]) ** 2.0,\n            (grid[:, 1] - border_origin[1]) ** 2.0,"), None, twin=True),
]
