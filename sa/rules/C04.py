"""C04 - data vector and curvature matrix equal the normal equations in both formalisms (DESIGN.md section 4, C04)."""
from __future__ import annotations

import ast

from ..keval import KEval, Ref, Cond, Const, Top
from ..poly import Poly, ZERO, ONE
from ..forms import (value_poly, check_accumulate, nests_of, real_guards, short, scalar_accumulations, scalar_resets, acc_name_of, is_zero_test,
                     is_full_range)
from .. import wire
from ..model import canon_src, norm_text, AnchorMissing
from ..controls import Control
from ..mutate import in_func

IU = "autoarray.inversion.inversion.imaging.inversion_imaging_util"
UT = "autoarray.inversion.inversion.inversion_util"
S_ = Poly.sym
E_ = Poly.elem
TWO = Poly.const(2)


def need(f, *names):
    for n in names:
        if n not in f.all_params:
            raise AnchorMissing(f"{f.key}: parameter {n}")


def half(k):
    return Poly.fn("fdiv", S_(f"kernel_native.shape[{k}]"), TWO)


# --------------------------------------------------------------------------------------------------------------------
def wtilde_data_rule(ctx, p, K):
    rule = "C04.wtilde-data"
    f = p.func(f"{IU}:w_tilde_data_imaging_from")
    need(f, "image_native", "noise_map_native", "kernel_native", "native_index_for_slim_index")
    S = K.summarize(f)
    out = S.returned_array_names()
    if len(out) != 1:
        ctx.ob(rule, f.key, None, message=f"expected one returned array, got {out}")
        return
    sts = S.stores_to(out[0])
    if len(sts) != 1:
        ctx.ob(rule, f.key, False, where=f, node=f.node, construct=f"{len(sts)} stores into {out[0]}", message="w_tilde_data must be written once per image pixel")
        return
    st = sts[0]
    acc = acc_name_of(st.value)
    N = "native_index_for_slim_index"
    ok = acc is not None and len(st.loops) == 1 and is_full_range(st.loops[0], [S_(f"{N}.shape[0]")]) and st.idx == (S_(st.loops[0].var),) and not real_guards(st.guards)
    ctx.ob(rule, f.key + ":store", ok, where=f, node=st.node, construct=repr(st)[:160], message="w_tilde_data[ip] must receive the accumulated sum for every slim pixel ip")
    if not ok:
        return
    resets = [r for r in scalar_resets(S, acc) if tuple(id(l) for l in r[2]) == tuple(id(l) for l in st.loops)]
    ctx.ob(rule, f.key + ":reset", len(resets) == 1 and resets[0][0] == ZERO, where=f, node=st.node, construct=f"{acc} resets: {[repr(r[0]) for r in resets]}",
           message="the per-pixel accumulator must be reset to 0 once per image pixel")
    roles = {"ip": [S_(f"{N}.shape[0]")], "ky": [S_("kernel_native.shape[0]")], "kx": [S_("kernel_native.shape[1]")]}

    def val(b):
        yy = E_(N, b["ip"], ZERO) + b["ky"] - half(0)
        xx = E_(N, b["ip"], ONE) + b["kx"] - half(1)
        return E_("kernel_native", b["ky"], b["kx"]) * E_("image_native", yy, xx) / (E_("noise_map_native", yy, xx) ** 2)

    def nan_guard(c, b):
        w = val(b) / E_("kernel_native", b["ky"], b["kx"])
        return c.kind == "not" and c.args[0].kind == "truth" and c.args[0].args[0] == Poly.fn("isnan", w)
    check_accumulate(ctx, rule, S, acc, roles, lambda b: (), val, stores=scalar_accumulations(S, acc), require_zero_init=False, allowed_guard=nan_guard,
                     what="kernel[ky,kx] * image/noise^2 at (y + ky - floor(K0/2), x + kx - floor(K1/2)): each axis shifted by its own kernel half-width")


def wtilde_value_rule(ctx, p, K):
    rule = "C04.wtilde-value"
    f = p.func(f"{IU}:w_tilde_curvature_value_from")
    need(f, "value_native", "kernel_native", "ip0_y", "ip0_x", "ip1_y", "ip1_x")
    S = K.summarize(f)
    # the accumulator is what is returned
    accs = {acc_name_of(v) for v, _, _ in S.returns if isinstance(v, Poly)} - {None}
    if len(accs) != 1:
        ctx.ob(rule, f.key, None, message=f"cannot identify the accumulated return value (candidates {accs})")
        return
    acc = accs.pop()
    dy, dx = S_("ip0_y") - S_("ip1_y"), S_("ip0_x") - S_("ip1_x")
    roles = {"ky": [S_("kernel_native.shape[0]")], "kx": [S_("kernel_native.shape[1]")]}

    def pos(b):
        return S_("ip0_y") + b["ky"] - half(0), S_("ip0_x") + b["kx"] - half(1)

    def val(b):
        yy, xx = pos(b)
        return E_("kernel_native", b["ky"], b["kx"]) * E_("kernel_native", b["ky"] + dy, b["kx"] + dx) / (E_("value_native", yy, xx) ** 2)
    K0, K1 = S_("kernel_native.shape[0]"), S_("kernel_native.shape[1]")

    def allowed(c, b):
        yy, xx = pos(b)
        v = E_("value_native", yy, xx)
        if c.kind == "cmp" and c.args[0] == ZERO and c.args[1] == "<" and c.args[2] == v:
            return True  # domain guard on the divisor: value > 0 (comparisons are stored oriented to < / <=)
        k1y, k1x = b["ky"] + dy, b["kx"] + dx
        if c.kind == "cmp":
            a, op, r = c.args
            if (a, op, r) in ((k1y, ">=", ZERO), (k1x, ">=", ZERO), (k1y, "<", K0), (k1x, "<", K1), (ZERO, "<=", k1y), (ZERO, "<=", k1x)):
                return True
        return False
    stores = scalar_accumulations(S, acc)
    stores = [s for s in stores if s.op in ("+=", "-=")]
    okacc = check_accumulate(ctx, rule, S, acc, roles, lambda b: (), val, stores=stores, require_zero_init=False, allowed_guard=lambda c, b: allowed(c, b) or getattr(c, "path", None) == "exit" or _is_shortcut(c, dy, dx),
                             what="kernel[k0] * kernel[k0 + (ip0 - ip1)] / noise^2 at ip0 + k0 - floor(K/2) per axis")
    # all four in-kernel bounds of the second kernel index must be present
    if okacc and stores:
        b = {"ky": S_(stores[0].loops[-2].var), "kx": S_(stores[0].loops[-1].var)}
        k1y, k1x = b["ky"] + dy, b["kx"] + dx
        have = set()
        for c in real_guards(stores[0].guards):
            if c.kind == "cmp":
                a, op, r = c.args
                for tag, forms in (("y>=0", ((k1y, ">=", ZERO), (ZERO, "<=", k1y))), ("x>=0", ((k1x, ">=", ZERO), (ZERO, "<=", k1x))),
                                   ("y<K0", ((k1y, "<", K0),)), ("x<K1", ((k1x, "<", K1),))):
                    if (a, op, r) in forms:
                        have.add(tag)
        ctx.ob(rule, f.key + ":k1-bounds", have == {"y>=0", "x>=0", "y<K0", "x<K1"}, where=f, node=stores[0].node, construct=f"bounds {sorted(have)}",
               message="the second kernel index k0 + (ip0 - ip1) must be tested against its own axis' kernel extent on both sides of both axes")
    # the no-overlap shortcut, if present, must be axis-pure and return the untouched 0
    for v, guards, node in S.returns:
        gs = [g for g in guards if not getattr(g, "path", None)]
        if not gs:
            continue
        for g in gs:
            parts = g.args if g.kind == "or" else (g,)
            bad = [c for c in parts if not _shortcut_part(c, dy, dx)]
            ctx.ob(rule, f.key + ":shortcut", not bad and v == ZERO, where=f, node=node, construct=repr(bad[0]) if bad else repr(g)[:140],
                   message="the no-overlap early return must test |ip0 - ip1| > 2*floor(K/2) with each axis against its own kernel dimension and return 0")


def _shortcut_part(c, dy, dx):
    if c.kind != "cmp":
        return False
    a, op, r = c.args
    for d, k in ((dy, 0), (dx, 1)):
        h2 = TWO * half(k)
        if (a == d and op == "<" and r == -h2) or (a == h2 and op == "<" and r == d):  # d < -2h  or  d > 2h (stored as 2h < d)
            return True
        if a == h2 and op == "<" and r == Poly.fn("abs", d):  # |d| > 2h: both sides of this axis in one test
            return True
    return False


def _is_shortcut(c, dy, dx):
    if c.kind == "not" and c.args[0].kind == "or":
        return all(_shortcut_part(x, dy, dx) for x in c.args[0].args)
    return False


def preload_rule(ctx, p, K):
    rule = "C04.preload"
    f = p.func(f"{IU}:w_tilde_curvature_preload_imaging_from")
    need(f, "noise_map_native", "kernel_native", "native_index_for_slim_index")
    S = K.summarize(f)
    N = "native_index_for_slim_index"
    ret = S.ret
    if not (isinstance(ret, tuple) and len(ret) == 3 and all(isinstance(r, Ref) for r in ret)):
        ctx.ob(rule, f.key, None, message=f"expected (preload, indexes, lengths) arrays, got {ret!r}")
        return
    pre, ind, lens = ret
    # compaction stage: preload[c] = tmp_v[i, r], indexes[c] = tmp_i[i, r] for r < lengths[i]
    sp, si = S.stores_to(pre.name), S.stores_to(ind.name)
    ok = len(sp) == 1 and len(si) == 1 and isinstance(sp[0].value, Ref) and isinstance(si[0].value, Ref) and sp[0].idx == si[0].idx \
        and tuple(id(l) for l in sp[0].loops) == tuple(id(l) for l in si[0].loops) and len(sp[0].loops) == 2
    if ok:
        l0, l1 = sp[0].loops
        i, r = S_(l0.var), S_(l1.var)
        ok = is_full_range(l0, [S_(f"{N}.shape[0]")]) and l1.lo == ZERO and l1.step == ONE and l1.hi in (Poly.fn("int", E_(lens.name, i)), E_(lens.name, i)) \
            and sp[0].value.idx == (i, r) and si[0].value.idx == (i, r) and acc_name_of(sp[0].idx[0]) is not None and sp[0].idx[0] == S_(acc_name_of(sp[0].idx[0]) + "~")
    sliced = False
    if not ok and len(sp) == 1 and len(si) == 1 and isinstance(sp[0].value, Ref) and isinstance(si[0].value, Ref) and sp[0].idx == si[0].idx and len(sp[0].loops) == 1 \
            and tuple(id(l) for l in sp[0].loops) == tuple(id(l) for l in si[0].loops):
        # the same copy written row-block by row-block: preload[c : c + n_i] = tmp[i, 0 : n_i], c += n_i  (n_i = lengths[i])
        l0 = sp[0].loops[0]
        i = S_(l0.var)
        cn = acc_name_of(sp[0].idx[0]) if len(sp[0].idx) == 1 else None
        for n_i in (Poly.fn("int", E_(lens.name, i)), E_(lens.name, i)):
            if cn and sp[0].idx == (Poly.fn("slice", S_(cn + "~"), S_(cn + "~") + n_i, S_("None")),) and sp[0].value.idx == (i, Poly.fn("slice", ZERO, n_i, S_("None"))) \
                    and si[0].value.idx == sp[0].value.idx and is_full_range(l0, [S_(f"{N}.shape[0]")]):
                incs_ = [(v, op, g, l) for (nm, v, op, g, l, n) in S.assigns if nm == cn and op != "="]
                sliced = len(incs_) == 1 and incs_[0][0] == n_i and incs_[0][1] == "+=" and not real_guards(incs_[0][2]) and len(incs_[0][3]) == 1
    if sliced:
        ok = True
    ctx.ob(rule, f.key + ":compaction", ok, where=f, node=sp[0].node if sp else f.node, construct=repr(sp[0])[:150] if sp else "",
           message="the flat preload / index tables must copy rows [i, r < lengths[i]] of the per-pixel tables in order, one slot per entry")
    if not ok:
        return
    tv, ti = sp[0].value.name, si[0].value.name
    cnt = acc_name_of(sp[0].idx[0])
    incs = [(v, op, g, l) for (nm, v, op, g, l, n) in S.assigns if nm == cnt and op != "="]
    ctx.ob(rule, f.key + ":compaction-count", sliced or (len(incs) == 1 and incs[0][0] == ONE and incs[0][1] == "+=" and not real_guards(incs[0][2]) and len(incs[0][3]) == 2),
           where=f, node=sp[0].node, construct=f"{cnt}: {[(op, repr(v)) for v, op, *_ in incs]}", message="the flat slot counter must advance by 1 once per copied entry, unconditionally")
    # per-pixel table stage
    sv, sx = S.stores_to(tv), S.stores_to(ti)
    ok = len(sv) == 1 and len(sx) == 1 and len(sv[0].loops) == 2 and tuple(id(l) for l in sv[0].loops) == tuple(id(l) for l in sx[0].loops) and sv[0].idx == sx[0].idx
    if not ok:
        ctx.ob(rule, f.key + ":tables", False, where=f, node=f.node, construct=f"{len(sv)}/{len(sx)} stores", message="per-pixel overlap value / index tables must each be written by one store in the (ip0, ip1) nest")
        return
    l0, l1 = sv[0].loops
    ip0, ip1 = S_(l0.var), S_(l1.var)
    n = S_(f"{N}.shape[0]")
    tri = is_full_range(l0, [n]) and l1.lo == ip0 and l1.step == ONE and l1.hi in (n, S_(tv + ".shape[0]"), Poly.fn("shape", S_(tv), ZERO))
    tri = tri or (is_full_range(l0, [n]) and l1.lo == ip0 and l1.step == ONE and "shape" in repr(l1.hi))
    ctx.ob(rule, f.key + ":triangle", tri, where=f, node=sv[0].node, construct=f"{l0!r}; {l1!r}", message="overlaps must be enumerated over the upper triangle ip1 >= ip0 of all pixel pairs")
    w = Poly.fn("w_tilde_curvature_value_from", S_("noise_map_native"), S_("kernel_native"), E_(N, ip0, ZERO), E_(N, ip0, ONE), E_(N, ip1, ZERO), E_(N, ip1, ONE))
    v = sv[0].value
    halved = Poly.fn("ite", Poly.fn("cmp:==", *sorted((ip0, ip1), key=repr)), w / TWO, w)
    form_ok = isinstance(v, Poly) and v in (halved, w)
    ctx.ob(rule, f.key + ":value", form_ok, where=f, node=sv[0].node, construct=short(v),
           message=f"the stored overlap must be w(noise_map, kernel, y0, x0, y1, x1) with the pixel coordinates bound to the matching axes (halved on the diagonal); expected {short(halved)}")
    is_halved = isinstance(v, Poly) and v == halved
    if is_halved:
        hv = [(vv, op, g) for (nm, vv, op, g, l, nn) in S.assigns if op == "/=" and vv == TWO]
        good = len(hv) == 1 and len(real_guards(hv[0][2])) == 1 and real_guards(hv[0][2])[0].kind == "cmp" and real_guards(hv[0][2])[0].args[1] == "==" \
            and {real_guards(hv[0][2])[0].args[0], real_guards(hv[0][2])[0].args[2]} == {ip0, ip1}
        ctx.ob(rule, f.key + ":halving", good, where=f, node=sv[0].node, construct=str([(op, repr(vv), [repr(c) for c in real_guards(g)]) for vv, op, g in hv]),
               message="the diagonal term must be halved exactly when ip0 == ip1")
    ctx.ob(rule, f.key + ":index", sx[0].value == ip1 or (isinstance(sx[0].value, Poly) and sx[0].value == ip1), where=f, node=sx[0].node, construct=repr(sx[0].value),
           message="the index table must record the partner pixel ip1")
    # sparsity filter: every NON-ZERO overlap is kept (signed PSFs give negative overlaps)
    gs = real_guards(sv[0].guards)
    bad = [c for c in gs if not (isinstance(v, Poly) and is_zero_test(c, v))]
    ctx.ob(rule, f.key + ":keeps-nonzero", len(gs) <= 1 and not bad, where=f, node=getattr(bad[0], "node", None) if bad else sv[0].node, construct=repr(bad[0])[:160] if bad else "",
           message="overlap entries may only be skipped by a zero-test of the overlap value; a sign or threshold test drops overlaps of signed PSFs")
    # slot counter of the per-pixel table and the recorded length
    cnt2 = acc_name_of(sv[0].idx[1]) if len(sv[0].idx) == 2 else None
    good = cnt2 is not None and sv[0].idx == (ip0, S_(cnt2 + "~"))
    incs = [(vv, op, g, l) for (nm, vv, op, g, l, nn) in S.assigns if nm == cnt2 and op != "="]
    good = good and len(incs) == 1 and incs[0][0] == ONE and incs[0][1] == "+=" and {c.key() for c in real_guards(incs[0][2])} == {c.key() for c in gs}
    resets = [r for r in scalar_resets(S, cnt2)] if cnt2 else []
    good = good and len(resets) == 1 and resets[0][0] == ZERO and len(resets[0][2]) == 1
    ctx.ob(rule, f.key + ":slot", good, where=f, node=sv[0].node, construct=f"slot {list(map(repr, sv[0].idx))} incs {[(op, repr(vv)) for vv, op, *_ in incs]} resets {[repr(r[0]) for r in resets]}",
           message="the per-pixel slot counter must restart at 0 for each ip0 and advance by 1 once per kept entry")
    sl = S.stores_to(lens.name)
    good = len(sl) == 1 and sl[0].idx == (ip0,) and cnt2 is not None and cnt2 + "~" in repr(sl[0].value) and len(sl[0].loops) == 1
    ctx.ob(rule, f.key + ":lengths", good, where=f, node=sl[0].node if sl else f.node, construct=repr(sl[0])[:140] if sl else "", message="lengths[ip0] must be the number of entries kept for ip0")

    # ---- consumer: add-transpose pairing with the halved diagonal
    g = p.func(f"{IU}:curvature_matrix_via_w_tilde_curvature_preload_imaging_from")
    G = K.summarize(g)
    out = G.returned_array_names()
    addT = False
    mirror = False
    for s in (G.stores_to(out[0]) if out else []):
        if len(s.loops) == 2 and len(s.idx) == 2 and isinstance(s.value, Ref) and s.value.name == s.arr:
            i, j = S_(s.loops[0].var), S_(s.loops[1].var)
            tri2 = s.loops[0].lo == ZERO and s.loops[1].lo == i and s.loops[0].hi == S_("pix_pixels") and s.loops[1].hi == S_("pix_pixels")
            if s.op == "+=" and s.idx == (i, j) and s.value.idx == (j, i) and tri2:
                addT = True
            if s.op == "=" and s.idx == (j, i) and s.value.idx == (i, j) and tri2:
                mirror = True
    ctx.ob(rule, g.key + ":add-transpose", addT == is_halved, where=g, node=g.node, construct=f"producer halves diagonal={is_halved}; consumer adds transpose={addT}",
           message="the diagonal halving in the preload and the `M[i,j] += M[j,i]` (j >= i) in the consumer must come as a pair, otherwise diagonal blocks are wrong by a factor of two")
    ctx.ob(rule, g.key + ":mirror", mirror, where=g, node=g.node, construct=f"mirror={mirror}", message="the lower triangle must be filled from the upper one (M[j,i] = M[i,j])")


def unique_rule(ctx, p, K):
    rule = "C04.unique"
    # data vector
    f = p.func(f"{IU}:data_vector_via_w_tilde_data_imaging_from")
    need(f, "w_tilde_data", "data_to_pix_unique", "data_weights", "pix_lengths", "pix_pixels")
    S = K.summarize(f)
    out = S.returned_array_names()
    if len(out) == 1:
        roles = {"d": [S_("w_tilde_data.shape[0]"), S_("data_weights.shape[0]"), S_("pix_lengths.shape[0]"), S_("data_to_pix_unique.shape[0]")], "r": lambda b: [E_("pix_lengths", b["d"])]}
        check_accumulate(ctx, rule, S, out[0], roles, lambda b: (E_("data_to_pix_unique", b["d"], b["r"]),), lambda b: E_("data_weights", b["d"], b["r"]) * E_("w_tilde_data", b["d"]),
                         what="weight[d, r] * w_tilde_data[d] into D[pix[d, r]] for r < pix_lengths[d]")
        shp = getattr(S.env.get(out[0]), "shape", None)
        ctx.ob(rule, f.key + ":size", shp == (S_("pix_pixels"),), where=f, node=f.node, construct=f"shape {shp}", message="data vector must have pix_pixels entries")
    else:
        ctx.ob(rule, f.key, None, message=f"expected one returned array, got {out}")

    # curvature (diagonal block and off-diagonal block)
    for fname, sfx in (("curvature_matrix_via_w_tilde_curvature_preload_imaging_from", ("", "")),
                       ("curvature_matrix_off_diags_via_w_tilde_curvature_preload_imaging_from", ("_0", "_1"))):
        f = p.func(f"{IU}:{fname}")
        S = K.summarize(f)
        out = S.returned_array_names()
        if len(out) != 1:
            ctx.ob(rule, f.key, None, message=f"expected one returned array, got {out}")
            continue
        U0, W0, L0 = "data_to_pix_unique" + sfx[0], "data_weights" + sfx[0], "pix_lengths" + sfx[0]
        U1, W1, L1 = "data_to_pix_unique" + sfx[1], "data_weights" + sfx[1], "pix_lengths" + sfx[1]
        need(f, "curvature_preload", "curvature_indexes", "curvature_lengths", U0, W0, L0, U1, W1, L1)
        main = [s for s in S.stores_to(out[0]) if len(s.loops) == 4]
        if not main:
            ctx.ob(rule, f.key, False, where=f, node=f.node, construct="no 4-deep accumulation", message="expected the (data_0, overlap, pix_0, pix_1) accumulation nest")
            continue
        cnt = None
        for a in main[0].value.all_atoms() if isinstance(main[0].value, Poly) else []:
            if a[0] == "s" and a[1].endswith("~"):
                cnt = a[1][:-1]
        if cnt is None:
            ctx.ob(rule, f.key, False, where=f, node=main[0].node, construct=short(main[0].value), message="the flat overlap counter does not appear in the accumulated term")
            continue
        c = S_(cnt + "~")
        d1 = E_("curvature_indexes", c)
        roles = {"d0": [S_("curvature_lengths.shape[0]")], "j": lambda b: [E_("curvature_lengths", b["d0"])],
                 "r0": lambda b: [E_(L0, b["d0"])], "r1": lambda b: [E_(L1, d1)]}
        check_accumulate(ctx, rule, S, out[0], roles, lambda b: (E_(U0, b["d0"], b["r0"]), E_(U1, d1, b["r1"])),
                         lambda b: E_(W0, b["d0"], b["r0"]) * E_(W1, d1, b["r1"]) * E_("curvature_preload", c), stores=main,
                         what="w0[d0, r0] * w1[d1, r1] * overlap[c] into F[pix0[d0, r0], pix1[d1, r1]] with d1 = indexes[c]")
        incs = [(v, op, g, l) for (nm, v, op, g, l, n) in S.assigns if nm == cnt and op != "="]
        good = len(incs) == 1 and incs[0][0] == ONE and incs[0][1] == "+=" and not real_guards(incs[0][2]) and len(incs[0][3]) == 2 \
            and tuple(id(l) for l in incs[0][3]) == tuple(id(l) for l in main[0].loops[:2])
        ctx.ob(rule, f.key + ":overlap-counter", good, where=f, node=main[0].node, construct=f"{cnt}: {[(op, repr(v), len(l)) for v, op, g, l in incs]}",
               message="the flat overlap counter must advance by 1 exactly once per (data_0, overlap) pair, after that pair's contributions")


def mirror_rule(ctx, p, K):
    """curvature_matrix_mirrored_from: the w-tilde kernels fill one triangle of F only.  Decided by case analysis on the two entries of a pair, a = F[i, j] and b = F[j, i]
    (the kernel is evaluated once per case with the zero-tests decided by an oracle, so every spelling of the selection - two guarded copies, a chosen value, guard
    clauses - gives the same unconditional stores): exactly one of them non-zero -> both positions hold it; both zero -> nothing is written; the array starts as zeros of
    F's shape and the pair loop covers the full index range.  (Both non-zero does not occur for a half-filled matrix and is left to the code.)"""
    rule = "C04.mirror"
    f = p.func("autoarray.inversion.inversion.inversion_util:curvature_matrix_mirrored_from")
    name = list(f.params)[0]
    fors = [n for n in ast.walk(f.node) if isinstance(n, ast.For) and isinstance(n.target, ast.Name)]
    ok = len(fors) == 2
    det = ""
    if ok:
        vi, vj = fors[0].target.id, fors[1].target.id
        A_, B_ = Poly.elem(name, S_(vi), S_(vj)), Poly.elem(name, S_(vj), S_(vi))
        sh = (S_(f"{name}.shape[0]"), S_(f"{name}.shape[1]"))
        results = {}
        for case in ((True, False), (False, True), (False, False)):
            K2 = KEval(p)

            def oracle(l, op, r, case=case):
                for x, y in ((l, r), (r, l)):
                    if y == ZERO and x in (A_, B_) and op in ("==", "!="):
                        nz = case[0] if x == A_ else case[1]
                        return nz if op == "!=" else (not nz)
                    if y == ZERO and x in (A_, B_) and op in ("<", ">", "<=", ">="):
                        return None
                return None
            K2.cmp_oracle = oracle
            S2 = K2.summarize(f)
            out = S2.returned_array_names()
            if len(out) != 1:
                ok = False
                break
            r = S2.env.get(out[0])
            init_ok = getattr(r, "init", None) is not None and r.init[0] == "zeros" and tuple(r.shape or ()) == sh
            net = {}
            for st in S2.stores_to(out[0]):
                if real_guards(st.guards) or len(st.loops) != 2 or st.op != "=" or not (is_full_range(st.loops[0], [sh[0]]) and is_full_range(st.loops[1], [sh[1]])):
                    net = None
                    break
                net[st.idx] = value_poly(st.value)   # (program order: a later store to the same cell wins)
            results[case] = (init_ok, net)
        if ok:
            IJ, JI = (S_(vi), S_(vj)), (S_(vj), S_(vi))
            want = {(True, False): {IJ: A_, JI: A_}, (False, True): {IJ: B_, JI: B_}, (False, False): {}}
            bad = [c for c in want if not results[c][0] or results[c][1] != want[c]]
            ok = not bad
            det = "; ".join(f"a{'!=' if c[0] else '=='}0, b{'!=' if c[1] else '=='}0 -> {({tuple(map(repr, k)): repr(v) for k, v in results[c][1].items()} if results[c][1] is not None else 'guarded / partial stores')}" for c in (bad or list(want)))[:400]
    ctx.ob(rule, f.key, ok, where=f, node=f.node, construct=det,
           message="for every pair (i, j): when exactly one of F[i, j], F[j, i] is non-zero both positions of the mirrored matrix must hold it, when both are zero nothing is written; zeros of F's shape initially, full index range")


def mapping_rule(ctx, p, K):
    rule = "C04.mapping"
    f = p.func(f"{IU}:data_vector_via_blurred_mapping_matrix_from")
    need(f, "blurred_mapping_matrix", "image", "noise_map")
    S = K.summarize(f)
    out = S.returned_array_names()
    if len(out) == 1:
        roles = {"a": [S_("blurred_mapping_matrix.shape[0]"), S_("image.shape[0]")], "q": [S_("blurred_mapping_matrix.shape[1]")]}
        check_accumulate(ctx, rule, S, out[0], roles, lambda b: (b["q"],),
                         lambda b: E_("image", b["a"]) * E_("blurred_mapping_matrix", b["a"], b["q"]) / (E_("noise_map", b["a"]) ** 2), what="d[a] * B[a, q] / sigma[a]^2")
    else:
        ctx.ob(rule, f.key, None, message=f"expected one returned array, got {out}")
    f = p.func(f"{UT}:curvature_matrix_via_mapping_matrix_from")
    need(f, "mapping_matrix", "noise_map")
    S = K.summarize(f)
    A = S_("mapping_matrix") / E_("noise_map", S_(":"), S_("None"))
    want = Poly.fn("dot", Poly.fn("T", A), A)
    ctx.ob(rule, f.key, isinstance(S.ret, Poly) and S.ret == want, where=f, node=f.node, construct=short(S.ret),
           message=f"curvature matrix must be (B / sigma[:, None])^T (B / sigma[:, None]); expected {short(want)}")


def diag_rule(ctx, p, K):
    rule = "C04.diag"
    f = p.func(f"{UT}:curvature_matrix_with_added_to_diag_from")
    need(f, "curvature_matrix", "value", "no_regularization_index_list")
    S = K.summarize(f)
    sts = S.stores_to("curvature_matrix")
    ok = len(sts) == 1 and sts[0].op == "+=" and len(sts[0].loops) == 1 and sts[0].loops[0].kind == "iter" and len(sts[0].idx) == 2 and sts[0].idx[0] == sts[0].idx[1] \
        and isinstance(getattr(sts[0].loops[0], "seq", None), Ref) and sts[0].loops[0].seq.name == "no_regularization_index_list" and value_poly(sts[0].value) == S_("value") and not real_guards(sts[0].guards) \
        and sts[0].idx[0] == sts[0].loops[0].seq.index((S_(sts[0].loops[0].var + "@"),)).poly()
    ctx.ob(rule, f.key, ok, where=f, node=sts[0].node if sts else f.node, construct=repr(sts[0])[:160] if sts else "no store",
           message="the small term must be added to [i, i] for exactly the indices in no_regularization_index_list and nowhere else")
    # call sites: only when the list is non-empty, with the inversion's own list and configured value
    sites = []
    for g in p.all_functions():
        for c in wire.calls_to(p, g, f.key):
            sites.append((g, c))
    ctx.require_count(rule, "call sites of curvature_matrix_with_added_to_diag_from", len(sites), 3)
    for g, c in sites:
        b = {k: norm_text(v) for k, v in wire.kw(c, f).items()}
        tests = wire.path_conds(g, c)
        lst = b.get("no_regularization_index_list")
        nonempty = lst is not None and (wire.cond_holds(tests, f"len({lst}) > 0") or wire.cond_holds(tests, f"len({lst}) != 0") or wire.cond_holds(tests, f"len({lst})") or wire.cond_holds(tests, lst))   # (a list is truthy iff it is non-empty)
        val_ok = b.get("value", "").endswith("no_regularization_add_to_curvature_diag_value")
        lst_ok = lst in ("self.no_regularization_index_list", "no_regularization_index_list")
        ctx.ob(rule, f"{g.key}:diag-call", nonempty and val_ok and lst_ok, where=g, node=c, construct=f"under {tests}; args {b}",
               message="the diagonal term must be applied only when the no-regularization list is non-empty, with that list and the configured value")
    # the mapping formalism requests it (add_to_curvature_diag=True with the inversion's list) wherever it builds a curvature matrix
    cm = p.func(f"{UT}:curvature_matrix_via_mapping_matrix_from")
    for key in ("autoarray.inversion.inversion.imaging.mapping:InversionImagingMapping.curvature_matrix",):
        g = p.func(key)
        cs = wire.calls_to(p, g, cm.key)
        ok = len(cs) >= 1
        for c in cs:
            b = {k: norm_text(v) for k, v in wire.kw(c, cm).items()}
            ok = ok and b.get("add_to_curvature_diag") == "True" and b.get("no_regularization_index_list") == "self.no_regularization_index_list" \
                and b.get("settings") == "self.settings" and b.get("mapping_matrix") == "self.operated_mapping_matrix" and b.get("noise_map") == "self.noise_map"
        ctx.ob(rule, key + ":request", ok, where=g, node=cs[0] if cs else g.node, construct=str([{k: norm_text(v) for k, v in wire.kw(c, cm).items()} for c in cs]),
               message="the mapping formalism must build F from the operated mapping matrix and noise map and request the diagonal term with the inversion's own list and settings")


def blocks_rule(ctx, p, K):
    """block offsets follow linear_obj_list order: a running offset advanced by linear_obj.params exactly once per object, unconditionally."""
    rule = "C04.blocks"
    f = p.func("autoarray.inversion.inversion.abstract:AbstractInversion.param_range_list_from")
    S = K.summarize(f)
    incs = [(nm, v, op, g, l, n) for (nm, v, op, g, l, n) in S.assigns if op == "+="]
    ok = len(incs) == 1
    det = ""
    if ok:
        nm, v, op, g, l, n = incs[0]
        det = f"{nm} += {v!r} under {[repr(c) for c in real_guards(g)]} in {[repr(x) for x in l]}"
        seq = getattr(l[0], "seq", None) if len(l) == 1 else None
        ok = len(l) == 1 and isinstance(seq, Ref) and seq.name == "self.linear_obj_list" and not real_guards(g) and isinstance(v, Poly) and repr(v) in ("self.linear_obj_list.params", f"{l[0].var}.params")   # .params of the element the loop is at
    ctx.ob(rule, f.key + ":offset", ok, where=f, node=incs[0][5] if incs else f.node, construct=det,
           message="the running parameter offset must advance by linear_obj.params once per object of self.linear_obj_list, unconditionally (also for objects not of the requested class)")
    # the appended range is [offset, offset + params] using the pre-increment offset, appended only for instances of cls
    app = [c for c in f.calls() if isinstance(c.func, ast.Attribute) and c.func.attr == "append"]
    ok = len(app) == 1 and len(app[0].args) == 1 and isinstance(app[0].args[0], (ast.List, ast.Tuple)) and len(app[0].args[0].elts) == 2
    if ok:
        lo, hi = app[0].args[0].elts
        cname = incs[0][0] if incs else None
        ok = isinstance(lo, ast.Name) and lo.id == cname and isinstance(hi, ast.BinOp) and isinstance(hi.op, ast.Add) and sorted([norm_text(hi.left) == cname, norm_text(hi.right) == cname]) == [False, True] \
            and any(norm_text(x).endswith(".params") for x in (hi.left, hi.right))
        br = wire.enclosing_branches(f, app[0])
        ok = ok and len(br) == 1 and br[0][1] and norm_text(br[0][0].test).startswith("isinstance(") and norm_text(br[0][0].test).endswith(", cls)")
        # append precedes the increment in the loop body
        ok = ok and incs and app[0].lineno < incs[0][5].lineno
    ctx.ob(rule, f.key + ":range", bool(ok), where=f, node=app[0] if app else f.node, construct=norm_text(app[0]) if app else "",
           message="each object of the requested class must contribute [offset, offset + params] taken before the offset is advanced")
    # consumers address blocks through param_range_list_from with the matching class list, index-aligned
    for key in ("autoarray.inversion.inversion.abstract:AbstractInversion.no_regularization_index_list",
                "autoarray.inversion.inversion.abstract:AbstractInversion.mapper_edge_pixel_list"):
        g = p.func(key)
        pr = [c for c in g.calls() if isinstance(c.func, ast.Attribute) and c.func.attr == "param_range_list_from"]
        zips = [c for c in g.calls() if isinstance(c.func, ast.Name) and c.func.id == "zip"]
        lps = [n for n in g.body_nodes() if isinstance(n, ast.For)]
        pairings = [wire.range_pairing(g, l) for l in lps]
        pairings = [x for x in pairings if x is not None]
        ok = len(pr) == 1 and len(pairings) == 1 and pairings[0]["sound"]
        if len(pr) == 1 and not pairings:
            # the ranges of all objects may also be zipped with a plain (non-cached) property of the inversion that maps the object list element by element, unfiltered
            ok = norm_text(wire.kw(pr[0]).get("cls") or (pr[0].args[0] if pr[0].args else None)) == "LinearObj"
            def aligned(a):
                t = norm_text(a)
                if t == "self.linear_obj_list":
                    return True
                if isinstance(a, ast.Attribute) and isinstance(a.value, ast.Name) and a.value.id == "self" and g.cls is not None:
                    pr_ = g.cls.lookup(a.attr)
                    rets_ = wire.returns_of(pr_) if pr_ is not None and pr_.is_property else []
                    if len(rets_) == 1 and isinstance(rets_[0].value, ast.ListComp) and len(rets_[0].value.generators) == 1:
                        gen = rets_[0].value.generators[0]
                        return norm_text(gen.iter) == "self.linear_obj_list" and not gen.ifs
                return False
            ok = ok and len(zips) == 1 and any(aligned(a) for a in zips[0].args)
        ctx.ob(rule, key + ":aligned", ok, where=g, node=pr[0] if pr else g.node, construct=norm_text(zips[0]) if zips else "",
               message="index lists must pair the objects with index-aligned ranges: self.linear_obj_list with the ranges of ALL linear objects (cls=LinearObj), or the instances of one class with the ranges of that same class")


def _slice_parts(ix):
    """slice(R[a, 0], R[a, 1], None) -> (R name, a) or None"""
    ats = list(ix.atoms()) if isinstance(ix, Poly) else []
    if len(ats) != 1 or ats[0][0] != "f" or ats[0][1] != "slice":
        return None
    lo, hi, _ = ats[0][2]
    la, ha = list(lo.atoms()), list(hi.atoms())
    if len(la) != 1 or len(ha) != 1 or la[0][0] != "i" or ha[0][0] != "i" or la[0][1] != ha[0][1]:
        return None
    if len(la[0][2]) != 2 or la[0][2][1] != ZERO or ha[0][2][1] != ONE or la[0][2][0] != ha[0][2][0]:
        return None
    return la[0][1], la[0][2][0]


def _cls_of(name: str):
    import re
    m = re.match(r"^param_range_list_from\((\w+)\)$", name)
    if m:
        return m.group(1)
    m = re.match(r"^cls_list_from\(.*?, (\w+), .*\)$", name)
    if m:
        return m.group(1)
    return None


def _list_elems(p_: Poly):
    """(list name, index poly) for every element of a cls_list_from(...) list that occurs in p_"""
    out = set()
    for a in p_.all_atoms():
        if a[0] == "i" and a[1].startswith("cls_list_from(") and len(a[2]) == 1:
            out.add((a[1], a[2][0]))
    return out


def assembly_rule(ctx, p, K):
    """w-tilde formalism, function-list x function-list blocks: block [range(a), range(b)] = (B_a/sigma)^T (B_b/sigma),
    the operand selected by the same loop variable (and object class) as the block range it is written to."""
    rule = "C04.assembly"
    f = p.func("autoarray.inversion.inversion.imaging.w_tilde:InversionImagingWTilde._curvature_matrix_func_list_and_mapper")
    S = K.summarize(f)
    blocks = []
    for s in S.stores:
        if len(s.idx) == 2 and isinstance(s.value, Poly):
            ats = list(s.value.atoms())
            if len(ats) == 1 and ats[0][0] == "f" and ats[0][1] == "dot" and len(ats[0][2]) == 2 and _slice_parts(s.idx[0]) and _slice_parts(s.idx[1]):
                blocks.append((s, ats[0][2]))
    ctx.require_count(rule, "function-list cross blocks written as dot(A^T, B)", len(blocks), 1)
    for s, (left, right) in blocks:
        (r0, a), (r1, b) = _slice_parts(s.idx[0]), _slice_parts(s.idx[1])
        el, er = _list_elems(left), _list_elems(right)
        ok = len(el) == 1 and len(er) == 1
        det = f"rows {r0}[{a!r}] cols {r1}[{b!r}]; left operand from {sorted((n[:30], repr(i)) for n, i in el)}; right from {sorted((n[:30], repr(i)) for n, i in er)}"
        if ok:
            (ln, li), (rn, ri) = list(el)[0], list(er)[0]
            ok = li == a and ri == b and _cls_of(ln) == _cls_of(r0) and _cls_of(rn) == _cls_of(r1) and _cls_of(r0) is not None
            # (B/sigma)^T (B/sigma): same weighting on both sides
            N = E_("self.noise_map", S_(":"), S_("None"))
            wl = Poly.fn("T", E_("self.linear_func_operated_mapping_matrix_dict", E_(ln, li)) / N)
            wr = E_("self.linear_func_operated_mapping_matrix_dict", E_(rn, ri)) / N
            ok = ok and left == wl and right == wr
        ctx.ob(rule, f.key + ":func-func", ok, where=f, node=s.node, construct=det,
               message="block [range(a), range(b)] must be (B_a / sigma)^T (B_b / sigma) with operand a / b selected by the same loop variable and class as the row / column range")
    # mapper x function-list and mapper x mapper blocks: ranges and operands indexed by the same loop variables
    for key in ("autoarray.inversion.inversion.imaging.w_tilde:InversionImagingWTilde._curvature_matrix_multi_mapper",):
        g = p.func(key)
        G = K.summarize(g)
        n = 0
        for s in G.stores:
            if len(s.idx) == 2 and _slice_parts(s.idx[0]) and _slice_parts(s.idx[1]) and len(s.loops) == 2:
                (r0, a), (r1, b) = _slice_parts(s.idx[0]), _slice_parts(s.idx[1])
                calls = [c for c in G.calls if c[0].endswith("_curvature_matrix_off_diag_from")]
                okc = len(calls) == 1
                det = f"rows {r0}[{a!r}] cols {r1}[{b!r}]"
                if okc:
                    ca = calls[0][1]
                    m0, m1 = ca.get("mapper_0"), ca.get("mapper_1")
                    okc = isinstance(m0, Ref) and isinstance(m1, Ref) and m0.idx == (a,) and m1.idx == (b,) and m0.name == m1.name and _cls_of(m0.name) == _cls_of(r0) == _cls_of(r1)
                    det += f"; off-diagonal of ({m0!r}, {m1!r})"
                i, j = S_(s.loops[0].var), S_(s.loops[1].var)
                okc = okc and a == i and b == j and s.loops[1].lo == i + ONE
                n += 1
                ctx.ob(rule, key + ":mapper-mapper", okc, where=g, node=s.node, construct=det,
                       message="the off-diagonal block of mappers (i, j > i) must be computed from mapper i and mapper j and written at [range(i), range(j)]")
        ctx.require_count(rule, "mapper-mapper off-diagonal block stores", n, 1)
    # off-diagonal helper: D_01 + D_10^T with the roles of the two mappers exchanged
    h = p.func("autoarray.inversion.inversion.imaging.w_tilde:InversionImagingWTilde._curvature_matrix_off_diag_from")
    callee = p.func(f"{IU}:curvature_matrix_off_diags_via_w_tilde_curvature_preload_imaging_from")
    cs = wire.calls_to(p, h, callee.key)
    ok = len(cs) == 2
    det = ""
    if ok:
        def who(c):
            b = {k: norm_text(v) for k, v in wire.kw(c, callee).items()}
            side = {}
            for sfx in ("_0", "_1"):
                owners = {b.get(k + sfx, "").split(".")[0] for k in ("data_to_pix_unique", "data_weights", "pix_lengths", "pix_pixels")}
                side[sfx] = owners.pop() if len(owners) == 1 else None
            common = (b.get("curvature_preload"), b.get("curvature_indexes"), b.get("curvature_lengths"))
            return side, common
        (s0, c0), (s1, c1) = who(cs[0]), who(cs[1])
        det = f"call 1 {s0}; call 2 {s1}"
        ok = s0 == {"_0": "mapper_0", "_1": "mapper_1"} and s1 == {"_0": "mapper_1", "_1": "mapper_0"} and c0 == c1 == ("self.w_tilde.curvature_preload", "self.w_tilde.indexes", "self.w_tilde.lengths")
        rets = wire.returns_of(h)
        ok = ok and len(rets) == 1 and isinstance(rets[0].value, ast.BinOp) and isinstance(rets[0].value.op, ast.Add) and norm_text(rets[0].value.right).endswith(".T") and not norm_text(rets[0].value.left).endswith(".T")
    ctx.ob(rule, h.key, ok, where=h, node=cs[0] if cs else h.node, construct=det,
           message="the off-diagonal block must be D(mapper_0, mapper_1) + D(mapper_1, mapper_0)^T, each with all four per-mapper tables taken from the same mapper")


def run(ctx):
    p = ctx.p
    K = KEval(p)
    K.none_defaults_const = False   # cls_list_from(cls_filtered=None) and friends are analysed for both cases
    ctx.rule("C04.wtilde-data", "w_tilde_data[ip] = sum over the kernel of kernel[ky,kx] * image/noise^2 at ip + k - floor(K/2), each axis shifted by its own half-width (E4 + axis purity)")
    ctx.rule("C04.wtilde-value", "overlap value = sum kernel[k0] kernel[k0 + (ip0-ip1)] / noise^2 at ip0 + k0 - floor(K/2); bounds of the second index per axis; axis-pure no-overlap shortcut")
    ctx.rule("C04.preload", "sparse overlap table: upper triangle, every non-zero overlap kept (zero-test only), diagonal halved iff the consumer adds the transpose, slot/length counters")
    ctx.rule("C04.unique", "unique-mapping kernels accumulate w0*w1*overlap into F[pix0, pix1] and w*w_tilde_data into D[pix], with the flat overlap counter advanced once per pair")
    ctx.rule("C04.mirror", "curvature_matrix_mirrored_from copies every non-zero entry to its own and to the transposed position (zero-test only) on zeros, over the full range")
    ctx.rule("C04.mapping", "mapping formalism: D[q] += d*B/sigma^2 ; F = (B/sigma)^T (B/sigma)")
    ctx.rule("C04.diag", "the small diagonal term is added only at no_regularization_index_list, only when non-empty, with the configured value, at every call site")
    ctx.rule("C04.blocks", "block offsets follow linear_obj_list order: offset advanced by params once per object unconditionally; consumers zip ranges of all objects with the list")
    wtilde_data_rule(ctx, p, K)
    wtilde_value_rule(ctx, p, K)
    preload_rule(ctx, p, K)
    unique_rule(ctx, p, K)
    mapping_rule(ctx, p, K)
    mirror_rule(ctx, p, K)
    diag_rule(ctx, p, K)
    blocks_rule(ctx, p, K)
    ctx.rule("C04.assembly", "w-tilde block assembly: each block is computed from the objects selected by the same loop variables (and class) as the ranges it is written to; off-diagonal = D01 + D10^T")
    assembly_rule(ctx, p, K)


_M = "autoarray/inversion/inversion/imaging/inversion_imaging_util.py"
_A = "autoarray/inversion/inversion/abstract.py"
CONTROLS = [
    Control("mirror writes the transposed copy from the wrong entry", "autoarray/inversion/inversion/inversion_util.py", in_func("curvature_matrix_mirrored_from", "                curvature_matrix_mirrored[j, i] = curvature_matrix[i, j]\n            if", "                curvature_matrix_mirrored[j, i] = curvature_matrix[j, i]\n            if"), "C04.mirror"),
    Control("w_tilde_data: shifts swapped back", _M, in_func("w_tilde_data_imaging_from", "kernel_shift_y = -(kernel_native.shape[0] // 2)", "kernel_shift_y = -(kernel_native.shape[1] // 2)"), "C04.wtilde-data"),
    Control("curvature value: x shift from axis 0", _M, in_func("w_tilde_curvature_value_from", "kernel_shift_x = -(kernel_native.shape[1] // 2)", "kernel_shift_x = -(kernel_native.shape[0] // 2)"), "C04.wtilde-value"),
    Control("preload keeps only positive overlaps", _M, in_func("w_tilde_curvature_preload_imaging_from", "if noise_value != 0.0:", "if noise_value > 0.0:"), "C04.preload"),
    Control("diagonal no longer halved", _M, in_func("w_tilde_curvature_preload_imaging_from", "            if ip0 == ip1:\n                noise_value /= 2.0\n", ""), "C04.preload"),
    Control("pixel coordinates swapped in overlap call", _M, in_func("w_tilde_curvature_preload_imaging_from", "ip1_y=ip1_y,\n                ip1_x=ip1_x,", "ip1_y=ip1_x,\n                ip1_x=ip1_y,"), "C04.preload"),
    Control("overlap counter advanced per pix pair", _M, in_func("curvature_matrix_via_w_tilde_curvature_preload_imaging_from", "                    )\n\n            curvature_index += 1", "                    )\n\n                curvature_index += 1"), "C04.unique"),
    Control("data vector divides by sigma not sigma^2", _M, in_func("data_vector_via_blurred_mapping_matrix_from", "/ (noise_map[data_index] ** 2.0)", "/ (noise_map[data_index])"), "C04.mapping"),
    Control("offset advanced only for requested class", _A, in_func("AbstractInversion.param_range_list_from", "                index_list.append([pixel_count, pixel_count + linear_obj.params])\n\n            pixel_count += linear_obj.params",
                                                                  "                index_list.append([pixel_count, pixel_count + linear_obj.params])\n\n                pixel_count += linear_obj.params"), "C04.blocks"),
    Control("diag term applied unconditionally in w_tilde", "autoarray/inversion/inversion/imaging/w_tilde.py", in_func("InversionImagingWTilde.curvature_matrix", "if len(self.no_regularization_index_list) > 0:", "if True:"), "C04.diag"),
    Control("func-func block uses func_0 twice (seed C04/2)", "autoarray/inversion/inversion/imaging/w_tilde.py", in_func("InversionImagingWTilde._curvature_matrix_func_list_and_mapper", "self.linear_func_operated_mapping_matrix_dict[linear_func_1]", "self.linear_func_operated_mapping_matrix_dict[linear_func_0]"), "C04.assembly"),
    Control("off-diagonal written at [j, i]", "autoarray/inversion/inversion/imaging/w_tilde.py", in_func("InversionImagingWTilde._curvature_matrix_multi_mapper", "mapper_param_range_i[0] : mapper_param_range_i[1],\n                    mapper_param_range_j[0] : mapper_param_range_j[1],", "mapper_param_range_j[0] : mapper_param_range_j[1],\n                    mapper_param_range_i[0] : mapper_param_range_i[1],"), "C04.assembly"),
    Control("twin: k1 computed inline", _M, in_func("w_tilde_curvature_value_from", "kernel_value_1 = kernel_native[k1_y, k1_x]", "kernel_value_1 = kernel_native[k0_y + ip_y_offset, ip_x_offset + k0_x]"), None, twin=True),
]
