"""C20 - triangle up-sampling tiles exactly; neighbourhoods and selections are faithful (DESIGN.md section 4, C20)."""
from __future__ import annotations

import ast
from fractions import Fraction
from typing import Dict, List, Optional, Tuple

from ..keval import KEval, Ref, Cond, Const, Top, Ctor, SelfObj, SLICE, Summary
from ..poly import Poly, ZERO, ONE
from ..forms import short, norm_cond, CMP, AND
from .. import wire, paths
from ..model import norm_text, AnchorMissing
from ..controls import Control
from ..mutate import in_func

S_ = Poly.sym
E_ = Poly.elem
TR = "autoarray.structures.triangles"
HALF = Poly.const(Fraction(1, 2))
COL = S_(":")


def V(k):
    """vertex k of every triangle: T[:, k]"""
    return E_("T", COL, Poly.const(k))


def parts(v) -> Optional[Tuple[str, tuple, object]]:
    if isinstance(v, Ctor) and v.cls_key == "numpy":
        return v.cls_name, v.args["seq"], v.args["axis"]
    return None


def child_sets(v, axis_inner=1, axis_outer=0):
    """concatenate([stack([a, b, c], axis=1), ..., maybe a bare array], axis=0) -> list of frozensets of vertex forms (or 'T' for the bare set)"""
    pr = parts(v)
    if pr is None or pr[0] != "concatenate" or not (isinstance(pr[2], Poly) and pr[2] == Poly.const(axis_outer)):
        return None
    out = []
    for item in pr[1]:
        pi = parts(item)
        if pi is None:
            if isinstance(item, Ref) and item.name == "T" and not item.idx:
                out.append("T")
                continue
            return None
        if pi[0] != "stack" or not (isinstance(pi[2], Poly) and pi[2] == Poly.const(axis_inner)) or len(pi[1]) != 3:
            return None
        vs = []
        for x in pi[1]:
            px = x.poly() if isinstance(x, Ref) else x
            if not isinstance(px, Poly):
                return None
            vs.append(px)
        out.append(frozenset(vs))
    return out


def array_rule(ctx, p, K):
    rule = "C20.subdivision"
    base = p.cls(f"{TR}.abstract:AbstractTriangles")
    arr = p.cls(f"{TR}.array:ArrayTriangles")
    so = SelfObj(arr, {"triangles": Ref("T")}, K)
    m = base.lookup("_up_sample_triangle")
    if m is None:
        raise AnchorMissing("AbstractTriangles._up_sample_triangle")
    S = K.summarize(m, {"self": so})
    got = child_sets(S.ret)
    mid = lambda a, b: (V(a) + V(b)) * HALF
    want = [frozenset([V(0), mid(0, 1), mid(2, 0)]), frozenset([V(1), mid(0, 1), mid(1, 2)]), frozenset([V(2), mid(1, 2), mid(2, 0)]), frozenset([mid(0, 1), mid(1, 2), mid(2, 0)])]
    ok = got is not None and "T" not in got and sorted(map(lambda s_: sorted(map(repr, s_)), got)) == sorted(map(lambda s_: sorted(map(repr, s_)), want))
    ctx.ob(rule, m.key, ok, where=m, node=m.node, construct=str([sorted(map(repr, s_)) for s_ in got])[:400] if got else repr(S.ret)[:200],
           message="each triangle must be replaced by the three corner children {v_k, m_ka, m_kb} and the central child {m_01, m_12, m_20} with m_ab = (v_a + v_b)/2 (exact 4-way tiling, every original vertex kept), stacked per triangle (axis 1) and concatenated over children (axis 0)")
    m = base.lookup("_neighborhood_triangles")
    if m is None:
        raise AnchorMissing("AbstractTriangles._neighborhood_triangles")
    S = K.summarize(m, {"self": so})
    got = child_sets(S.ret)
    refl = lambda k, a, b: V(a) + V(b) - V(k)
    want = [frozenset([refl(0, 1, 2), V(1), V(2)]), frozenset([V(0), refl(1, 0, 2), V(2)]), frozenset([V(0), V(1), refl(2, 0, 1)])]
    ok = got is not None and got.count("T") == 1 and sorted(sorted(map(repr, s_)) for s_ in got if s_ != "T") == sorted(sorted(map(repr, s_)) for s_ in want)
    ctx.ob("C20.neighborhood", m.key, ok, where=m, node=m.node, construct=str([sorted(map(repr, s_)) if s_ != "T" else "T" for s_ in got])[:400] if got else repr(S.ret)[:200],
           message="the neighbourhood must be the original set plus, for each vertex k, the triangle with v_k replaced by its reflection v_a + v_b - v_k across the opposite edge, and nothing else")
    # ArrayTriangles: de-duplication keeps geometry (vertices <- unique rows, indices <- inverse), triangles = vertices[indices]
    t = arr.lookup("triangles")
    rets = wire.returns_of(t)
    ctx.ob("C20.selection", t.key, len(rets) == 1 and norm_text(rets[0].value) == "self.vertices[self.indices]", where=t, node=t.node, construct=norm_text(rets[0].value) if rets else "", message="triangles = vertices[indices]")
    # decided on what each method returns with every local substituted (sa/paths.py; new helpers looked into): ArrayTriangles(indices=..., vertices=...)
    def returned_kw(mm):
        PS = paths.path_summaries(mm, project=p) or []
        rets = paths.returns(PS)
        if len(PS) == 1 and len(rets) == 1 and isinstance(rets[0].value, ast.Call):
            return {k: paths.ptext(v) for k, v in paths.kwargs(rets[0].value).items()}
        return {}
    for meth, src in (("up_sample", "self._up_sample_triangle()"), ("neighborhood", "self._neighborhood_triangles()")):
        mm = arr.lookup(meth)
        U = f"np.unique({src}.reshape(-1,2),axis=0,return_inverse=True)"
        kwn = returned_kw(mm)
        inv3 = f"{U}[1].reshape(-1,3)"
        ok = kwn.get("vertices") == f"{U}[0]" and set(kwn) == {"indices", "vertices"} and (inv3 in kwn.get("indices", "") if meth == "neighborhood" else kwn.get("indices") == inv3)
        ctx.ob("C20.selection", mm.key, ok, where=mm, node=mm.node, construct=str(kwn)[:300], message=f"{meth} must de-duplicate the vertices of exactly the triangles produced by {src} (rows of 2 coordinates) and index them through the inverse map, 3 per triangle")
        if meth == "neighborhood":
            # neighbourhood de-duplicates whole triangles irrespective of vertex order
            srt = f"np.sort({inv3},axis=1)"
            okn = kwn.get("indices") in (f"np.unique({srt},axis=0)", f"np.unique({srt},axis=0,return_index=True)[0]")
            ctx.ob("C20.neighborhood", mm.key + ":unique", okn, where=mm, node=mm.node, construct=kwn.get("indices", "")[:300], message="duplicate triangles (same three vertices in any order) must be removed and nothing else")
    # for_indexes: the selected triangles' own vertices, re-indexed
    mm = arr.lookup("for_indexes")
    kwn = returned_kw(mm)
    U = "np.unique(self.vertices[self.indices[indexes].flatten()],axis=0,return_inverse=True)"
    ok = kwn == {"indices": f"{U}[1].reshape(self.indices[indexes].shape)", "vertices": f"{U}[0]"}
    ctx.ob("C20.selection", mm.key, ok, where=mm, node=mm.node, construct=str(kwn)[:300], message="selection by index must keep exactly the selected triangles' vertices and re-index them consistently")
    mm = arr.lookup("with_vertices")
    rets = wire.returns_of(mm)
    kwv = {k: norm_text(v) for k, v in wire.kw(rets[0].value).items()} if rets and isinstance(rets[0].value, ast.Call) else {}
    ctx.ob("C20.selection", mm.key, kwv == {"indices": "self.indices", "vertices": "vertices"}, where=mm, node=mm.node, construct=str(kwv), message="with_vertices keeps the indices")
    mm = arr.lookup("containing_indices")
    txt = {norm_text(n.targets[0]): norm_text(n.value) for n in mm.body_nodes() if isinstance(n, ast.Assign)}
    rets = wire.returns_of(mm)
    rv_ = wire.text_nokw(wire.inline_locals(mm, rets[0].value)) if len(rets) == 1 else ""   # name-free
    ctx.ob("C20.containment", mm.key, rv_.replace(" ", "") == "np.where(shape.mask(self.triangles))[0]", where=mm, node=mm.node, construct=str(txt), message="containing indices = positions where the shape's mask of these triangles is true")


# --------------------------------------------------------------------------------------------------------------------
def _vec2(K, e: ast.expr, env, S, f) -> Optional[Tuple[Poly, Poly]]:
    """np.array([a, b]) -> (a, b) as forms (single-assignment temporaries of f looked through)"""
    e = wire.inline_locals(f, e)
    if isinstance(e, ast.Call) and norm_text(e.func) in ("np.array", "numpy.array") and e.args and isinstance(e.args[0], (ast.List, ast.Tuple)) and len(e.args[0].elts) == 2:
        a = K.scalar(K.ev(e.args[0].elts[0], env, S, f, (), (), 0))
        b = K.scalar(K.ev(e.args[0].elts[1], env, S, f, (), (), 0))
        if isinstance(a, Poly) and isinstance(b, Poly):
            return a, b
    return None


def lattice_rule(ctx, p, K):
    """integer-coordinate representation: the lattice geometry is verified algebraically.
    centre(c) = scaling * c + (x_offset, y_offset); vertex k = centre + flip * off_k; a triangle is flipped iff parity(cx + cy) != 0 (inverted when `flipped`).
    up_sample: for a parent of either orientation the four children (coordinates 2c + d_j, side s/2, new offsets, flipped state) must have exactly the vertex sets of the
    midpoint subdivision of the parent; neighbourhood: the three neighbours must be the edge reflections of the parent."""
    rule = "C20.lattice"
    ab = p.cls(f"{TR}.abstract_coordinate_array:AbstractCoordinateArray")
    co = p.cls(f"{TR}.coordinate_array:CoordinateArrayTriangles")
    s, xo, yo, cx, cy = (S_(n) for n in ("s", "xo", "yo", "cx", "cy"))
    HF = S_("HEIGHT_FACTOR")
    S0 = Summary(ab.lookup("triangles"))

    def geometry(side, x_off, y_off):
        """(scaling vector, offset vector, [vertex offsets]) as forms, read from the class with the given field forms"""
        fields = {"side_length": side, "x_offset": x_off, "y_offset": y_off}
        so = SelfObj(co, fields, K)
        env = {"self": so}
        init = ab.methods.get("__init__")
        sc = None
        for n in init.body_nodes():
            if isinstance(n, ast.Assign) and norm_text(n.targets[0]) == "self.scaling_factors":
                sc = _vec2(K, n.value, {"side_length": side}, S0, init)
        cen = ab.lookup("centres")
        rets = wire.returns_of(cen)
        off = None
        ok_c = False
        if len(rets) == 1 and isinstance(rets[0].value, ast.BinOp) and isinstance(rets[0].value.op, ast.Add):
            l, r = rets[0].value.left, rets[0].value.right
            if not (isinstance(l, ast.BinOp) and isinstance(l.op, ast.Mult)):
                l, r = r, l
            ok_c = norm_text(l).replace(" ", "") in ("self.scaling_factors*self.coordinates", "self.coordinates*self.scaling_factors")
            off = _vec2(K, r, env, S0, cen)
        tri = ab.lookup("triangles")
        rets = wire.returns_of(tri)
        offs = []
        ok_t = False
        if len(rets) == 1 and isinstance(rets[0].value, ast.Call) and norm_text(rets[0].value.func) in ("np.stack", "numpy.stack") and isinstance(rets[0].value.args[0], (ast.Tuple, ast.List)):
            ok_t = norm_text(wire.kw(rets[0].value).get("axis")) == "1"
            for el in rets[0].value.args[0].elts:
                if not (isinstance(el, ast.BinOp) and isinstance(el.op, ast.Add)):
                    continue
                cpart, mpart = (el.left, el.right) if norm_text(el.left) in ("centres", "self.centres") else (el.right, el.left)
                if norm_text(cpart) in ("centres", "self.centres") and isinstance(mpart, ast.BinOp) and isinstance(mpart.op, ast.Mult) and "self.flip_array" in (norm_text(mpart.left), norm_text(mpart.right)):
                    v = _vec2(K, mpart.right if norm_text(mpart.left) == "self.flip_array" else mpart.left, env, S0, tri)
                    if v:
                        offs.append(v)
        cen_local = [norm_text(n.value) for n in tri.body_nodes() if isinstance(n, ast.Assign) and norm_text(n.targets[0]) == "centres"]
        ok_t = ok_t and cen_local in (["self.centres"], []) and len(offs) == 3
        return (sc, off, offs) if (sc and off and ok_c and ok_t) else None
    g = geometry(s, xo, yo)
    ctx.ob(rule, f"{ab.key}:geometry", g is not None, where=ab.lookup("triangles"), node=None, construct=str(g)[:300],
           message="cannot read the lattice geometry (centre = scaling * coordinates + offsets; vertex k = centre + flip * offset_k) from AbstractCoordinateArray")
    if g is None:
        return
    # flip mask: parity of cx + cy, inverted when flipped; flip_array = -1 on the mask, +1 elsewhere
    fm = ab.lookup("flip_mask")
    txt = [norm_text(n) for n in fm.body_nodes() if isinstance(n, (ast.Assign, ast.If, ast.Return))]
    # name-free (sa/paths.py): parity mask returned as it is when not flipped, inverted when flipped
    PAR = "(self.coordinates[:,0]+self.coordinates[:,1])%2!=0"
    pf = {q.holds("self.flipped"): q.text for q in paths.returns(paths.path_summaries(fm) or [])}
    okf = pf.get(False) in (PAR, f"({PAR})") and pf.get(True) in (f"~({PAR})", f"np.invert({PAR})", f"np.logical_not({PAR})") and set(pf) == {True, False}
    fa = co.lookup("flip_array")
    qa = paths.returns(paths.path_summaries(fa) or [])
    pa = [q.text for q in qa]
    ONES = "np.ones(self.coordinates.shape[0])"
    via_mask = len(pa) == 1 and pa[0].startswith(f"__store__({ONES},self.flip_mask,-1)")   # (possibly reshaped to a column afterwards)
    # or the sign written out per orientation: -1 on the odd-parity triangles, the whole array negated (or the even ones marked) when `flipped` is set
    direct = {q.holds("self.flipped"): q.text for q in qa}
    plain = tuple(f"__store__({ONES},{m},-1)" for m in (PAR, f"({PAR})"))
    inverted = tuple(f"__store__({ONES},{m},-1)" for m in (f"~({PAR})", f"np.invert({PAR})", f"np.logical_not({PAR})")) + tuple(f"-{t}" for t in plain) + tuple(f"-({t})" for t in plain) + tuple(f"(-{t})" for t in plain)
    written_out = set(direct) == {True, False} and any(direct[False].startswith(t) for t in plain) and any(direct[True].startswith(t) for t in inverted) \
        and direct[False][len([t for t in plain if direct[False].startswith(t)][0]):] == direct[True][len([t for t in inverted if direct[True].startswith(t)][0]):]
    okf = okf and (via_mask or written_out)
    ctx.ob(rule, f"{ab.key}:flip", okf, where=fm, node=fm.node, construct=str(txt)[:200], message="a triangle is flipped (sign -1) iff (cx + cy) is odd, the other way round when `flipped` is set")
    if not okf:
        return

    def verts(c, flip, geo):
        sc, off, offs = geo
        centre = (sc[0] * c[0] + off[0], sc[1] * c[1] + off[1])
        return frozenset((centre[0] + Poly.const(flip) * o[0], centre[1] + Poly.const(flip) * o[1]) for o in offs)

    def child_flip(d, flipped_state: bool, parent_parity_even: bool, mult: int):
        """sign of the child at mult*c + d: mask = parity(mult*(cx+cy) + dx + dy) != 0, inverted if flipped_state"""
        par = (d[0] + d[1]) % 2 if mult % 2 == 0 else ((0 if parent_parity_even else 1) + d[0] + d[1]) % 2
        mask = par != 0
        if flipped_state:
            mask = not mask
        return -1 if mask else 1

    def read_offsets(meth):
        """[(mask kind, mult, (dx, dy))] from `new_coordinates[:n] = np.vstack((m*C[sel] (+ np.array([dx, dy])), ...))`"""
        m = co.lookup(meth)
        out = {"normal": [], "flipped": []}
        for n in m.body_nodes():
            if isinstance(n, ast.Assign) and isinstance(n.value, ast.Call) and norm_text(n.value.func) in ("np.vstack", "numpy.vstack") and isinstance(n.value.args[0], (ast.Tuple, ast.List)):
                for el in n.value.args[0].elts:
                    d = (0, 0)
                    el = wire.inline_locals(m, el)   # name-free: `doubled = 2 * self.coordinates[sel]` held in a local is the expression itself
                    core = el
                    if isinstance(el, ast.BinOp) and isinstance(el.op, ast.Add):
                        # m*C[sel] + np.array([dx, dy]), either operand order
                        core, r = el.left, el.right
                        if isinstance(core, ast.Call) and norm_text(core.func) in ("np.array", "numpy.array"):
                            core, r = r, core
                        if isinstance(r, ast.Call) and norm_text(r.func) in ("np.array", "numpy.array"):
                            try:
                                d = tuple(ast.literal_eval(r.args[0]))
                            except Exception:
                                return None
                        else:
                            return None
                    mult = 1
                    if isinstance(core, ast.BinOp) and isinstance(core.op, ast.Mult) and (isinstance(core.left, ast.Constant) or isinstance(core.right, ast.Constant)):
                        cst, core = (core.left, core.right) if isinstance(core.left, ast.Constant) else (core.right, core.left)
                        mult = cst.value
                    t = norm_text(core)
                    if t == "self.coordinates[~self.flip_mask]":
                        out["normal"].append((mult, d))
                    elif t == "self.coordinates[self.flip_mask]":
                        out["flipped"].append((mult, d))
                    else:
                        return None
        return out, m

    # ---- up_sample
    r = read_offsets("up_sample")
    if r is None or len(r[0]["normal"]) != 4 or len(r[0]["flipped"]) != 4:
        ctx.ob(rule, f"{co.key}.up_sample", None, message="cannot read the child coordinate offsets of CoordinateArrayTriangles.up_sample")
        return
    offs_up, m_up = r
    rets = wire.returns_of(m_up)
    kwv = wire.kw(rets[0].value) if rets and isinstance(rets[0].value, ast.Call) else {}
    so = SelfObj(co, {"side_length": s, "x_offset": xo, "y_offset": yo, "flipped": Const(False)}, K)
    env = {"self": so, "HEIGHT_FACTOR": HF}
    new = {}
    for k in ("side_length", "x_offset", "y_offset"):
        v = K.scalar(K.ev(kwv[k], env, S0, m_up, (), (), 0)) if k in kwv else None
        new[k] = v if isinstance(v, Poly) else None
    fl = kwv.get("flipped")
    new_flipped = fl.value if isinstance(fl, ast.Constant) else None
    okm = all(v is not None for v in new.values()) and isinstance(new_flipped, bool) and norm_text(kwv.get("coordinates")) == "new_coordinates"
    ctx.ob(rule, f"{co.key}.up_sample:args", okm, where=m_up, node=rets[0] if rets else m_up.node, construct=str({k: repr(v) for k, v in new.items()}) + f" flipped={new_flipped}", message="the up-sampled set must be built from the child coordinates with explicit side length, offsets and flip state")
    if okm:
        g2 = geometry(new["side_length"], new["x_offset"], new["y_offset"])
        mid = lambda a, b: ((a[0] + b[0]) * HALF, (a[1] + b[1]) * HALF)
        for kind, pflip in (("normal", 1), ("flipped", -1)):
            # with flipped=False the parent is normal iff (cx + cy) even; up_sample is also used on sets with flipped=True, where the roles swap -
            # the child's orientation only depends on the parity of its offset (mult = 2), so both cases reduce to the same algebra
            P = sorted(verts((cx, cy), pflip, g), key=repr)
            Pl = list(verts((cx, cy), pflip, g))
            want = set()
            for k_ in range(3):
                a_, b_ = [Pl[i] for i in range(3) if i != k_]
                want.add(frozenset([Pl[k_], mid(Pl[k_], a_), mid(Pl[k_], b_)]))
            want.add(frozenset([mid(Pl[0], Pl[1]), mid(Pl[1], Pl[2]), mid(Pl[2], Pl[0])]))
            got = set()
            for mult, d in offs_up[kind]:
                cf = child_flip(d, new_flipped, True, mult)
                got.add(verts((Poly.const(mult) * cx + Poly.const(d[0]), Poly.const(mult) * cy + Poly.const(d[1])), cf, g2))
            ctx.ob(rule, f"{co.key}.up_sample:{kind}", got == want, where=m_up, node=m_up.node,
                   construct=f"children at {offs_up[kind]} with side {new['side_length']!r}, y_offset {new['y_offset']!r}, flipped={new_flipped}",
                   message=f"the four children of a {kind} lattice triangle must have exactly the vertex sets of its midpoint subdivision (algebraic identity in cx, cy, side, offsets): area quartered, exact tiling, original vertices kept")
    # ---- neighbourhood
    r = read_offsets("neighborhood")
    if r is None or len(r[0]["normal"]) != 4 or len(r[0]["flipped"]) != 4:
        ctx.ob("C20.neighborhood", f"{co.key}.neighborhood", None, message="cannot read the neighbour coordinate offsets of CoordinateArrayTriangles.neighborhood")
        return
    offs_nb, m_nb = r
    kwv = built_kw(m_nb, co)
    ctx.ob("C20.neighborhood", f"{co.key}.neighborhood:args", kwv == {"coordinates": "np.unique(new_coordinates, axis=0)", "side_length": "self.side_length", "y_offset": "self.y_offset", "x_offset": "self.x_offset", "flipped": "self.flipped"},
           where=m_nb, node=m_nb.node, construct=str(kwv), message="the neighbourhood keeps side length, offsets and flip state and de-duplicates coordinates")
    for kind, pflip in (("normal", 1), ("flipped", -1)):
        Pl = list(verts((cx, cy), pflip, g))
        want = {frozenset(Pl)}
        for k_ in range(3):
            a_, b_ = [Pl[i] for i in range(3) if i != k_]
            want.add(frozenset([a_, b_, (a_[0] + b_[0] - Pl[k_][0], a_[1] + b_[1] - Pl[k_][1])]))
        got = set()
        for mult, d in offs_nb[kind]:
            # same lattice: a neighbour at odd offset has the opposite orientation
            nf = pflip if (d[0] + d[1]) % 2 == 0 else -pflip
            got.add(verts((Poly.const(mult) * cx + Poly.const(d[0]), Poly.const(mult) * cy + Poly.const(d[1])), nf, g))
        ctx.ob("C20.neighborhood", f"{co.key}.neighborhood:{kind}", got == want, where=m_nb, node=m_nb.node, construct=f"neighbours at {offs_nb[kind]}",
               message=f"the neighbourhood of a {kind} lattice triangle must be itself plus its three edge-reflected neighbours (algebraic identity)")
    # selection / conversion forward the lattice parameters unchanged
    mm = co.lookup("for_indexes")
    kwv = built_kw(mm, co)
    ctx.ob("C20.selection", mm.key, kwv == {"coordinates": "self.coordinates[indexes]", "side_length": "self.side_length", "y_offset": "self.y_offset", "x_offset": "self.x_offset", "flipped": "self.flipped"}, where=mm, node=mm.node, construct=str(kwv),
           message="selection by index must keep the selected coordinates and forward side length, offsets and flip state unchanged")
    mm = co.lookup("with_vertices")
    rets = wire.returns_of(mm)
    kwv = {k: norm_text(v) for k, v in wire.kw(rets[0].value).items()} if rets and isinstance(rets[0].value, ast.Call) else {}
    ctx.ob("C20.selection", mm.key, kwv == {"indices": "self.indices", "vertices": "vertices"}, where=mm, node=mm.node, construct=str(kwv), message="conversion to the vertex representation keeps the indices")
    mm = co.lookup("_vertices_and_indices")
    rets = wire.returns_of(mm)
    uq = "np.unique(self.triangles.reshape(-1, 2), axis=0, return_inverse=True)"
    got = norm_text(wire.inline_locals(mm, rets[0].value, unpack=True)) if len(rets) == 1 else "?"
    ok = got in (f"({uq}[0], {uq}[1].reshape(-1, 3))", f"{uq}[0], {uq}[1].reshape(-1, 3)")
    ctx.ob("C20.selection", mm.key, ok, where=mm, node=mm.node, construct=got[:300], message="the vertex / index representation of the lattice set must describe exactly its triangles")
    mm = co.lookup("containing_indices")
    rets = wire.returns_of(mm)
    ctx.ob("C20.containment", mm.key, len(rets) == 1 and wire.text_nokw(rets[0].value) == "self.with_vertices(self.vertices).containing_indices(shape)", where=mm, node=mm.node, construct=norm_text(rets[0].value) if rets else "", message="containment is decided on the same triangles in vertex form")
    # area of the lattice set: sqrt(3)/4 * side^2 per triangle
    mm = ab.lookup("area")
    so = SelfObj(co, {"side_length": s}, K)
    env = {"self": so}
    rets = wire.returns_of(mm)
    # product of factors, exactly one of which is len(self); the rest must multiply to sqrt(3)/4 * side^2
    facs = []

    def _flat(e):
        if isinstance(e, ast.BinOp) and isinstance(e.op, ast.Mult):
            _flat(e.left)
            _flat(e.right)
        else:
            facs.append(e)
    if rets:
        _flat(rets[0].value)
    n_len = [e for e in facs if norm_text(e) == "len(self)"]
    v = None
    if len(n_len) == 1:
        v = Poly.const(1)
        for e in facs:
            if e is n_len[0]:
                continue
            pv = K.scalar(K.ev(e, env, S0, mm, (), (), 0))
            v = v * pv if isinstance(pv, Poly) and isinstance(v, Poly) else None
    want = Poly.fn("sqrt", Poly.const(3)) * Poly.const(Fraction(1, 4)) * s * s
    ctx.ob("C20.lattice", mm.key, isinstance(v, Poly) and v == want and len(n_len) == 1, where=mm, node=mm.node, construct=repr(v), message=f"area must be sqrt(3)/4 * side^2 per triangle; expected {want!r} * len(self)")


def built_kw(mm, cls) -> dict:
    """{constructor field -> text} of the lattice object a method returns, whether it is built by calling the constructor or as a shallow copy of self whose fields are then
    assigned (fields that are not assigned keep self's value; derived fields must be recomputed as the constructor computes them; dropping the cached values is C11's rule)"""
    rets = wire.returns_of(mm)
    if len(rets) != 1:
        return {}
    v = rets[0].value
    if isinstance(v, ast.Call):
        return {k: norm_text(x) for k, x in wire.kw(v).items()}
    if not isinstance(v, ast.Name):
        return {}
    X = v.id
    init = [n for n in mm.body_nodes() if isinstance(n, ast.Assign) and len(n.targets) == 1 and isinstance(n.targets[0], ast.Name) and n.targets[0].id == X]
    if len(init) != 1 or norm_text(init[0].value) not in ("copy(self)", "copy.copy(self)"):
        return {}
    # the copy carries self's cached vertex / index / triangle arrays along: the selection describes the new coordinates only if every one of them is dropped
    from .C11 import _explicit_drops, _cached_property_names, _is_cache_drop_loop
    if not (_cached_property_names(cls) <= _explicit_drops(mm, X) or any(_is_cache_drop_loop(n, X, mm) for n in mm.body_nodes())):
        return {}
    ctor = cls.lookup("__init__")
    fields = {}      # field -> the constructor parameter it stores, or the expression over parameters it is computed from
    for n in (ctor.body_nodes() if ctor is not None else []):
        if isinstance(n, ast.Assign) and len(n.targets) == 1 and isinstance(n.targets[0], ast.Attribute) and norm_text(n.targets[0].value) == "self":
            fields[n.targets[0].attr] = n.value
    out = {a: f"self.{a}" for a, e in fields.items() if isinstance(e, ast.Name) and e.id == a}
    for n in mm.body_nodes():
        if isinstance(n, ast.Assign):
            for t in n.targets:
                if isinstance(t, ast.Attribute) and isinstance(t.value, ast.Name) and t.value.id == X:
                    a = t.attr
                    if a in out:
                        out[a] = norm_text(wire.inline_locals(mm, n.value))
                    elif a in fields:
                        # a derived field: must be the constructor's expression over the (unchanged) fields of self
                        import copy as _c

                        class P(ast.NodeTransformer):
                            def visit_Name(self, nm):
                                return ast.Attribute(value=ast.Name(id="self", ctx=ast.Load()), attr=nm.id, ctx=ast.Load()) if nm.id in out else nm
                        want = norm_text(P().visit(_c.deepcopy(fields[a])))
                        if norm_text(wire.inline_locals(mm, n.value)) != want or any(out[q] != f"self.{q}" for q in out if any(isinstance(x, ast.Name) and x.id == q for x in ast.walk(fields[a]))):
                            return {}
                    else:
                        return {}
    return out


def containment_rule(ctx, p, K):
    rule = "C20.containment"
    pt = p.cls(f"{TR}.shape:Point")
    m = pt.methods.get("mask")
    if m is None:
        raise AnchorMissing("Point.mask")
    so = SelfObj(pt, {"x": S_("px"), "y": S_("py")}, K)
    S = K.summarize(m, {"self": so, "triangles": Ref("T")})
    x = lambda k: E_("T", COL, Poly.const(k), ZERO)
    y = lambda k: E_("T", COL, Poly.const(k), ONE)
    px, py = S_("px"), S_("py")
    den = (y(1) - y(2)) * (x(0) - x(2)) + (x(2) - x(1)) * (y(0) - y(2))
    a = ((y(1) - y(2)) * (px - x(2)) + (x(2) - x(1)) * (py - y(2))) / den
    b = ((y(2) - y(0)) * (px - x(2)) + (x(0) - x(2)) * (py - y(2))) / den
    c = ONE - a - b
    want = AND(*[CMP(ZERO, "<=", v) for v in (a, b, c)], *[CMP(v, "<=", ONE) for v in (a, b, c)])
    got = S.ret
    ctx.ob(rule, m.key, isinstance(got, Cond) and norm_cond(got) == norm_cond(want), where=m, node=m.node, construct=str(norm_cond(got))[:300] if isinstance(got, Cond) else repr(got)[:200],
           message="a triangle contains the reference point iff its three barycentric coordinates (x = T[:, k, 0], y = T[:, k, 1]) all lie in [0, 1]")
    # every Shape.mask override ORs in super().mask(triangles), down to Point.mask
    n = 0
    for c_ in p.module(f"{TR}.shape").classes.values():
        if c_ is pt or not c_.is_subclass_of(pt):
            continue
        mm = c_.methods.get("mask")
        if mm is None:
            continue
        n += 1
        rets = wire.returns_of(mm)
        ok = len(rets) == 1 and isinstance(rets[0].value, ast.BinOp) and isinstance(rets[0].value.op, ast.BitOr) and "super().mask(triangles)" in (wire.text_nokw(rets[0].value.left), wire.text_nokw(rets[0].value.right))
        ctx.ob(rule, mm.key + ":includes-point-test", ok, where=mm, node=rets[0] if rets else mm.node, construct=norm_text(rets[0].value)[-80:] if rets else "",
               message="a shape's mask must OR in super().mask(triangles): a triangle containing the shape's reference point is always reported")
    ctx.require_count(rule, "Shape.mask overrides", n, 4)


def run(ctx):
    p = ctx.p
    K = KEval(p)
    ctx.rule("C20.subdivision", "vertex-array up-sampling: three corner children {v_k, m_ka, m_kb} + central child {m_01, m_12, m_20}, m_ab = (v_a + v_b)/2 (set equality of canonical forms)")
    ctx.rule("C20.neighborhood", "neighbourhood = original set + the three edge reflections v_a + v_b - v_k; lattice neighbours verified algebraically; de-duplication of whole triangles only")
    ctx.rule("C20.lattice", "integer-coordinate representation: the children of a lattice triangle (coordinates 2c + d_j, side/2, new offsets, flip state) have exactly the vertex sets of its midpoint subdivision - an algebraic identity in cx, cy, side, offsets, for both orientations")
    ctx.rule("C20.selection", "for_indexes / with_vertices / de-duplication keep geometry: vertices <- unique rows, indices <- inverse map; lattice parameters forwarded unchanged")
    ctx.rule("C20.containment", "Point.mask is the barycentric containment test; every Shape.mask override ORs in super().mask(triangles)")
    array_rule(ctx, p, K)
    lattice_rule(ctx, p, K)
    containment_rule(ctx, p, K)


_A = "autoarray/structures/triangles/abstract.py"
_C = "autoarray/structures/triangles/coordinate_array.py"
_S = "autoarray/structures/triangles/shape.py"
CONTROLS = [
    Control("corner child built with the wrong midpoint", _A, in_func("AbstractTriangles._up_sample_triangle", "self.numpy.stack([triangles[:, 1], m12, m01], axis=1),", "self.numpy.stack([triangles[:, 1], m12, m20], axis=1),"), "C20.subdivision"),
    Control("midpoint is a third of the way", _A, in_func("AbstractTriangles._up_sample_triangle", "m12 = (triangles[:, 1] + triangles[:, 2]) / 2", "m12 = (triangles[:, 1] + 2 * triangles[:, 2]) / 3"), "C20.subdivision"),
    Control("neighbourhood drops the original set", _A, in_func("AbstractTriangles._neighborhood_triangles", "                triangles,\n            ],", "            ],"), "C20.neighborhood"),
    Control("reflection of v1 uses v1", _A, in_func("AbstractTriangles._neighborhood_triangles", "new_v1 = triangles[:, 0] + triangles[:, 2] - triangles[:, 1]", "new_v1 = triangles[:, 0] + triangles[:, 1] - triangles[:, 2]"), "C20.neighborhood"),
    Control("lattice up-sample loses the parent's y offset (seed C20/1)", _C, in_func("CoordinateArrayTriangles.up_sample", "y_offset=self.y_offset + -0.25 * HEIGHT_FACTOR * self.side_length,", "y_offset=-0.25 * HEIGHT_FACTOR * self.side_length,"), "C20.lattice"),
    Control("lattice child offset wrong for flipped parents", _C, in_func("CoordinateArrayTriangles.up_sample", "2 * self.coordinates[self.flip_mask] + np.array([1, 1]),", "2 * self.coordinates[self.flip_mask] + np.array([1, 0]),"), "C20.lattice"),
    Control("lattice side length not halved", _C, in_func("CoordinateArrayTriangles.up_sample", "side_length=self.side_length / 2,", "side_length=self.side_length,"), "C20.lattice"),
    Control("lattice neighbour below instead of above for flipped", _C, in_func("CoordinateArrayTriangles.neighborhood", "self.coordinates[self.flip_mask] + np.array([0, 1]),", "self.coordinates[self.flip_mask] + np.array([0, -1]),"), "C20.neighborhood"),
    Control("selection forgets the flip state", _C, in_func("CoordinateArrayTriangles.for_indexes", "            flipped=self.flipped,\n", ""), "C20.selection"),
    Control("Polygon.mask without the point test (seed C20/2)", _S, in_func("Polygon.mask", ") | super().mask(triangles)", ")"), "C20.containment"),
    Control("barycentric test swaps x and y columns", _S, in_func("Point.mask", "y1, x1 = triangles[:, 0, 1], triangles[:, 0, 0]", "y1, x1 = triangles[:, 0, 0], triangles[:, 0, 1]"), "C20.containment"),
    Control("twin: midpoint written as 0.5 * (a + b)", _A, in_func("AbstractTriangles._up_sample_triangle", "m01 = (triangles[:, 0] + triangles[:, 1]) / 2", "m01 = 0.5 * (triangles[:, 1] + triangles[:, 0])"), None, twin=True),
]
