"""C08 - fit statistics and evidence follow their definitions on unmasked pixels only (DESIGN.md section 4, C08)."""
from __future__ import annotations

import ast
from fractions import Fraction

from ..keval import KEval, Ref, Cond, Const, Top
from ..poly import Poly, ZERO, ONE
from ..forms import short
from .. import wire, paths
from ..model import norm_text, AnchorMissing
from ..controls import Control
from ..mutate import in_func

S_ = Poly.sym
FU = "autoarray.fit.fit_util"
HALF = Poly.const(Fraction(1, 2))
TWO = Poly.const(2)
MASK0 = Poly.sym(repr(("0", "==", "mask")))


def masked(p):
    return Poly.fn("masked", p, MASK0, ZERO)


def sel(name):
    return Poly.elem(name, Poly.fn("mask", MASK0))


def definitions(ctx, p, K):
    rule = "C08.definition"
    d, m, n, r, c2 = S_("data"), S_("model_data"), S_("noise_map"), S_("residual_map"), S_("chi_squared_map")
    pi = S_("pi")
    J = S_("J")
    want = {
        "residual_map_from": d - m,
        "normalized_residual_map_from": r / n,
        "chi_squared_map_from": (r / n) * (r / n),
        "chi_squared_from": Poly.fn("sum", c2),
        "noise_normalization_from": Poly.fn("sum", Poly.fn("log", TWO * pi * n * n)),
        "log_likelihood_from": -HALF * (S_("chi_squared") + S_("noise_normalization")),
        "log_likelihood_with_regularization_from": -HALF * (S_("chi_squared") + S_("regularization_term") + S_("noise_normalization")),
        "log_evidence_from": -HALF * (S_("chi_squared") + S_("regularization_term") + S_("log_curvature_regularization_term") - S_("log_regularization_term") + S_("noise_normalization")),
        "residual_flux_fraction_map_from": r / d,
        # masked variants: every array operand restricted by mask == 0, masked entries zero
        "residual_map_with_mask_from": masked(d - m),
        "normalized_residual_map_with_mask_from": masked(r / n),
        "chi_squared_map_with_mask_from": masked(r / n) * masked(r / n),
        "chi_squared_with_mask_from": Poly.fn("sum", sel("chi_squared_map")),
        "chi_squared_with_mask_fast_from": Poly.fn("sum", ((sel("data") - sel("model_data")) / sel("noise_map")) * ((sel("data") - sel("model_data")) / sel("noise_map"))),
        "noise_normalization_with_mask_from": Poly.fn("sum", Poly.fn("log", TWO * pi * sel("noise_map") * sel("noise_map"))),
        "residual_flux_fraction_map_with_mask_from": masked(r / d),
        # complex (interferometer) variants: real with real, imaginary with imaginary
        "normalized_residual_map_complex_from": S_("residual_map.real") / S_("noise_map.real") + J * S_("residual_map.imag") / S_("noise_map.imag"),
        "chi_squared_map_complex_from": (S_("residual_map.real") / S_("noise_map.real")) ** 2 + J * (S_("residual_map.imag") / S_("noise_map.imag")) ** 2,
        "chi_squared_complex_from": Poly.fn("sum", S_("chi_squared_map.real")) + Poly.fn("sum", S_("chi_squared_map.imag")),
        "noise_normalization_complex_from": Poly.fn("sum", Poly.fn("log", TWO * pi * S_("noise_map.real") ** 2)) + Poly.fn("sum", Poly.fn("log", TWO * pi * S_("noise_map.imag") ** 2)),
        "chi_squared_with_noise_covariance_from": Poly.fn("matmul", Poly.fn("matmul", r, S_("noise_covariance_matrix_inv")), r),
    }
    mod = p.module(FU)
    n_ok = 0
    for name, w in want.items():
        f = mod.functions.get(name)
        if f is None:
            raise AnchorMissing(f"{FU}:{name}")
        S = K.summarize(f)
        got = S.ret
        ok = isinstance(got, Poly) and got == w
        n_ok += 1
        ctx.ob(rule, f.key, ok, where=f, node=f.node, construct=f"returns {short(got, 200)}", message=f"expected {short(w, 200)}", detail=repr(w))
    ctx.require_count(rule, "fit_util definitions", n_ok, 21)
    # any OTHER *_with_mask_* function must also restrict all of its array operands (discovered, not listed)
    for name, f in mod.functions.items():
        if "_with_mask_" in name and name not in want:
            S = K.summarize(f)
            got = S.ret
            txt = repr(got)
            bad = [a for a in f.all_params if a != "mask" and a in txt and f"{a}[mask(" not in txt and "masked(" not in txt]
            ctx.ob(rule, f.key + ":restricted", isinstance(got, Poly) and not bad, where=f, node=f.node, construct=short(got, 200), message=f"operands {bad} of a masked fit function are not restricted by mask == 0")


def prop_calls(p, m):
    """the fit_util calls / super() reads of one property"""
    out = []
    for c in m.calls():
        tg = p.resolve_call(c, m)
        if tg and tg[0].module.name == FU:
            out.append(("util", tg[0], c))
    for n in m.body_nodes():
        if isinstance(n, ast.Attribute) and isinstance(n.value, ast.Call) and isinstance(n.value.func, ast.Name) and n.value.func.id == "super":
            out.append(("super", n.attr, n))
    return out


STEM_SUFFIXES = ("_with_mask_fast_from", "_with_mask_from", "_with_noise_covariance_from", "_complex_from", "_from")


def stem(name):
    for s in STEM_SUFFIXES:
        if name.endswith(s):
            return name[: -len(s)], s
    return name, ""


def wiring(ctx, p):
    rule = "C08.wiring"
    n_inst = 0
    special = {"regularization_term": "self.inversion.regularization_term", "log_curvature_regularization_term": "self.inversion.log_det_curvature_reg_matrix_term",
               "log_regularization_term": "self.inversion.log_det_regularization_matrix_term", "noise_covariance_matrix_inv": "self.dataset.noise_covariance_matrix_inv"}
    for ck in ("autoarray.fit.fit_dataset:AbstractFit", "autoarray.fit.fit_dataset:FitDataset", "autoarray.fit.fit_interferometer:FitInterferometer"):
        c = p.cls(ck)
        for pname, m in c.methods.items():
            if not (m.is_property or m.is_cached):
                continue
            for kind, tgt, node in prop_calls(p, m):
                n_inst += 1
                if kind == "super":
                    ctx.ob(rule, f"{ck}.{pname}:super", tgt == pname, where=m, node=node, construct=f"super().{tgt}", message=f"property '{pname}' falls back to a DIFFERENT statistic of the base class")
                    continue
                st, suf = stem(tgt.name)
                ok = st == pname
                kwv = {k: norm_text(v) for k, v in wire.kw(node, tgt).items()}
                bad = {k: v for k, v in kwv.items() if v != special.get(k, f"self.{k}")}
                ctx.ob(rule, f"{ck}.{pname}:{tgt.name}", ok and not bad, where=m, node=node, construct=f"{tgt.name}({kwv})",
                       message=f"property '{pname}' must be computed by the util of the same name from the same-named quantities of the fit" + (f"; mis-bound arguments {bad}" if bad else ""))
                br = wire.enclosing_branches(m, node)
                tests = [(norm_text(i.test), t) for i, t in br]
                if "_with_mask_" in tgt.name:
                    ctx.ob(rule, f"{ck}.{pname}:{tgt.name}:branch", ("self.use_mask_in_fit", True) in tests and kwv.get("mask") == "self.mask", where=m, node=node, construct=f"under {tests}; mask={kwv.get('mask')}",
                           message="the masked variant must be used exactly under `self.use_mask_in_fit`, with mask=self.mask")
    ctx.require_count(rule, "wiring instances in the fit classes", n_inst, 22)
    # a statistic that is judged on AbstractFit (its util wiring above, the signal-to-noise form in C08.snr) is what every fit class reports only if no subclass replaces it
    # by something else: an override must go through the util of the same name or through super() - both judged above - and not around them
    base = p.cls("autoarray.fit.fit_dataset:AbstractFit")
    judged = {pn for pn, m_ in base.methods.items() if (m_.is_property or m_.is_cached) and (prop_calls(p, m_) or pn == "signal_to_noise_map")}
    for sub in base.all_subclasses():
        if ".mock" in sub.module.name or sub.module.name.startswith("test_"):
            continue
        for pn in sorted(judged):
            m_ = sub.methods.get(pn)
            if m_ is None:
                continue
            okv = bool(prop_calls(p, m_))
            if not okv and pn == "signal_to_noise_map":
                # complex data: the same clipped quotient taken of the real and of the imaginary parts of the fit's own data and noise map
                qs = paths.returns(paths.path_summaries(m_) or [])
                parts = [_snr_forms(f"self.data.{c_}/self.noise_map.{c_}") for c_ in ("real", "imag")]
                okv = len(qs) == 1 and any(qs[0].text in (f"{r_}+1j*{i_}", f"{r_}+1.0j*{i_}", f"1j*{i_}+{r_}", f"1.0j*{i_}+{r_}", f"{r_}+{i_}*1j", f"{r_}+{i_}*1.0j", f"{i_}*1j+{r_}", f"{i_}*1.0j+{r_}") for r_ in parts[0] for i_ in parts[1])
            ctx.ob(rule, f"{sub.key}.{pn}:override", okv, where=m_, node=m_.node, construct=f"{sub.name}.{pn} overrides {base.name}.{pn}: " + "; ".join(norm_text(r.value)[:80] for r in wire.returns_of(m_)),
                   message=f"`{pn}` is defined by AbstractFit from the fit's own data, noise map and model; this override computes it some other way (neither the util of the same name nor super().{pn}), "
                           f"so the statistic of a {sub.name} no longer follows the definition (e.g. it ignores what the fit subtracts from the data)")
    # in FitDataset every maskable statistic has the masked branch
    c = p.cls("autoarray.fit.fit_dataset:FitDataset")
    for pname in ("residual_map", "normalized_residual_map", "chi_squared_map", "chi_squared", "noise_normalization", "residual_flux_fraction_map"):
        m = c.methods.get(pname)
        if m is None:
            raise AnchorMissing(f"FitDataset.{pname}")
        kinds = prop_calls(p, m)
        has_masked = any(k == "util" and "_with_mask_" in t.name for k, t, _ in kinds)
        has_plain = any((k == "super") or (k == "util" and "_with_mask_" not in t.name and "_with_noise_covariance" not in t.name) for k, t, _ in kinds)
        ctx.ob(rule, f"{c.key}.{pname}:both-modes", has_masked and has_plain, where=m, node=m.node, construct=str([(k, getattr(t, 'name', t)) for k, t, _ in kinds]),
               message="the statistic must have both the masked-native and the slim evaluation mode")
    # data / noise map come from the dataset (background sky subtracted only in FitImaging.data)
    for pname, want in (("data", "self.dataset.data"), ("noise_map", "self.dataset.noise_map"), ("mask", "self.dataset.mask")):
        m = c.methods.get(pname)
        rets = wire.returns_of(m) if m else []
        ctx.ob(rule, f"{c.key}.{pname}", len(rets) == 1 and norm_text(rets[0].value) == want, where=m or c, node=rets[0] if rets else None, construct=norm_text(rets[0].value) if rets else "", message=f"{pname} must be {want}")
    fi = p.cls("autoarray.fit.fit_imaging:FitImaging").methods.get("data")
    if fi is None:
        raise AnchorMissing("FitImaging.data")
    rets = [norm_text(r.value) for r in wire.returns_of(fi)]
    ctx.ob(rule, "FitImaging.data", sorted(rets) == sorted(["self.dataset.data - self.dataset_model.background_sky_level", "self.dataset.data"]), where=fi, node=fi.node, construct=str(rets),
           message="the fitted data must be the dataset data, minus the model's background sky level when one is set")


def evidence(ctx, p, K):
    rule = "C08.evidence"
    c = p.cls("autoarray.fit.fit_dataset:FitDataset")
    m = c.methods.get("figure_of_merit")
    if m is None:
        raise AnchorMissing("FitDataset.figure_of_merit")
    # decided on name-free path summaries (sa/paths.py): what each path returns, under which conditions
    rets = paths.returns(paths.path_summaries(m) or [])
    ev = [q for q in rets if q.text == "self.log_evidence"]
    ok = len(ev) == 1 and ev[0].holds("self.inversion is not None") is True and len(ev[0].conds) == 1
    ctx.ob(rule, m.key + ":evidence-branch", ok, where=m, node=ev[0].node if ev else m.node, construct=str(ev[0].conds) if ev else "", message="the figure of merit must be the evidence exactly when an inversion is present (`self.inversion is not None`, nothing more)")
    ll = [q for q in rets if q.text in ("self.log_likelihood", "self.log_likelihood.array")]
    ctx.ob(rule, m.key + ":likelihood-branch", len(ll) >= 1 and len(ll) + len(ev) == len(rets) and all(q.holds("self.inversion is not None") is False for q in ll), where=m, node=m.node, construct=str([q.text for q in rets]),
           message="without an inversion the figure of merit must be the log likelihood")
    for pname in ("log_evidence", "log_likelihood_with_regularization"):
        mm = c.methods.get(pname)
        cs = [x for x in prop_calls(p, mm) if x[0] == "util"]
        PS = paths.path_summaries(mm) or []
        util = [q for q in PS if q.kind == "return" and isinstance(q.value, ast.Call) and cs and norm_text(q.value.func) == norm_text(cs[0][2].func)]
        other = [q for q in PS if q not in util]
        ok = len(cs) == 1 and len(util) == 1 and util[0].holds("self.inversion is not None") is True and len(util[0].conds) == 1 \
            and all(q.holds("self.inversion is not None") is False and (q.kind == "fall" or q.text == "None") for q in other)
        ctx.ob(rule, f"{c.key}.{pname}:guard", ok, where=mm, node=cs[0][2] if cs else mm.node, construct=str([(q.kind, q.conds) for q in PS])[:200], message=f"{pname} must be evaluated when (and only when) an inversion is present")
    # inversion terms are formed from the *_reduced quantities (regularized parameters only)
    inv = p.cls("autoarray.inversion.inversion.abstract:AbstractInversion")
    rt = inv.methods.get("regularization_term")
    S = K.summarize(rt)
    sr, Hr = S_("self.reconstruction_reduced"), S_("self.regularization_matrix_reduced")
    want = Poly.fn("matmul", Poly.fn("T", sr) if False else S_("self.reconstruction_reduced.T"), Poly.fn("matmul", Hr, sr))
    got = [v for v, g, n in S.returns if not (isinstance(v, Poly) and v == ZERO)]
    ok = len(got) == 1 and isinstance(got[0], Poly) and got[0] == want
    ctx.ob(rule, rt.key, ok, where=rt, node=rt.node, construct=short(got[0]) if got else "", message=f"regularization term must be s_reduced^T (H_reduced s_reduced); expected {want!r}")
    # the terms vanish exactly when no linear object is regularized: decision table of each of the three terms - the 0.0 return on the paths where
    # `self.has(cls=AbstractRegularization)` is false, and only there
    HAS = "self.has(cls=AbstractRegularization)"
    for tname in ("regularization_term", "log_det_curvature_reg_matrix_term", "log_det_regularization_matrix_term"):
        tm = inv.methods.get(tname)
        if tm is None:
            raise AnchorMissing(f"AbstractInversion.{tname}")
        qs = paths.returns(paths.path_summaries(tm, project=p) or [])
        zero = [q for q in qs if q.text in ("0.0", "0")]
        other = [q for q in qs if q.text not in ("0.0", "0")]
        okz = len(zero) >= 1 and all(q.holds(HAS) is False for q in zero) and len(other) >= 1 and all(q.holds(HAS) is True for q in other)
        ctx.ob(rule, tm.key + ":no-regularization", okz, where=tm, node=(zero[0].node if zero else None) or tm.node,
               construct="; ".join(f"{q.text[:30]} if has={q.holds(HAS)}" for q in qs)[:200],
               message="the term must be 0.0 exactly when no regularization is present (`not self.has(cls=AbstractRegularization)`) and the computed value otherwise")
    for name, operand in (("log_det_curvature_reg_matrix_term", "self.curvature_reg_matrix_reduced"), ("log_det_regularization_matrix_term", "self.regularization_matrix_reduced")):
        mm = inv.methods.get(name)
        if mm is None:
            raise AnchorMissing(f"AbstractInversion.{name}")
        reads = {norm_text(n) for n in mm.body_nodes() if isinstance(n, ast.Attribute) and isinstance(n.value, ast.Name) and n.value.id == "self" and ("matrix" in n.attr) and "preloads" not in n.attr}
        ctx.ob(rule, mm.key + ":reduced", reads == {operand}, where=mm, node=mm.node, construct=str(sorted(reads)), message=f"the log-determinant must be taken of {operand} only (regularized parameters)")
        # 2 * sum(log(diag(cholesky(X)))) - as canonical forms of what the paths return (temporaries substituted, factor order free)
        from ..forms import expr_poly, src_poly
        PS = paths.path_summaries(mm) or []
        chol = [q for q in paths.returns(PS) if paths.calls_in(q.value, "cholesky")]
        want = {src_poly(f"2.0 * {np_}.sum({np_}.log({np_}.diag({np_}.linalg.cholesky({operand}))))") for np_ in ("np", "numpy")}
        good = len(chol) >= 1 and all(expr_poly(q.value) in want for q in chol)
        ctx.ob(rule, mm.key + ":form", good, where=mm, node=(chol[0].node if chol else None) or mm.node, construct=f"{len(chol)} cholesky-based evaluations: " + "; ".join(q.text[:70] for q in chol), message="log det = 2 * sum(log(diag(cholesky(X))))")
    # the reduced quantities delete exactly the no-regularization rows AND columns
    for name, src in (("curvature_reg_matrix_reduced", "self.curvature_reg_matrix"), ("regularization_matrix_reduced", "self.regularization_matrix")):
        mm = inv.methods.get(name)
        dels = [c_ for c_ in mm.calls() if norm_text(c_.func) in ("np.delete", "numpy.delete")]
        axes = sorted(norm_text(c_.args[2]) if len(c_.args) > 2 else norm_text(wire.kw(c_).get("axis")) for c_ in dels)
        idx = {norm_text(wire.inline_locals(mm, c_.args[1])) for c_ in dels}
        ctx.ob(rule, mm.key, axes == ["0", "1"] and idx == {"self.no_regularization_index_list"}, where=mm, node=mm.node, construct=f"axes {axes} indices {sorted(idx)}", message="the reduced matrix must drop the no-regularization indices along both axes")
    mm = inv.methods.get("reconstruction_reduced")
    dels = [c_ for c_ in mm.calls() if norm_text(c_.func) in ("np.delete", "numpy.delete")]
    ok = len(dels) == 1 and norm_text(wire.inline_locals(mm, dels[0].args[0])) == "self.reconstruction" and norm_text(wire.inline_locals(mm, dels[0].args[1])) == "self.no_regularization_index_list"
    ctx.ob(rule, mm.key, ok, where=mm, node=mm.node, construct=norm_text(dels[0]) if dels else "", message="the reduced reconstruction must drop the no-regularization entries")


def _snr_forms(base: str):
    """the accepted spellings of `base` with its negatives clipped to zero on a fresh array"""
    return (f"__store__({base},{base}<0,0)", f"__store__({base},{base}<0,0.0)", f"np.where({base}<0,0,{base})", f"np.where({base}<0,0.0,{base})", f"({base}).clip(min=0)", f"np.clip({base},0,None)", f"np.maximum({base},0)")


def snr(ctx, p):
    """signal_to_noise_map clips negatives to zero on a FRESH array (never on the data)"""
    rule = "C08.snr"
    for ck in ("autoarray.fit.fit_dataset:AbstractFit", "autoarray.dataset.abstract.dataset:AbstractDataset"):
        m = p.cls(ck).methods.get("signal_to_noise_map")
        if m is None:
            raise AnchorMissing(f"{ck}.signal_to_noise_map")
        PS = paths.path_summaries(m) or []
        rets = paths.returns(PS)
        forms = _snr_forms("self.data/self.noise_map")
        ok = len(PS) == 1 and len(rets) == 1 and rets[0].text in forms
        # no store into anything that is not the fresh quotient
        writes = [e for q in PS for e in q.effects if isinstance(e, ast.Assign)] + [n for n in m.body_nodes() if isinstance(n, ast.AugAssign)]
        ctx.ob(rule, m.key, ok and not writes, where=m, node=(rets[0].node if rets else None) or m.node,
               construct=(rets[0].text[:120] if rets else "") + ("; writes " + "; ".join(norm_text(w)[:60] for w in writes) if writes else ""),
               message="signal-to-noise = data / noise on a new array, negatives of THAT array clipped to 0; no other in-place write (the data itself must not be modified)")


def run(ctx):
    p = ctx.p
    K = KEval(p)
    ctx.rule("C08.definition", "every statistic's util equals its definition as a canonical form; every _with_mask_ variant restricts every array operand by mask == 0 (masked entries zero / excluded from sums)")
    ctx.rule("C08.wiring", "each property of AbstractFit / FitDataset / FitInterferometer calls the util of the same name with same-named arguments; masked variant exactly under use_mask_in_fit with mask=self.mask; both modes present")
    ctx.rule("C08.evidence", "figure of merit = evidence iff `inversion is not None`; evidence terms bound to the inversion's regularization term and log-determinants, which are formed from the *_reduced quantities")
    ctx.rule("C08.snr", "signal_to_noise_map clips negatives on a fresh array only")
    definitions(ctx, p, K)
    wiring(ctx, p)
    evidence(ctx, p, K)
    snr(ctx, p)


_U = "autoarray/fit/fit_util.py"
_D = "autoarray/fit/fit_dataset.py"
_A = "autoarray/inversion/inversion/abstract.py"
CONTROLS = [
    Control("regularization term zero when a regularization IS present (guard negated; found by mutation fuzzing)", "autoarray/inversion/inversion/abstract.py", in_func("AbstractInversion.regularization_term", "        if not self.has(cls=AbstractRegularization):\n            return 0.0", "        if self.has(cls=AbstractRegularization):\n            return 0.0"), "C08.evidence"),
    Control("evidence: sign of log det(H) flipped", _U, in_func("log_evidence_from", "        - log_regularization_term", "        + log_regularization_term"), "C08.definition"),
    Control("noise normalisation without the square", _U, in_func("noise_normalization_with_mask_from", "noise_map[np.asarray(mask) == 0] ** 2.0", "noise_map[np.asarray(mask) == 0]"), "C08.definition"),
    Control("masked chi-squared map forgets the mask", _U, in_func("chi_squared_map_with_mask_from", "            out=np.zeros_like(residual_map),\n            where=np.asarray(mask) == 0,\n", ""), "C08.definition"),
    Control("fast chi-squared masks the data but not the noise", _U, in_func("chi_squared_with_mask_fast_from", "noise_map[np.asarray(mask) == 0],", "noise_map,"), "C08.definition"),
    Control("flux fraction wired to chi-squared (original defect)", _D, in_func("FitDataset.residual_flux_fraction_map", "return fit_util.residual_flux_fraction_map_from(\n            residual_map=self.residual_map, data=self.data\n        )", "return super().chi_squared_map"), "C08.wiring"),
    Control("normalized residuals use the data as noise", _D, in_func("AbstractFit.normalized_residual_map", "noise_map=self.noise_map", "noise_map=self.data"), "C08.wiring"),
    Control("masked branch inverted", _D, in_func("FitDataset.noise_normalization", "if self.use_mask_in_fit:", "if not self.use_mask_in_fit:"), "C08.wiring"),
    Control("figure of merit needs a mapper (seed C08/2)", _D, in_func("FitDataset.figure_of_merit", "if self.inversion is not None:", "if self.inversion is not None and self.inversion.has(cls=object):"), "C08.evidence"),
    Control("log det of the un-reduced matrix", _A, in_func("AbstractInversion.log_det_curvature_reg_matrix_term", "np.linalg.cholesky(self.curvature_reg_matrix_reduced)", "np.linalg.cholesky(self.curvature_reg_matrix)"), "C08.evidence"),
    Control("regularization term from the full reconstruction", _A, in_func("AbstractInversion.regularization_term", "np.matmul(self.regularization_matrix_reduced, self.reconstruction_reduced)", "np.matmul(self.regularization_matrix_reduced, self.reconstruction)"), "C08.evidence"),
    Control("snr clips the data in place (seed C08/1)", _D, in_func("AbstractFit.signal_to_noise_map", "        signal_to_noise_map = self.data / self.noise_map\n        signal_to_noise_map[signal_to_noise_map < 0] = 0", "        data = self.data\n        data[data < 0] = 0\n        signal_to_noise_map = data / self.noise_map"), "C08.snr"),
    Control("twin: likelihood written as -(a+b)/2", _U, in_func("log_likelihood_from", "return -0.5 * (chi_squared + noise_normalization)", "return -(noise_normalization + chi_squared) / 2.0"), None, twin=True),
]
