"""C09 - over-sampling partitions pixels uniformly and bins by exact per-pixel means (DESIGN.md section 4, C09)."""
from __future__ import annotations

import ast
from fractions import Fraction

from ..keval import KEval, Ref, Cond, Const, Top
from ..poly import Poly, ZERO, ONE
from ..forms import value_poly, real_guards, short, acc_name_of, is_full_range, norm_cond, CMP, AND, net_accumulation
from ..trav import check_slim_counter, check_sub_counter, counter_increments
from .. import wire, paths
from ..model import norm_text, AnchorMissing
from ..controls import Control
from ..mutate import in_func

S_ = Poly.sym
E_ = Poly.elem
OU = "autoarray.operators.over_sampling.over_sample_util"
H, W, s0, s1, oy, ox = (S_(n) for n in ("H", "W", "s0", "s1", "oy", "ox"))
HALF = Poly.const(Fraction(1, 2))
CY, CX = (H - ONE) * HALF, (W - ONE) * HALF


def need(f, *names):
    for n in names:
        if n not in f.all_params:
            raise AnchorMissing(f"{f.key}: parameter {n}")


def counters_of(S, out):
    """(slim counter, sub counter) names used by the stores into `out` (either may be None)"""
    names = set()
    for s in S.stores_to(out):
        for x in s.idx:
            n = acc_name_of(x)
            if n:
                names.add(n)
        v = value_poly(s.value)
        if isinstance(v, Poly):
            for a in v.all_atoms():
                if a[0] == "s" and a[1].endswith("~"):
                    names.add(a[1][:-1])
    return names


def sub_kernel(ctx, p, K, key, args, payload, accumulate=False, mask="mask_2d"):
    """a kernel with the (slim counter, sub counter) double traversal.  payload(y, x, y1, x1, sub, k, ks) -> {extra idx: form}"""
    rule = "C09.traversal"
    f = p.func(key)
    need(f, *args.keys())
    S = K.summarize(f, dict(args))
    out = S.returned_array_names()
    if len(out) != 1:
        ctx.ob(rule, key, None, message=f"expected one returned array, got {out}")
        return None
    # identify counters by depth of their increments
    slim = sub = None
    for (nm, v, op, g, l, n) in S.assigns:
        if op == "+=" and v == ONE:
            if len(l) == 2:
                slim = nm
            elif len(l) == 4:
                sub = nm
    if slim is None or sub is None:
        ctx.ob(rule, key, False, where=f, node=f.node, construct=f"slim counter {slim}, sub counter {sub}", message="expected a slim counter advanced per unmasked pixel and a sub counter advanced per sub-pixel")
        return None
    mname = args[mask].name if isinstance(args[mask], Ref) else mask
    if not check_slim_counter(ctx, "C09.traversal", S, slim, [mname], shape=(H, W), what="slim"):
        return None
    roles = check_sub_counter(ctx, "C09.traversal", S, sub, slim, [mname], shape=(H, W))
    if roles is None:
        return None
    y, x, y1, x1, subv = roles
    k, ks = S_(slim + "~"), S_(sub + "~")
    want = payload(y, x, y1, x1, subv, k, ks)
    sts = S.stores_to(out[0])
    if accumulate:
        got = {idx: v for idx, v in net_accumulation(sts).items()}
        ok = all(s.op == "+=" for s in sts)
    else:
        got = {s.idx: (s.value if isinstance(s.value, tuple) else value_poly(s.value)) for s in sts}
        ok = all(s.op == "=" for s in sts)
    ok = ok and set(got) == set(want) and all(got[i] == want[i] for i in want)
    ctx.ob("C09.payload", key, ok, where=f, node=sts[0].node if sts else f.node, construct="; ".join(f"[{', '.join(map(repr, i))}] {'+=' if accumulate else '='} {short(v, 110)}" for i, v in got.items()),
           message="expected " + "; ".join(f"[{', '.join(map(repr, i))}] {'+=' if accumulate else '='} {short(v, 110)}" for i, v in want.items()),
           detail={repr(i): repr(v) for i, v in want.items()})
    return S, out[0]


def run(ctx):
    p = ctx.p
    K = KEval(p)
    ctx.rule("C09.traversal", "pixels in slim order, then y1 outer / x1 inner over range(sub) with sub = sub_size[slim index]; slim and sub counters advance by 1, once, at their own depth (E3)")
    ctx.rule("C09.payload", "sub-pixel centre y = oy + ((H-1)/2 - y)s0 + s0/2 - (y1+1/2)s0/sub, x = ox + (x - (W-1)/2)s1 - s1/2 + (x1+1/2)s1/sub; binning adds value[sub index]/sub^2 into out[slim index]; index tables hold the slim / native sub index (E4)")
    ctx.rule("C09.wiring", "OverSamplerUniform hands its own mask, pixel scales, sub-size map and mask origin to the kernels; binned result returned on its mask; sub-pixel areas = area/sub^2 repeated sub^2 times")
    ctx.rule("C09.decorator", "the decorator evaluates the undecorated function on over_sampled_grid and passes the result untouched to binned_array_2d_from; plain evaluation when over-sampling is off")
    ctx.rule("C09.iterate", "iterative scheme comparator: ratio lower/higher inverted when > 1, defined only when lower > 0 (else 0), compared with < against the fractional threshold; |lower - higher| compared with > against the tolerance; only unmasked pixels")
    M = Ref("M", shape=(H, W))
    SS = Ref("sub_size")
    # over-sampled grid
    sub_kernel(ctx, p, K, f"{OU}:grid_2d_slim_over_sampled_via_mask_from", dict(mask_2d=M, pixel_scales=(s0, s1), sub_size=SS, origin=(oy, ox)),
               lambda y, x, y1, x1, sub, k, ks: {(ks, ZERO): oy + (CY - y) * s0 + s0 * HALF - (y1 + HALF) * s0 / sub,
                                                 (ks, ONE): ox + (x - CX) * s1 - s1 * HALF + (x1 + HALF) * s1 / sub})
    # binning
    r = sub_kernel(ctx, p, K, f"{OU}:binned_array_2d_from", dict(mask_2d=M, sub_size=SS, array_2d=Ref("A")),
                   lambda y, x, y1, x1, sub, k, ks: {(k,): E_("A", ks) / (sub * sub)}, accumulate=True)
    if r:
        S, out = r
        ref = S.env.get(out)
        init, shp = getattr(ref, "init", None), getattr(ref, "shape", None)
        ctx.ob("C09.payload", f"{OU}:binned_array_2d_from:init", init is not None and init[0] == "zeros" and shp == (Poly.fn("total_pixels_2d_from", S_("M")),),
               where=S.func, node=S.func.node, construct=f"init {init} shape {shp}", message="binned output must start as zeros with one entry per unmasked pixel of the same mask")
    # index tables
    sub_kernel(ctx, p, K, f"{OU}:slim_index_for_sub_slim_index_via_mask_2d_from", dict(mask_2d=M, sub_size=SS), lambda y, x, y1, x1, sub, k, ks: {(ks,): k})
    sub_kernel(ctx, p, K, f"{OU}:native_sub_index_for_slim_sub_index_2d_from", dict(mask_2d=M, sub_size=SS), lambda y, x, y1, x1, sub, k, ks: {(ks, ZERO): y * sub + y1, (ks, ONE): x * sub + x1})
    # sub-slim index of each sub-native index: slim traversal of the sub mask
    f = p.func(f"{OU}:sub_slim_index_for_sub_native_index_from")
    S = K.summarize(f)
    out = S.returned_array_names()
    ok = False
    if len(out) == 1:
        sts = S.stores_to(out[0])
        if len(sts) == 1 and len(sts[0].loops) == 2:
            c = acc_name_of(value_poly(sts[0].value))
            a, b = S_(sts[0].loops[0].var), S_(sts[0].loops[1].var)
            if c and check_slim_counter(ctx, "C09.traversal", S, c, ["sub_mask_2d"], what="sub-slim"):
                ref = S.env.get(out[0])
                init = getattr(ref, "init", None)
                ok = sts[0].idx == (a, b) and value_poly(sts[0].value) == S_(c + "~") and init is not None and isinstance(init[1], Poly) and init[1] == Poly.const(-1)
    ctx.ob("C09.payload", f.key, ok, where=f, node=f.node, construct="out[a, b] = counter; init -1", message="each unmasked sub-pixel must receive its running slim index, masked ones -1")
    # total sub pixels
    f = p.func(f"{OU}:total_sub_pixels_2d_from")
    S = K.summarize(f, dict(sub_size=SS))
    want = K.to_int(Poly.fn("sum", S_("sub_size") * S_("sub_size")))
    ctx.ob("C09.payload", f.key, S.ret == want, where=f, node=f.node, construct=repr(S.ret), message=f"total sub-pixels must be sum(sub_size**2); expected {want!r}")
    wiring(ctx, p, K)
    decorator(ctx, p)
    iterate(ctx, p, K)
    level_advance(ctx, p)


def wiring(ctx, p, K):
    rule = "C09.wiring"
    c = p.cls("autoarray.operators.over_sampling.uniform:OverSamplerUniform")
    tab = {"over_sampled_grid": ("grid_2d_slim_over_sampled_via_mask_from", {"mask_2d": "self.mask", "pixel_scales": "self.mask.pixel_scales", "sub_size": "self.sub_size", "origin": "self.mask.origin"}),
           "binned_array_2d_from": ("binned_array_2d_from", {"array_2d": "array", "mask_2d": "self.mask", "sub_size": "self.sub_size"}),
           "slim_for_sub_slim": ("slim_index_for_sub_slim_index_via_mask_2d_from", {"mask_2d": "self.mask", "sub_size": "self.sub_size"}),
           "sub_mask_native_for_sub_mask_slim": ("native_sub_index_for_slim_sub_index_2d_from", {"mask_2d": "self.mask", "sub_size": "self.sub_size"})}

    def strip(e):
        while True:
            e2 = wire.strip_np_array(e)
            if isinstance(e2, ast.Call) and isinstance(e2.func, ast.Attribute) and e2.func.attr == "astype" and len(e2.args) == 1 and isinstance(e2.args[0], ast.Constant) and e2.args[0].value == "int":
                e2 = e2.func.value
            if e2 is e:
                return e
            e = e2
    for meth, (util, want) in tab.items():
        m = c.lookup(meth)
        if m is None:
            raise AnchorMissing(f"OverSamplerUniform.{meth}")
        callee = p.func(f"{OU}:{util}")
        cs = wire.calls_to(p, m, callee.key)
        got = {k: norm_text(strip(v)) for k, v in wire.kw(cs[0], callee).items()} if len(cs) == 1 else {}
        if meth == "binned_array_2d_from" and got.get("array_2d") in ("array_slim", "getattr(array, 'slim', array)", 'getattr(array, "slim", array)'):
            # the operand in slim form, taken with a getattr default instead of try / except AttributeError
            src = wire.inline_locals(m, wire.kw(cs[0], callee).get("array_2d"))
            if norm_text(strip(src)).replace('"', "'") == "getattr(array, 'slim', array)":
                got["array_2d"] = "array"
        ctx.ob(rule, f"{c.key}.{meth}", got == want, where=m, node=cs[0] if cs else m.node, construct=str(got), message=f"expected {want}")
    # binned result on the sampler's mask; the operand is taken in slim form
    m = c.lookup("binned_array_2d_from")
    rets = [r for r in wire.returns_of(m) if isinstance(r.value, ast.Call) and norm_text(r.value.func) == "Array2D"]
    bcalls = wire.calls_to(p, m, p.func(f"{OU}:binned_array_2d_from").key)
    ok = len(rets) == 1 and len(bcalls) == 1 and norm_text(wire.kw(rets[0].value).get("mask")) == "self.mask" and wire.is_value_of(m, wire.kw(rets[0].value).get("values"), bcalls[0])
    slim = any(isinstance(n, ast.Assign) and norm_text(n.targets[0]) == "array" and norm_text(n.value) == "array.slim" for n in m.body_nodes()) \
        or any(isinstance(n, ast.Call) and norm_text(n).replace('"', "'") == "getattr(array, 'slim', array)" for n in m.body_nodes())
    ctx.ob(rule, f"{c.key}.binned_array_2d_from:return", ok and slim, where=m, node=rets[0] if rets else m.node, construct=norm_text(rets[0].value) if rets else "", message="the binned values must be returned as an Array2D on self.mask; the operand is used in slim form")
    # array_via_func_from: func on over_sampled_grid, then binned untouched
    m = c.lookup("array_via_func_from")
    passthrough(ctx, rule, p, m, grid_expr="self.over_sampled_grid", sink="binned_array_2d_from", sink_kw="array")
    # sub pixel areas
    m = c.lookup("sub_pixel_areas")
    S = K.summarize(m)
    outs_ = S.returned_array_names()
    sts = S.stores_to(outs_[0]) if len(outs_) == 1 else []   # the returned array, whatever it is called
    ok = len(sts) == 1 and len(sts[0].loops) == 2
    det = ""
    if ok:
        l0, l1 = sts[0].loops
        i = S_(l0.var)
        sub_i = E_("self.sub_size", i)
        area = E_("self.mask.pixel_scales", ZERO) * E_("self.mask.pixel_scales", ONE)
        det = repr(sts[0])[:200]
        cname = acc_name_of(sts[0].idx[0])
        incs = counter_increments(S, cname) if cname else []
        # `self.sub_length` (sub_size ** 2 for a 2-D mask, element by element, same extent) may stand for the square
        sl = c.lookup("sub_length")
        sl_ok = sl is not None and [norm_text(r.value).replace(" ", "") for r in wire.returns_of(sl)] in (["self.sub_size**self.mask.dimensions"], ["self.sub_size**2"])

        def unsl(v):
            if not (sl_ok and isinstance(v, Poly)):
                return v
            return v.subst(lambda a: (E_("self.sub_size", *a[2]) * E_("self.sub_size", *a[2])) if (a[0] == "i" and a[1] == "self.sub_length" and len(a[2]) == 1)
                           else (S_("self.sub_size.shape[0]") if a == ("s", "self.sub_length.shape[0]") else None))
        ok = unsl(value_poly(sts[0].value)) == area / (sub_i * sub_i) and l1.lo == ZERO and unsl(l1.hi) == sub_i * sub_i and l0.lo == ZERO and unsl(l0.hi) == S_("self.sub_size.shape[0]") \
            and cname is not None and sts[0].idx == (S_(cname + "~"),) and len(incs) == 1 and incs[0][0] == ONE and not real_guards(incs[0][2]) and len(incs[0][3]) == 2
    ctx.ob(rule, f"{c.key}.sub_pixel_areas", ok, where=m, node=m.node, construct=det, message="sub-pixel areas must be pixel_area / sub_size[i]^2 repeated sub_size[i]^2 times for each pixel i in slim order")


def passthrough(ctx, rule, p, m, grid_expr, sink, sink_kw):
    """every path returns self.<sink>(<sink_kw>=func([obj,] <grid>, *args, **kwargs)) with nothing in between (sa/paths.py: locals substituted, starred argument tuples written out)"""
    PS = paths.returns(paths.path_summaries(m) or [])
    calls = [c for c in m.calls() if isinstance(c.func, ast.Name) and c.func.id == "func"]
    ok = bool(PS)
    det = []
    for q in PS:
        v = q.value
        okq = isinstance(v, ast.Call) and isinstance(v.func, ast.Attribute) and v.func.attr == sink and paths.ptext(v.func.value) == "self" and set(paths.kwargs(v)) == {sink_kw} and not v.args
        inner = paths.kwargs(v).get(sink_kw) if okq else None
        okq = okq and isinstance(inner, ast.Call) and paths.ptext(inner.func) == "func"
        if okq:
            args = [paths.ptext(a) for a in paths.flat_args(inner)]
            has_obj = q.holds("obj is not None")
            want_args = (["obj"] if has_obj else []) + [grid_expr, "*args"]
            okq = args == want_args and [paths.ptext(k.value) for k in inner.keywords if k.arg is None] == ["kwargs"] and not [k for k in inner.keywords if k.arg is not None]
            det.append(f"func({', '.join(args)}) when obj is not None = {has_obj}")
        ok = ok and okq
    ctx.ob(rule, f"{m.key}:pass-through", ok, where=m, node=calls[0] if calls else m.node, construct="; ".join(det)[:200] or f"{len(PS)} returning paths",
           message=f"the user function must be evaluated on {grid_expr} and its result handed unchanged to {sink}({sink_kw}=...)")


def decorator(ctx, p):
    rule = "C09.decorator"
    m = p.module("autoarray.operators.over_sampling.decorator")
    over = m.functions.get("over_sample")
    if over is None:
        raise AnchorMissing("decorator.over_sample")
    wrapper = [f for f in m.all_funcs if f.parent is over and f.name == "wrapper"]
    if not wrapper:
        raise AnchorMissing("over_sample.<locals>.wrapper")
    w = wrapper[0]
    rets = wire.returns_of(w)
    # decided on name-free path summaries of the wrapper (sa/paths.py)
    PS = paths.returns(paths.path_summaries(w) or [])

    def flag_of(q):
        """(truth, grid argument) of the perform_over_sampling_from(...) test on this path"""
        for t, truth in q.conds:
            if t.startswith("perform_over_sampling_from("):
                c_ = ast.parse(t, mode="eval").body
                return truth, paths.ptext(paths.kwargs(c_).get("grid")), [x for x in q.conds if x != (t, truth)]
        return None, None, q.conds
    # (1) over-sampling branch: grid.over_sampler.array_via_func_from(func=func, obj=obj, ...)
    os_rets = [q for q in PS if isinstance(q.value, ast.Call) and isinstance(q.value.func, ast.Attribute) and q.value.func.attr == "array_via_func_from"]
    ok = bool(os_rets)
    for q in os_rets:
        g_now = paths.ptext(q.env.get("grid", ast.Name(id="grid", ctx=ast.Load())))
        kw_ = {k: paths.ptext(v) for k, v in paths.kwargs(q.value).items()}
        ok = ok and paths.ptext(q.value.func.value) in (f"{g_now}.over_sampler", f"({g_now}).over_sampler") and kw_.get("func") == "func" and kw_.get("obj") == "obj"
    ctx.ob(rule, w.key + ":over-sampled", ok, where=w, node=os_rets[0].node if os_rets else w.node, construct=os_rets[0].text[:140] if os_rets else "",
           message="with over-sampling on, the UNDECORATED function `func` must be evaluated by the grid's own over-sampler")
    # (2) plain branch: not perform_over_sampling -> return func(obj=obj, grid=grid, ...)
    plain = [q for q in PS if isinstance(q.value, ast.Call) and isinstance(q.value.func, ast.Name) and q.value.func.id == "func"]
    ok = bool(plain)
    okf = bool(plain) and bool(os_rets)
    det = ""
    for q in plain + os_rets:
        truth, garg, rest = flag_of(q)
        g_now = paths.ptext(q.env.get("grid", ast.Name(id="grid", ctx=ast.Load())))
        det = f"{q.text[:80]} under {q.conds}"[:300]
        okf = okf and truth is (q in os_rets) and garg == g_now
        if q in plain:
            kw_ = {k: paths.ptext(v) for k, v in paths.kwargs(q.value).items()}
            ok = ok and truth is False and kw_.get("grid") == g_now and kw_.get("obj") == "obj"
    ctx.ob(rule, w.key + ":plain", ok, where=w, node=plain[0].node if plain else w.node, construct=det, message="when over-sampling is not performed the function must be evaluated plainly on the input grid")
    # perform flag computed by perform_over_sampling_from(grid=grid, ...)
    ctx.ob(rule, w.key + ":flag", okf, where=w, node=w.node, construct=det, message="the branch must be selected by perform_over_sampling_from(grid=grid, ...)")
    # over-sampled-grid input: func on grid.grid then binned by grid.over_sampler
    gos = [r for r in rets if isinstance(r.value, ast.Call) and isinstance(r.value.func, ast.Attribute) and r.value.func.attr == "binned_array_2d_from"]
    ok = len(gos) == 1 and norm_text(gos[0].value.func.value) == "grid.over_sampler"
    if ok:
        arr = wire.resolve_local(w, wire.kw(gos[0].value).get("array"))   # the result of func, directly or through a local
        ok = isinstance(arr, ast.Call) and norm_text(arr.func) == "func" and len(arr.args) >= 2 and norm_text(arr.args[0]) == "obj" and norm_text(arr.args[1]) == "grid.grid"
    ctx.ob(rule, w.key + ":pre-oversampled", ok, where=w, node=gos[0] if gos else w.node, construct=norm_text(gos[0].value) if gos else "", message="a pre-over-sampled grid must be evaluated on grid.grid and binned by grid.over_sampler, untouched")
    # sub_size == 1 falls through to plain evaluation
    f = m.functions.get("perform_over_sampling_from")
    if f is None:
        raise AnchorMissing("perform_over_sampling_from")
    # decided on the paths of the function, not on how its ifs are nested: it answers True only for a Grid2D with an over-sampling that is not already being performed, and never when the uniform sub-size is 1
    PS = paths.path_summaries(f) or []
    yes = [q for q in PS if q.kind == "return" and q.text == "True"]
    no = [q for q in PS if q.kind == "return" and q.text == "False"]
    need = [("kwargs.get('over_sampling_being_performed')", False), ("isinstance(grid, Grid2D)", True), ("grid.over_sampling is not None", True)]
    ok = bool(yes) and all(all(q.holds(t) is v for t, v in need) for q in yes) and not any(q.holds("grid.over_sampling.sub_size == 1") is True for q in yes) \
        and any(q.holds("grid.over_sampling.sub_size == 1") is True for q in no) and len(yes) + len(no) == len(PS)
    tests = sorted({t for q in PS for t, _ in q.conds})
    ctx.ob(rule, f.key, ok, where=f, node=f.node, construct=f"{len(PS)} paths, {len(yes)} answering True; conditions {tests}"[:300], message="over-sampling must be switched off when the uniform sub-size is 1 (plain evaluation)")


def iterate(ctx, p, K):
    rule = "C09.iterate"
    f = p.func("autoarray.operators.over_sampling.iterate:threshold_mask_via_arrays_jit_from")
    need(f, "fractional_accuracy_threshold", "relative_accuracy_threshold", "threshold_mask", "array_higher_sub_2d", "array_lower_sub_2d", "array_higher_mask")
    S = K.summarize(f, {"fractional_accuracy_threshold": Ref("fractional_accuracy_threshold"), "relative_accuracy_threshold": Ref("relative_accuracy_threshold")})
    sts = S.stores_to("threshold_mask")
    ok = len(sts) == 2 and all(len(s.loops) == 2 and isinstance(s.value, Const) and s.value.v is False for s in sts)
    if not ok:
        ctx.ob(rule, f.key, False, where=f, node=f.node, construct=f"{len(sts)} stores", message="expected one fractional and one absolute-tolerance update of the threshold mask")
        return
    for s in sts:
        y, x = S_(s.loops[0].var), S_(s.loops[1].var)
        full = is_full_range(s.loops[0], [S_("threshold_mask.shape[0]")]) and is_full_range(s.loops[1], [S_("threshold_mask.shape[1]")]) and s.idx == (y, x)
        L, Hh = E_("array_lower_sub_2d", y, x), E_("array_higher_sub_2d", y, x)
        gs = [g for g in real_guards(s.guards) if "is not Const(None)" not in repr(g)]
        opt = [g for g in real_guards(s.guards) if "is not Const(None)" in repr(g)]
        got = sorted(str(norm_cond(g)) for g in gs)
        unm = str(norm_cond(Cond("not", Cond("truth", E_("array_higher_mask", y, x)))))
        frac = Poly.fn("ite", Poly.fn("cmp:<", ZERO, L), Poly.fn("ite", Poly.fn("cmp:<", ONE, L / Hh), Hh / L, L / Hh), ZERO)
        want_f = sorted([unm, str(norm_cond(CMP(frac, "<", S_("fractional_accuracy_threshold"))))])
        want_r = sorted([unm, str(norm_cond(CMP(Poly.fn("abs", L - Hh), ">", S_("relative_accuracy_threshold"))))])
        want_r2 = sorted([unm, str(norm_cond(CMP(Poly.fn("abs", Hh - L), ">", S_("relative_accuracy_threshold"))))])
        kind = "fractional" if "fractional_accuracy_threshold" in repr(opt) or "fractional" in " ".join(got) else "absolute"
        # the test is made exactly when its threshold is set: the guard is the positive `threshold is not None` of the threshold this store compares with
        want_opt = f"({'fractional_accuracy_threshold' if kind == 'fractional' else 'relative_accuracy_threshold'} is not Const(None))"
        good = full and len(opt) == 1 and repr(opt[0]) == want_opt and (got == want_f if kind == "fractional" else got in (want_r, want_r2))
        ctx.ob(rule, f"{f.key}:{kind}", good, where=f, node=s.node, construct="; ".join(got)[:300],
               message=("ratio = lower/higher inverted when > 1, 0 unless lower > 0, flagged when < threshold, unmasked pixels only" if kind == "fractional"
                        else "|lower - higher| flagged when > tolerance, unmasked pixels only"))
    # iterated array: filled where the pixel has just become resolved
    g = p.func("autoarray.operators.over_sampling.iterate:iterated_array_jit_from")
    G = K.summarize(g)
    sts = G.stores_to("iterated_array")
    ok = len(sts) == 1 and len(sts[0].loops) == 2
    if ok:
        y, x = S_(sts[0].loops[0].var), S_(sts[0].loops[1].var)
        got = sorted(str(norm_cond(c)) for c in real_guards(sts[0].guards))
        want = sorted([str(norm_cond(Cond("truth", E_("threshold_mask_higher_sub", y, x)))), str(norm_cond(Cond("not", Cond("truth", E_("threshold_mask_lower_sub", y, x)))))])
        ok = got == want and sts[0].idx == (y, x) and value_poly(sts[0].value) == E_("array_higher_sub_2d", y, x) and sts[0].op == "=" \
            and is_full_range(sts[0].loops[0], [S_("iterated_array.shape[0]")]) and is_full_range(sts[0].loops[1], [S_("iterated_array.shape[1]")])
    ctx.ob(rule, g.key, ok, where=g, node=g.node, construct=repr(sts[0])[:200] if sts else "", message="a pixel receives the higher-level value exactly when it is resolved at this level (masked in the new threshold mask) and was unresolved before")
    # each level: binned value of func on the over-sampled grid of the still-unresolved mask at that sub size
    c = p.cls("autoarray.operators.over_sampling.iterate:OverSamplerIterate")
    m = c.lookup("array_at_sub_size_from")
    if m is None:
        raise AnchorMissing("OverSamplerIterate.array_at_sub_size_from")
    ctor = [n for n in m.body_nodes() if isinstance(n, ast.Assign) and isinstance(n.value, ast.Call) and norm_text(n.value.func) == "OverSamplerUniform"]
    ok = len(ctor) == 1 and {k: norm_text(v) for k, v in wire.kw(ctor[0].value).items()} == {"mask": "mask", "sub_size": "sub_size"}
    ctx.ob(rule, m.key + ":sampler", ok, where=m, node=ctor[0] if ctor else m.node, construct=norm_text(ctor[0].value) if ctor else "", message="each level must use a uniform over-sampler on the given mask at the given sub size")
    if ok:
        nm = ctor[0].targets[0].id
        passthrough(ctx, rule, p, m, grid_expr=f"{nm}.over_sampled_grid", sink="binned_array_2d_from", sink_kw="array") if False else None
        calls = [cc for cc in m.calls() if isinstance(cc.func, ast.Name) and cc.func.id == "func"]
        # name-free (sa/paths.py): the returned value is <sampler>.binned_array_2d_from(array=func(cls, <sampler>.over_sampled_grid, ...)).native with <sampler> the over-sampler built above
        PSl = paths.returns(paths.path_summaries(m) or [])
        rets = wire.returns_of(m)
        good = len(calls) == 1 and len(PSl) == 1
        if good:
            smp = paths.ptext(ctor[0].value)
            v_ = PSl[0].value
            good = isinstance(v_, ast.Attribute) and v_.attr == "native" and isinstance(v_.value, ast.Call) and isinstance(v_.value.func, ast.Attribute) and v_.value.func.attr == "binned_array_2d_from" \
                and paths.ptext(v_.value.func.value) == smp and set(paths.kwargs(v_.value)) == {"array"}
            inner_ = paths.kwargs(v_.value).get("array") if good else None
            good = good and isinstance(inner_, ast.Call) and paths.ptext(inner_.func) == "func" and len(inner_.args) >= 2 and paths.ptext(inner_.args[1]) == f"{smp}.over_sampled_grid"
        ctx.ob(rule, m.key + ":level", good, where=m, node=calls[0] if calls else m.node, construct=norm_text(rets[0].value) if rets else "", message="level value = binned func(over-sampled grid), in native form")


def _accumulates(m, loop, call, name) -> bool:
    """the fill routine receives the running result and its value is bound back to the same local, which starts as zeros of the native shape before the loop"""
    if not (isinstance(name, str) and name.isidentifier()):
        return False
    back = [n for n in ast.walk(loop) if isinstance(n, ast.Assign) and n.value is call and len(n.targets) == 1 and norm_text(n.targets[0]) == name]
    init = [n for n in wire.main_line(m) if isinstance(n, ast.Assign) and norm_text(n.targets[0]) == name and n.lineno < loop.lineno]
    return len(back) == 1 and len(init) == 1 and norm_text(init[0].value).replace(" ", "") in ("np.zeros(self.mask.shape_native)", "np.zeros(shape=self.mask.shape_native)")


def level_advance(ctx, p):
    """the comparison is always with the PREVIOUS level: at the end of each iteration the `lower` array / mask become this iteration's `higher` ones"""
    rule = "C09.iterate"
    m = p.cls("autoarray.operators.over_sampling.iterate:OverSamplerIterate").lookup("array_via_func_from")
    if m is None:
        raise AnchorMissing("OverSamplerIterate.array_via_func_from")
    loops = [n for n in wire.main_line(m) if isinstance(n, ast.For)]
    if len(loops) != 1:
        ctx.ob(rule, m.key + ":levels", None, message=f"expected one loop over the sub-size schedule, found {len(loops)}")
        return
    loop = loops[0]
    ok_sched = norm_text(loop.iter) == "self.sub_steps[:-1]"
    calls = {}
    for n in ast.walk(loop):
        if isinstance(n, ast.Call):
            nm = n.func.attr if isinstance(n.func, ast.Attribute) else (n.func.id if isinstance(n.func, ast.Name) else None)
            if nm in ("threshold_mask_from", "iterated_array_jit_from", "array_at_sub_size_from"):
                calls[nm] = n
    if set(calls) != {"threshold_mask_from", "iterated_array_jit_from", "array_at_sub_size_from"}:
        ctx.ob(rule, m.key + ":levels", None, message=f"level loop no longer calls the three level routines (found {sorted(calls)})")
        return
    k1 = {k: norm_text(wire.strip_np_array(v)) for k, v in wire.kw(calls["threshold_mask_from"]).items()}
    k2 = {k: norm_text(wire.strip_np_array(v)) for k, v in wire.kw(calls["iterated_array_jit_from"]).items()}
    k3 = {k: norm_text(wire.strip_np_array(v)) for k, v in wire.kw(calls["array_at_sub_size_from"]).items()}
    lower_a, higher_a = k1.get("array_lower_sub_2d"), k1.get("array_higher_sub_2d")
    lower_m, higher_m = k2.get("threshold_mask_lower_sub"), k2.get("threshold_mask_higher_sub")
    # top-level (unconditional) assignments of the loop body, in order
    top = [(norm_text(n.targets[0]), norm_text(n.value), n) for n in loop.body if isinstance(n, ast.Assign) and len(n.targets) == 1]
    adv_a = any(t == lower_a and v == higher_a and n.lineno > calls["iterated_array_jit_from"].lineno for t, v, n in top)
    adv_m = any(t == lower_m and v == higher_m and n.lineno > calls["iterated_array_jit_from"].lineno for t, v, n in top)
    ctx.ob(rule, m.key + ":advance-array", adv_a and ok_sched, where=m, node=loop, construct=f"lower={lower_a} higher={higher_a}; loop-body assignments {[(t, v) for t, v, _ in top]}",
           message="after each level the 'previous level' array must be replaced by this level's array (otherwise every level is compared with the first one)")
    ctx.ob(rule, m.key + ":advance-mask", adv_m, where=m, node=loop, construct=f"lower={lower_m} higher={higher_m}",
           message="after each level the unresolved-pixel mask must be replaced by this level's threshold mask")
    # the level is evaluated on the still-unresolved mask with this iteration's sub size; the higher array is that level's result
    src = [v for t, v, n in top if t == higher_a]
    ok = k3.get("mask") == lower_m and k3.get("sub_size") == norm_text(loop.target) and k3.get("func") == "func" and len(src) == 1 and "array_at_sub_size_from" in src[0] \
        and k2.get("array_higher_sub_2d") == higher_a and _accumulates(m, loop, calls["iterated_array_jit_from"], k2.get("iterated_array"))
    ctx.ob(rule, m.key + ":level-inputs", ok, where=m, node=calls["array_at_sub_size_from"], construct=f"array_at_sub_size_from{k3}; iterated_array_jit_from{k2}",
           message="each level must be evaluated on the still-unresolved mask at this iteration's sub size and its array used both for the threshold test and the fill")
    # the first 'previous level' is the plain evaluation on the unmasked grid; the last level fills the remainder
    first = [(t, v) for t, v, n in [(norm_text(n.targets[0]), norm_text(wire.inline_locals(m, n.value)), n) for n in wire.main_line(m) if isinstance(n, ast.Assign) and len(n.targets) == 1] if t == lower_a]   # (read through a renaming alias)
    okf = len(first) >= 1 and any(t_ in first[0][1] for t_ in ("func(obj, unmasked_grid", "func(obj, self.mask.derive_grid.unmasked"))   # (possibly already wrapped: Array2D(values=func(..), mask=self.mask).native)
    tail = [n for n in wire.main_line(m) if isinstance(n, ast.Assign) and n.lineno > loop.end_lineno and isinstance(n.value, ast.Call) and norm_text(n.value.func).endswith("array_at_sub_size_from")]
    okl = len(tail) == 1 and norm_text(wire.kw(tail[0].value).get("sub_size")) == "self.sub_steps[-1]" and norm_text(wire.kw(tail[0].value).get("mask")) == lower_m
    # what is returned: the pixels resolved at the earlier levels plus the last level's values for the rest (the two are disjoint: each is zero where the other is set)
    def block_of(stmts):
        if any(x is loop for x in stmts):
            return stmts
        for st in stmts:
            for fld in ("body", "orelse", "finalbody"):
                sub = getattr(st, fld, None)
                if isinstance(sub, list) and sub and isinstance(sub[0], ast.stmt):
                    r_ = block_of(sub)
                    if r_ is not None:
                        return r_
        return None
    blk = block_of(m.node.body) or []
    rets = [r for k_, r in enumerate(blk) if isinstance(r, ast.Return) and k_ > [i_ for i_, x in enumerate(blk) if x is loop][0]]   # (the return that follows the level loop; the exits inside the loop return the accumulated array once nothing is left unresolved)
    okr = False
    detr = ""
    if len(rets) == 1 and tail and isinstance(rets[0].value, ast.Call):
        bk = wire.kw(rets[0].value, (p.resolve_call(rets[0].value, m) or [None])[0])
        vals = bk.get("values")
        vv = wire.inline_locals(m, vals) if vals is not None else None
        detr = norm_text(vv)[:100] if vv is not None else ""
        tail_name = norm_text(tail[0].targets[0])
        acc = k2.get("iterated_array")
        okr = isinstance(vv, ast.BinOp) and isinstance(vv.op, ast.Add) and {norm_text(wire.strip_np_array(vv.left)), norm_text(wire.strip_np_array(vv.right))} == {acc, tail_name} \
            and norm_text(bk.get("mask")) == "self.mask"
    ctx.ob(rule, m.key + ":result", okr, where=m, node=rets[0] if rets else m.node, construct=detr,
           message="the result must be the array accumulated over the levels PLUS the last level's evaluation of the still-unresolved pixels, on the sampler's mask")
    # exits inside the level loop: the accumulated array may be returned early only once nothing is left unresolved (this level's threshold mask is all true), or from
    # the ZeroDivisionError handler of the level; any other test hands back zeros for the pixels that are still unresolved
    inloop = [r for st in loop.body for r in ast.walk(st) if isinstance(r, ast.Return)]
    handlers = [h for st in loop.body for h in ast.walk(st) if isinstance(h, ast.ExceptHandler)]
    okx, detx = True, []
    for r in inloop:
        if any(r is sub for h in handlers for sub in ast.walk(h)):
            continue
        pcs = [c_ for c_ in wire.path_conds(m, r, inline=True)]
        own = [(norm_text(i_.test), t_) for i_, t_ in wire.enclosing_branches(m, r) if any(i_ is sub for st in loop.body for sub in ast.walk(st))]
        detx.append(f"return {norm_text(r.value)[:50]} under {own}")
        acc_ = k2.get("iterated_array")
        val_ok = isinstance(r.value, ast.Call) and norm_text(wire.strip_np_array(wire.kw(r.value, (p.resolve_call(r.value, m) or [None])[0]).get("values"))) == acc_
        cond_ok = any(wire.cond_holds(pcs, f"{higher_m}.is_all_true") or wire.cond_holds(wire.path_conds(m, r), f"{higher_m}.is_all_true") for _ in (0,)) and len(own) == 1
        okx = okx and val_ok and cond_ok
    ctx.ob(rule, m.key + ":loop-exit", okx, where=m, node=inloop[0] if inloop else loop, construct="; ".join(detx)[:240] or "no exit inside the loop",
           message="inside the level loop the accumulated array may be returned only when this level's threshold mask is all true (nothing left to refine)")
    # the only exit before the schedule: an evaluation that is zero everywhere needs no refinement (and would divide by zero in the threshold test)
    early = [r for r in wire.returns_of(m) if r.lineno < loop.lineno]
    oke = True
    dete = []
    for r in early:
        pcs = wire.path_conds(m, r, inline=True)
        dete.append(f"return {norm_text(r.value)[:40]} under {pcs}")
        bases = ([lower_a] if lower_a else []) + [v_ for _, v_ in first]   # the first-level evaluation under its own name, or with temporaries / renaming aliases read through
        rv = norm_text(wire.inline_locals(m, wire.strip_np_array(r.value)))
        rv0 = norm_text(wire.strip_np_array(r.value))
        oke = oke and len(pcs) == 1 and any((rv in (B_, f"{B_}.slim") or rv0 in (B_, f"{B_}.slim")) and any(wire.cond_holds(pcs, t_) or wire.cond_holds(wire.path_conds(m, r), t_)
                                                                                                            for t_ in (f"not np.any({B_})", f"not {B_}.any()", f"np.all({B_} == 0)")) for B_ in bases)
    ctx.ob(rule, m.key + ":early-exit", oke, where=m, node=early[0] if early else m.node, construct="; ".join(dete)[:200] or "no early exit",
           message="before the schedule the first evaluation may be returned as it is only when it is zero everywhere (`not np.any(..)`): any other test returns an unrefined array")
    ctx.ob(rule, m.key + ":first-last", bool(okf) and okl, where=m, node=tail[0] if tail else m.node, construct=f"first {first[:2]}; last {norm_text(tail[0].value)[:120] if tail else None}",
           message="the schedule must start from the sub-size-1 evaluation and end by filling the still-unresolved pixels at the last sub size")


_O = "autoarray/operators/over_sampling/over_sample_util.py"
_U = "autoarray/operators/over_sampling/uniform.py"
_I = "autoarray/operators/over_sampling/iterate.py"
CONTROLS = [
    Control("iterative scheme: last level's values not added to the result (found by mutation fuzzing)", "autoarray/operators/over_sampling/iterate.py", in_func("OverSamplerIterate.array_via_func_from", "        iterated_array_2d = iterated_array + array_higher_sub\n", "        iterated_array_2d = iterated_array\n"), "C09.iterate"),
    Control("iterative scheme: early exit taken when the first evaluation is NOT all zero (found by mutation fuzzing)", "autoarray/operators/over_sampling/iterate.py", in_func("OverSamplerIterate.array_via_func_from", "        if not np.any(array_sub_1):", "        if np.any(array_sub_1):"), "C09.iterate"),
    Control("sub-pixel x centres offset by a full step", _O, in_func("grid_2d_slim_over_sampled_via_mask_from", "x_scaled - x_sub_half + x1 * x_sub_step + (x_sub_step / 2.0)", "x_scaled - x_sub_half + x1 * x_sub_step + x_sub_step"), "C09.payload"),
    Control("y sub-step from x pixel scale", _O, in_func("grid_2d_slim_over_sampled_via_mask_from", "y_sub_step = pixel_scales[0] / (sub)", "y_sub_step = pixel_scales[1] / (sub)"), "C09.payload"),
    Control("x1 outer, y1 inner", _O, in_func("grid_2d_slim_over_sampled_via_mask_from", "for y1 in range(sub):\n                    for x1 in range(sub):", "for x1 in range(sub):\n                    for y1 in range(sub):"), "C09.payload"),
    Control("binning divides by sub not sub^2", _O, in_func("binned_array_2d_from", "sub_fraction = 1.0 / sub_size**2", "sub_fraction = 1.0 / sub_size"), "C09.payload"),
    Control("binning uses sub size of next pixel", _O, in_func("binned_array_2d_from", "                index += 1\n", "", count=1) if False else in_func("binned_array_2d_from", "sub = sub_size[index]", "sub = sub_size[index - 1]"), None),
    Control("slim index table increments slim inside sub loop", _O, in_func("slim_index_for_sub_slim_index_via_mask_2d_from", "                        sub_slim_index += 1\n\n                slim_index += 1", "                        sub_slim_index += 1\n                        slim_index += 1"), "C09.traversal"),
    Control("over_sampled_grid drops origin", _U, in_func("OverSamplerUniform.over_sampled_grid", "            origin=self.mask.origin,\n", ""), "C09.wiring"),
    Control("level loop left as soon as something is still unresolved", _I, in_func("OverSamplerIterate.array_via_func_from", "if threshold_mask_higher_sub.is_all_true:", "if not threshold_mask_higher_sub.is_all_true:"), "C09.iterate"),
    Control("fractional test made only when no threshold is set", _I, in_func("threshold_mask_via_arrays_jit_from", "if fractional_accuracy_threshold is not None:", "if fractional_accuracy_threshold is None:"), "C09.iterate"),
    Control("fractional test uses >", _I, in_func("threshold_mask_via_arrays_jit_from", "if fractional_accuracy < fractional_accuracy_threshold:", "if fractional_accuracy > fractional_accuracy_threshold:"), "C09.iterate"),
    Control("ratio not inverted", _I, in_func("threshold_mask_via_arrays_jit_from", "                        if fractional_accuracy > 1.0:\n                            fractional_accuracy = 1.0 / fractional_accuracy\n", ""), "C09.iterate"),
    Control("previous level never advanced (seed C09/1)", _I, in_func("OverSamplerIterate.array_via_func_from", "            array_sub_1 = array_higher_sub\n", "            array_lower_sub = array_higher_sub\n"), "C09.iterate"),
    Control("last level on the full mask", _I, in_func("OverSamplerIterate.array_via_func_from", "            mask=threshold_mask_lower_sub,\n            sub_size=self.sub_steps[-1],", "            mask=self.mask,\n            sub_size=self.sub_steps[-1],"), "C09.iterate"),
    Control("decorator squares the result before binning", "autoarray/operators/over_sampling/decorator.py", in_func("over_sample", "return grid.over_sampler.binned_array_2d_from(array=result)", "return grid.over_sampler.binned_array_2d_from(array=result * 1.0001)"), "C09.decorator"),
    Control("twin: sub-step written as product", _O, in_func("grid_2d_slim_over_sampled_via_mask_from", "y_sub_step = pixel_scales[0] / (sub)", "y_sub_step = (1.0 / sub) * pixel_scales[0]"), None, twin=True),
]
