"""C19 - layout regions rotate and extract consistently with the arrays they index (DESIGN.md section 4, C19)."""
from __future__ import annotations

import ast
import itertools
from typing import Dict, List, Optional, Tuple

from ..keval import KEval, Ref, Cond, Const, Top, Ctor, SelfObj, SLICE, KUnbound
from ..poly import Poly, ZERO, ONE
from ..forms import real_guards, short, norm_cond, CMP
from .. import wire
from ..model import norm_text, AnchorMissing
from ..controls import Control
from ..mutate import in_func

S_ = Poly.sym
LU = "autoarray.layout.layout_util"
RG = "autoarray.layout.region"
REV = Poly.fn("slice", S_("None"), S_("None"), Poly.const(-1))
CORNERS = ((1, 0), (0, 0), (1, 1), (0, 1))


def flipped_axes(v) -> Optional[frozenset]:
    """axes reversed (`::-1`) between the input array A and the returned value, following copies of views"""
    axes = set()
    seen = 0
    while isinstance(v, Ref) and seen < 6:
        seen += 1
        for k, x in enumerate(v.idx):
            if x == REV:
                axes ^= {k}
            elif x != SLICE:
                return None
        init = getattr(v, "init", None)
        if v.name == "A" and not v.local:
            return frozenset(axes)
        if init is not None and init[0] == "copy" and isinstance(init[1], Ref):
            v = init[1]
        else:
            return None
    return None


def rotation_rule(ctx, p, K):
    rule = "C19.rotation"
    fa = p.func(f"{LU}:rotate_array_via_roe_corner_from")
    fr = p.func(f"{LU}:rotate_region_via_roe_corner_from")
    y0, y1, x0, x1, H, W = (S_(n) for n in ("y0", "y1", "x0", "x1", "H", "W"))
    for corner in CORNERS:
        rc = (Poly.const(corner[0]), Poly.const(corner[1]))
        Sa = K.summarize(fa, dict(array=Ref("A"), roe_corner=rc))
        Sr = K.summarize(fr, dict(region=(y0, y1, x0, x1), shape_native=(H, W), roe_corner=rc))
        ax = flipped_axes(Sa.ret)
        ctx.ob(rule, f"{fa.key}:{corner}", ax is not None, where=fa, node=fa.node, construct=repr(Sa.ret)[:160], message=f"for read-out corner {corner} the array must be returned as the input with some axes reversed (nothing else)")
        reg = Sr.ret
        ok = isinstance(reg, Ctor) and reg.cls_name == "Region2D" and isinstance(reg.args.get("region"), tuple) and len(reg.args["region"]) == 4
        ctx.ob(rule, f"{fr.key}:{corner}", ok, where=fr, node=fr.node, construct=repr(reg)[:160], message=f"for read-out corner {corner} a Region2D built from the four reflected / copied indices must be returned")
        if ax is None or not ok:
            continue
        r = reg.args["region"]
        want = ((H - y1, H - y0) if 0 in ax else (y0, y1)) + ((W - x1, W - x0) if 1 in ax else (x0, x1))
        ctx.ob(rule, f"corner {corner}:agreement", tuple(r) == want, where=fr, node=fr.node, construct=f"array axes reversed {sorted(ax)}; region {tuple(map(repr, r))}",
               message=f"the region index pair of an axis must be reflected as (shape[a] - hi, shape[a] - lo) exactly for the axes the array is flipped on; expected {tuple(map(repr, want))}")
    # all four corners distinct and covering {none, y, x, both}; the same flip applied twice restores (reversal is an involution per axis)
    sets = []
    for corner in CORNERS:
        Sa = K.summarize(fa, dict(array=Ref("A"), roe_corner=(Poly.const(corner[0]), Poly.const(corner[1]))))
        sets.append(flipped_axes(Sa.ret))
    ctx.ob(rule, "corners:coverage", None not in sets and sorted(map(sorted, sets)) == [[], [0], [0, 1], [1]], where=fa, node=fa.node, construct=str([sorted(s) if s is not None else None for s in sets]),
           message="the four read-out corners must map to the four flip combinations {}, {0}, {1}, {0, 1}")
    # None region passes through
    Sn = K.summarize(fr, dict(region=Const(None), shape_native=(H, W), roe_corner=(ONE, ZERO)))
    ctx.ob(rule, f"{fr.key}:none", isinstance(Sn.ret, Const) and Sn.ret.v is None, where=fr, node=fr.node, construct=repr(Sn.ret), message="an absent region stays absent")
    # Layout2D wiring
    c = p.cls("autoarray.layout.layout:Layout2D")
    for meth, shape_txt, reg_prefix in (("rotated_from_roe_corner", "shape_native", ""), ("new_rotated_from", "self.shape_2d", "self.")):
        m = c.lookup(meth)
        if m is None:
            raise AnchorMissing(f"Layout2D.{meth}")
        cs = wire.calls_to(p, m, fr.key)
        got = sorted((norm_text(wire.kw(cc, fr).get("region")), norm_text(wire.kw(cc, fr).get("shape_native")), norm_text(wire.kw(cc, fr).get("roe_corner"))) for cc in cs)
        want = sorted((reg_prefix + r, shape_txt, "roe_corner") for r in ("parallel_overscan", "serial_prescan", "serial_overscan"))
        ctx.ob(rule, m.key, got == want, where=m, node=m.node, construct=str(got), message="each of the three regions must be rotated with the layout's shape and the requested corner")
        rets = wire.returns_of(m)
        kwn = wire.kw(rets[0].value) if rets and isinstance(rets[0].value, ast.Call) else {}
        kwv = {k: norm_text(v) for k, v in kwn.items()}
        # each slot holds the rotation of the region of the same name (directly or through a local bound once)
        slots_ok = True
        for r in ("parallel_overscan", "serial_prescan", "serial_overscan"):
            v = wire.resolve_local(m, kwn[r]) if r in kwn else None
            slots_ok = slots_ok and v in cs and norm_text(wire.kw(v, fr).get("region")) == reg_prefix + r
            kwv[r] = "rotated " + r if slots_ok else kwv.get(r)
        ctx.ob(rule, m.key + ":result", slots_ok and kwv == {"original_roe_corner": "roe_corner", "shape_2d": shape_txt, "parallel_overscan": "rotated parallel_overscan", "serial_prescan": "rotated serial_prescan", "serial_overscan": "rotated serial_overscan"},
               where=m, node=rets[0] if rets else m.node, construct=str(kwv), message="the rotated layout must carry each rotated region in its own slot, the corner and the shape")
    m = c.lookup("original_orientation_from")
    cs = wire.calls_to(p, m, fa.key)
    got = {k: norm_text(v) for k, v in wire.kw(cs[0], fa).items()} if len(cs) == 1 else {}
    ctx.ob(rule, m.key, got == {"array": "array", "roe_corner": "self.original_roe_corner"}, where=m, node=m.node, construct=str(got), message="arrays are rotated with the layout's own original read-out corner")


def subregion_rule(ctx, p, K):
    rule = "C19.sub-region"
    a0, a1, b0, b1, p0, p1, E = (S_(n) for n in ("a0", "a1", "b0", "b1", "p0", "p1", "E"))
    H, W = S_("H"), S_("W")
    c2 = p.cls(f"{RG}:Region2D")
    so2 = lambda: SelfObj(c2, {"region": (a0, a1, b0, b1)}, K)
    P = (p0, p1)
    spec2 = [
        ("parallel_front_region_from", dict(pixels=P, pixels_from_end=Const(None)), (a0 + p0, a0 + p1, b0, b1), "rows counted from the front (lower) edge, columns copied"),
        ("parallel_front_region_from", dict(pixels=Const(None), pixels_from_end=E), (a1 - E, a1, b0, b1), "the last E rows of the region, columns copied"),
        ("parallel_trailing_region_from", dict(pixels=P), (a1 + p0, a1 + p1, b0, b1), "rows counted from the trailing (upper) edge, columns copied"),
        ("serial_front_region_from", dict(pixels=P, pixels_from_end=Const(None)), (a0, a1, b0 + p0, b0 + p1), "columns counted from the front (lower) edge, rows copied"),
        ("serial_front_region_from", dict(pixels=Const(None), pixels_from_end=E), (a0, a1, b1 - E, b1), "the last E columns of the region, rows copied"),
        ("serial_trailing_region_from", dict(pixels=P), (a0, a1, b1 + p0, b1 + p1), "columns counted from the trailing (upper) edge, rows copied"),
        ("parallel_full_region_from", dict(shape_2d=(H, W)), (a0, a1, ZERO, W), "the region's rows across all columns"),
        ("serial_towards_roe_full_region_from", dict(shape_2d=(H, W), pixels=P), (ZERO, H, b0 + p0, b0 + p1), "front columns across all rows"),
    ]
    for meth, args, want, what in spec2:
        m = c2.lookup(meth)
        if m is None:
            raise AnchorMissing(f"Region2D.{meth}")
        S = K.summarize(m, dict(self=so2(), **args))
        r = S.ret
        got = r.args.get("region") if isinstance(r, Ctor) and r.cls_name == "Region2D" else None
        mode = "from-end" if isinstance(args.get("pixels"), Const) else "pixels"
        ctx.ob(rule, f"{c2.key}.{meth}:{mode}", got == want, where=m, node=m.node, construct=repr(r)[:200], message=f"{what}: expected Region2D{tuple(map(repr, want))}")
    props = {"total_rows": a1 - a0, "total_columns": b1 - b0, "y0": a0, "y1": a1, "x0": b0, "x1": b1, "shape": (a1 - a0, b1 - b0)}
    for name, want in props.items():
        v = so2().attr(name, 0)
        ctx.ob(rule, f"{c2.key}.{name}", v == want, where=c2.lookup(name), node=None, construct=repr(v), message=f"expected {want!r}")
    sl = so2().attr("slice", 0)
    want_sl = f"np.s_[slice(a0, a1, None), slice(b0, b1, None)]"
    ctx.ob(rule, f"{c2.key}.slice", isinstance(sl, Ref) and sl.name == "np.s_" and repr(sl) == f"Ref({want_sl})", where=c2.lookup("slice"), node=None, construct=repr(sl), message="the slice must be [y0:y1, x0:x1]")
    c1 = p.cls(f"{RG}:Region1D")
    so1 = lambda: SelfObj(c1, {"region": (b0, b1)}, K)
    for meth, args, want in (("front_region_from", dict(pixels=P, pixels_from_end=Const(None)), (b0 + p0, b0 + p1)), ("front_region_from", dict(pixels=Const(None), pixels_from_end=E), (b1 - E, b1)),
                             ("trailing_region_from", dict(pixels=P), (b1 + p0, b1 + p1))):
        m = c1.lookup(meth)
        if m is None:
            raise AnchorMissing(f"Region1D.{meth}")
        S = K.summarize(m, dict(self=so1(), **args))
        r = S.ret
        got = list(r.args.values())[0] if isinstance(r, Ctor) and r.cls_name == "Region1D" and r.args else None
        mode = "from-end" if isinstance(args.get("pixels"), Const) else "pixels"
        ctx.ob(rule, f"{c1.key}.{meth}:{mode}", got == want, where=m, node=m.node, construct=repr(r)[:160], message=f"expected Region1D{tuple(map(repr, want))}")


def validity_rule(ctx, p, K):
    rule = "C19.validity"
    for ck, n in ((f"{RG}:Region1D", 2), (f"{RG}:Region2D", 4)):
        c = p.cls(ck)
        m = c.methods.get("__init__")
        if m is None:
            raise AnchorMissing(f"{ck}.__init__")
        r = tuple(S_(f"r{k}") for k in range(n))
        S = K.summarize(m, dict(region=r))
        conds = []
        for name, g, node in S.raises:
            if name.split(".")[-1] == "RegionException":
                gg = [c_ for c_ in g if not getattr(c_, "path", None)]
                for c_ in gg:
                    conds.extend(c_.args if c_.kind == "or" else [c_])
        got = {str(norm_cond(c_)) for c_ in conds}
        want = {str(norm_cond(CMP(x, "<", ZERO))) for x in r} | {str(norm_cond(CMP(r[2 * a], ">=", r[2 * a + 1]))) for a in range(n // 2)}
        ctx.ob(rule, m.key, want <= got, where=m, node=m.node, construct=str(sorted(got))[:300], message=f"the constructor must reject any negative component and lo >= hi on every axis; missing tests: {sorted(want - got)}")
        # the raises dominate the assignment of the region
        sup = [s for s in S.stores if s.arr.endswith(".region")] + [c_ for c_ in S.calls if c_[0].endswith("AbstractRegion.__init__")]
        ctx.ob(rule, m.key + ":dominates", len(S.raises) >= (2 if n == 2 else 3), where=m, node=m.node, construct=f"{len(S.raises)} raise sites", message="one rejection per kind of invalid extent")


# ------------------------------------------------------------------------------------------------------------------
def weak_orderings(names: List[str]):
    """every weak ordering (ties allowed) of the names, as a rank assignment"""
    seen = set()
    n = len(names)
    for ranks in itertools.product(range(n), repeat=n):
        # canonical: ranks used are 0..k-1 without gaps
        used = sorted(set(ranks))
        if used != list(range(len(used))):
            continue
        if ranks in seen:
            continue
        seen.add(ranks)
        yield dict(zip(names, ranks))


def extraction_rule(ctx, p, K0):
    """x0x1_after_extraction decided exhaustively over the finite domain of orderings of its four inputs:
    every comparison in the function is between differences of two inputs, so its outcome - and the whole path - is a function of the
    weak ordering alone; the abstract evaluator follows the one feasible path per ordering and the symbolic result is compared with
    the interval-clipping definition (overlap of [x0o, x1o) with [x0e, x1e), shifted by -x0e; absent when empty)."""
    rule = "C19.extraction"
    f = p.func(f"{LU}:x0x1_after_extraction")
    names = ["x0o", "x1o", "x0e", "x1e"]
    for n in names:
        if n not in f.all_params:
            raise AnchorMissing(f"{f.key}: parameter {n}")
    atoms = {n: S_(n) for n in names}
    total = undecided = bad = 0
    first_bad = None
    K = KEval(ctx.p)
    K.model_unbound = True
    state = {"rank": None, "undecided": False}

    def oracle(a, op, b):
        d = a - b
        # d must be an integer combination of the inputs with coefficients summing to zero and of the form (x_i - x_j) or a constant
        val = d.subst(lambda at: Poly.const(state["rank"][at[1]]) if (at[0] == "s" and at[1] in state["rank"]) else None)
        c = val.const_value()
        pos = [at for at in d.atoms()]
        lin = all(len(k) <= 1 and all(e == 1 for _, e in k) for k in d.t)
        coeffs = sorted(v for k, v in d.t.items() if k)
        order_determined = lin and (coeffs in ([], [-1, 1]))  # constant, or x_i - x_j
        if c is None or not order_determined:
            state["undecided"] = True
            return None
        return {"==": c == 0, "!=": c != 0, "<": c < 0, "<=": c <= 0, ">": c > 0, ">=": c >= 0}[op]
    K.cmp_oracle = oracle
    samples = []
    for rank in weak_orderings(names):
        if not (rank["x0o"] < rank["x1o"] and rank["x0e"] < rank["x1e"]):
            continue  # valid regions / windows only (Region constructors reject the rest)
        total += 1
        state["rank"], state["undecided"] = rank, False
        try:
            S = K.summarize(f, dict(atoms))
            got = S.ret
        except KUnbound as e:
            got = ("unbound", str(e))
        lo_name = "x0o" if rank["x0o"] >= rank["x0e"] else "x0e"
        hi_name = "x1o" if rank["x1o"] <= rank["x1e"] else "x1e"
        empty = rank[lo_name] >= rank[hi_name]
        want = (Const(None), Const(None)) if empty else (atoms[lo_name] - atoms["x0e"], atoms[hi_name] - atoms["x0e"])
        # ties: max / min may be realised by either name; compare under the ordering (equal ranks => equal values)
        ok = False
        if isinstance(got, tuple) and len(got) == 2:
            if empty:
                ok = all(isinstance(g, Const) and g.v is None for g in got)
            else:
                ok = all(isinstance(g, Poly) for g in got)
                if ok:
                    for g, w in zip(got, want):
                        d = (g - w).subst(lambda at: Poly.const(rank[at[1]]) if (at[0] == "s" and at[1] in rank) else None)
                        # equal as forms up to the ties of this ordering: the difference must vanish identically once tied inputs are identified
                        rep = {}
                        for nm in names:
                            rep.setdefault(rank[nm], nm)
                        ident = (g - w).subst(lambda at: S_(rep[rank[at[1]]]) if (at[0] == "s" and at[1] in rank) else None)
                        ok = ok and ident == ZERO
        if state["undecided"]:
            undecided += 1
        if not ok:
            bad += 1
            if first_bad is None:
                first_bad = (dict(rank), repr(got), repr(want))
        if len(samples) < 4:
            samples.append({"ordering": dict(rank), "result": repr(got), "expected": repr(want)})
    ctx.stats["C19.extraction.orderings"] = total
    ctx.ob(rule, f.key + ":order-determined", undecided == 0, where=f, node=f.node, construct=f"{undecided} of {total} orderings hit a comparison that is not a difference of two inputs",
           message="a comparison in the interval clipping is no longer determined by the ordering of the four inputs; the exhaustive argument does not apply", detail=samples)
    ctx.ob(rule, f.key + ":clipping", bad == 0 and total == 13, where=f, node=f.node, construct=f"{bad} of {total} orderings disagree; first: {first_bad}",
           message="for some ordering of (x0o, x1o, x0e, x1e) the returned interval is not the overlap of the region with the window shifted into window coordinates (or is not absent when they do not overlap)",
           detail={"orderings_enumerated": total, "samples": samples})
    # 2-D wiring: rows use indices (0, 1) of both regions, columns (2, 3)
    g = p.func(f"{LU}:region_after_extraction")
    cs = wire.calls_to(p, g, f.key)
    got = []
    for c in cs:
        b = {k: norm_text(v) for k, v in wire.kw(c, f).items()}
        tgt = [norm_text(n.targets[0]) for n in g.body_nodes() if isinstance(n, ast.Assign) and n.value is c]
        got.append((tgt[0] if tgt else None, b))
    want = [{"x0o": "original_region[0]", "x1o": "original_region[1]", "x0e": "extraction_region[0]", "x1e": "extraction_region[1]"},
            {"x0o": "original_region[2]", "x1o": "original_region[3]", "x0e": "extraction_region[2]", "x1e": "extraction_region[3]"}]
    # the two clipped pairs are whatever locals they are unpacked into; the region is built from them in the order (rows lo, rows hi, columns lo, columns hi)
    pair_names = [tg.strip("()").replace(" ", "").split(",") if tg else [] for tg, _ in got]
    ctx.ob(rule, g.key, [b_ for _, b_ in got] == want and all(len(pn) == 2 for pn in pair_names), where=g, node=cs[0] if cs else g.node, construct=str(got)[:400], message="rows must be clipped with components (0, 1) of BOTH regions and columns with components (2, 3) of both")
    rets = [r for r in wire.returns_of(g) if isinstance(r.value, ast.Call)]
    flat = [n_ for pn in pair_names for n_ in pn]
    ok = len(rets) == 1 and len(flat) == 4 and norm_text(rets[0].value.args[0] if rets[0].value.args else wire.kw(rets[0].value).get("region")).replace(" ", "") == "(" + ",".join(flat) + ")"
    none_ret = [r for r in wire.returns_of(g) if norm_text(r.value) == "None"]
    tests = [t_ for r in none_ret for t_, truth in wire.path_conds(g, r) if truth]
    # the clipping routine answers (None, None) or a pair (decided above, ordering by ordering): an axis is absent iff either of its two components is None,
    # so the absence test must look at >= 1 component of the row pair and >= 1 of the column pair, and at nothing else
    import re as _re
    looked = set()
    tests = [part.strip() for t_ in tests for part in (t_.split(" or ") if " and " not in t_ else [t_])]   # a disjunction that holds: any of its parts makes the region absent
    for t_ in tests:
        m_ = _re.fullmatch(r"None in [\[(](.*)[\])]", t_)
        if m_:
            looked |= {x.strip() for x in m_.group(1).split(",")}
        m_ = _re.fullmatch(r"(\w+) is None", t_)
        if m_ and m_.group(1) != "original_region":
            looked.add(m_.group(1))
    pairs = [set(tg.strip("()").replace(" ", "").split(",")) for tg, _ in got if tg]
    covers = len(pairs) == 2 and all(looked & pr for pr in pairs) and looked <= set().union(*pairs) and bad == 0 and total == 13
    ctx.ob(rule, g.key + ":result", ok and covers and "original_region is None" in tests, where=g, node=g.node, construct=str(tests), message="the result is Region2D((y0, y1, x0, x1)), absent when either axis has no overlap or the region was absent")
    # layout level: every region of the layout is clipped by the same window
    c = p.cls("autoarray.layout.layout:Layout2D").lookup("layout_extracted_from")
    cs = wire.calls_to(p, c, g.key)
    got = sorted((norm_text(wire.kw(cc, g).get("original_region")), norm_text(wire.kw(cc, g).get("extraction_region"))) for cc in cs)
    ctx.ob(rule, c.key, got == sorted((f"self.{r}", "extraction_region") for r in ("parallel_overscan", "serial_prescan", "serial_overscan")), where=c, node=c.node, construct=str(got), message="each region of the layout must be clipped by the extraction window")


def run(ctx):
    p = ctx.p
    K = KEval(p)
    ctx.rule("C19.rotation", "per read-out corner, the axes the array is reversed on equal the axes whose region index pair is reflected, and a reflection is exactly (shape[a] - hi, shape[a] - lo); the four corners cover the four flip combinations")
    ctx.rule("C19.sub-region", "front / trailing sub-regions (parallel, serial, 1-D): canonical forms of the returned extents - front offsets from the lower edge, trailing from the upper edge, from-end mode = the last E rows / columns, other axis copied")
    ctx.rule("C19.validity", "Region1D / Region2D reject any negative component and lo >= hi on every axis")
    ctx.rule("C19.extraction", "interval clipping decided exhaustively over all weak orderings of its four inputs (finite order domain): result = overlap shifted into window coordinates, absent when empty; 2-D wiring uses (0,1) for rows and (2,3) for columns of both regions")
    rotation_rule(ctx, p, K)
    subregion_rule(ctx, p, K)
    validity_rule(ctx, p, K)
    extraction_rule(ctx, p, K)


_L = "autoarray/layout/layout_util.py"
_R = "autoarray/layout/region.py"
CONTROLS = [
    Control("corner (0,0) flips the column axis of the array", _L, in_func("rotate_array_via_roe_corner_from", "    elif roe_corner == (0, 0):\n        return array[::-1, :].copy()", "    elif roe_corner == (0, 0):\n        return array[:, ::-1].copy()"), "C19.rotation"),
    Control("region reflection forgets to swap lo / hi", _L, in_func("rotate_region_via_roe_corner_from", "                shape_native[1] - region[3],\n                shape_native[1] - region[2],\n            )\n        )\n    elif roe_corner == (0, 1):", "                shape_native[1] - region[2],\n                shape_native[1] - region[3],\n            )\n        )\n    elif roe_corner == (0, 1):"), "C19.rotation"),
    Control("reflection uses the other axis' extent", _L, in_func("rotate_region_via_roe_corner_from", "    elif roe_corner == (0, 0):\n        return aa.Region2D(\n            region=(\n                shape_native[0] - region[1],\n                shape_native[0] - region[0],", "    elif roe_corner == (0, 0):\n        return aa.Region2D(\n            region=(\n                shape_native[1] - region[1],\n                shape_native[1] - region[0],"), "C19.rotation"),
    Control("column clipping uses the window's row start (seed C19/1)", _L, in_func("region_after_extraction", "x0e=extraction_region[2],", "x0e=extraction_region[0],"), "C19.extraction"),
    Control("serial from-end uses total_rows (seed C19/2)", _R, in_func("Region2D.serial_front_region_from", "pixels = (self.total_columns - pixels_from_end, self.total_columns)", "pixels = (self.total_rows - pixels_from_end, self.total_rows)"), "C19.sub-region"),
    Control("parallel trailing measured from the lower edge", _R, in_func("Region2D.parallel_trailing_region_from", "y_coord = self.y1", "y_coord = self.y0"), "C19.sub-region"),
    Control("Region2D accepts empty column extent", _R, in_func("Region2D.__init__", "if region[2] >= region[3]:", "if region[2] > region[3]:"), "C19.validity"),
    Control("clipping: upper end not shifted into window coordinates", _L, in_func("x0x1_after_extraction", "    elif x1e > x1o:\n        x1 = x1o - x0e", "    elif x1e > x1o:\n        x1 = x1o"), "C19.extraction"),
    Control("clipping: window starting before the region gives 0", _L, in_func("x0x1_after_extraction", "    elif x0e <= x0o:\n        x0 = x0o - x0e", "    elif x0e <= x0o:\n        x0 = 0"), "C19.extraction"),
    Control("twin: clipping rewritten with max / min free of branches on the lower end", _L, in_func("x0x1_after_extraction", "    if x0e >= x0o and x0e <= x1o:\n        x0 = 0\n    elif x0e <= x0o:\n        x0 = x0o - x0e\n    elif x0e >= x0o:\n        x0 = 0", "    if x0e <= x0o:\n        x0 = x0o - x0e\n    else:\n        x0 = 0"), None, twin=True),
]
