"""C05 - the reconstruction is the true (non-negative) least-squares optimum (DESIGN.md section 4, C05).

What static analysis can decide here is partial correctness of the solver *plumbing* and the inductive invariants of the active-set loop, not convergence or floating point:
    C05.solve   both solver entry points receive (F+H, D) in that order, are wrapped so that LinAlgError / RuntimeError / ValueError become InversionException,
                and `reconstruction` dispatches on settings.use_positive_only_solver with the inversion's own data vector / curvature_reg_matrix / settings
    C05.reduce  forced-zero parameters: one boolean selector removes them from D and from both axes of F+H, the solver result is scattered back through the same
                selector onto zeros; per-mapper pixel indices are shifted by the mapper's first parameter index before they are used as global indices
    C05.data    per-object model data = (blurred) mapping matrix x that object's slice of s (canonical form of both kernels; slices advance by params of every
                object in list order); total = sum of the per-object values
    C05.state   fnnls_cholesky as a finite typestate system explored exhaustively: at every evaluation of the outer loop condition the gradient w was computed
                from the current d, d is a copy of the least-squares solution on a passive set on which it is positive (and zero elsewhere), the Cholesky factor U
                was rebuilt / updated for every change of the ordered passive list, and P and the list agree.  With these invariants, leaving the loop through its
                condition is exactly the KKT certificate of the property (Lawson-Hanson argument).
    C05.chol    rank-one update kernels equal the Givens recurrences (canonical forms); insertion / deletion use the block algebra of an upper-triangular factor
"""
from __future__ import annotations

import ast
from typing import Dict, FrozenSet, List, Optional, Set, Tuple

from ..keval import KEval, Ref
from ..poly import Poly, ZERO, ONE
from fractions import Fraction
from ..forms import check_accumulate, canon_store, ref_store, short, expr_poly, src_poly, src_poly as P_
from .. import wire, paths
from ..model import norm_text, AnchorMissing, FuncInfo, Project
from ..controls import Control
from ..mutate import in_func, in_module, chain

UT = "autoarray.inversion.inversion.inversion_util"
AB = "autoarray.inversion.inversion.abstract:AbstractInversion"
FN = "autoarray.util.fnnls"
CH = "autoarray.util.cholesky_funcs"
S_ = Poly.sym
E_ = Poly.elem
L0 = S_("L0")
NONE = S_("None")


# ---------------------------------------------------------------------------------------------------------------- helpers
# ---------------------------------------------------------------------------------------------------------------- C05.solve
def _kwargs_of(c: ast.Call, callee: Optional[FuncInfo]) -> Dict[str, ast.expr]:
    """arguments of a call expression by parameter name (project calls are keywordised when the project is loaded; positional leftovers bind by the callee's parameter order)"""
    out = {k.arg: k.value for k in c.keywords if k.arg is not None}
    if callee is not None:
        for prm, a in zip(callee.call_params, c.args):
            out.setdefault(prm, a)
    return out


_SOLVES = ("np.linalg.solve", "numpy.linalg.solve", "scipy.linalg.solve", "linalg.solve")


def rule_solve(ctx, p: Project):
    """decided on the name-free path summaries (sa/paths.py): what is returned on every path, under which settings"""
    rule = "C05.solve"
    # unconstrained
    f = p.func(f"{UT}:reconstruction_positive_negative_from")
    tries = [n for n in f.node.body if isinstance(n, ast.Try)]
    solves = [c for c in f.calls() if norm_text(c.func) in _SOLVES]
    ok = len(solves) == 1 and len(solves[0].args) == 2 and [norm_text(a) for a in solves[0].args] == ["curvature_reg_matrix", "data_vector"]
    ctx.ob(rule, f.key + ":solve(A, b)", ok, where=f, node=solves[0] if solves else f.node, construct=norm_text(solves[0])[:90] if solves else "no solve",
           message="the unconstrained reconstruction must be solve(curvature_reg_matrix, data_vector), matrix first")
    ok = False
    if len(tries) == 1 and solves:
        t = tries[0]
        inside = any(solves[0] is n for st in t.body for n in ast.walk(st))
        hs = [h for h in t.handlers if h.type is not None and "LinAlgError" in norm_text(h.type)]
        ok = inside and len(hs) == 1 and any(isinstance(x, ast.Raise) and x.exc is not None and "InversionException" in norm_text(x.exc) for x in hs[0].body)
    ctx.ob(rule, f.key + ":error discipline", ok, where=f, node=tries[0] if tries else f.node, construct="try: solve ... except LinAlgError: raise InversionException",
           message="a singular / non-positive-definite system must surface as InversionException")
    PS = paths.path_summaries(f)
    rets = paths.returns(PS) if PS is not None else []
    bad = [q for q in rets if q.text not in {f"{s_}(curvature_reg_matrix,data_vector)" for s_ in _SOLVES}]
    ctx.ob(rule, f.key + ":returns the solution", (bool(rets) and not bad) if PS is not None else None, where=f, node=(bad[0].node if bad else None) or f.node,
           construct=f"{len(rets)} return path(s); " + (f"returns {bad[0].text[:90]}" if bad else "all return the solve"), message="the value returned must be the solution of the solve, unmodified")
    # positive only
    g = p.func(f"{UT}:reconstruction_positive_only_from")
    fn = p.func(f"{FN}:fnnls_cholesky")
    PS = paths.path_summaries(g)
    rets = paths.returns(PS) if PS is not None else []
    calls = [c for c in g.calls() if norm_text(c.func) == "fnnls_cholesky"]
    okc, okw, seen, det = bool(rets), bool(rets), set(), []
    for q in rets:
        v = q.value
        if not (isinstance(v, ast.Call) and norm_text(v.func).split(".")[-1] == "fnnls_cholesky"):
            okc = False
            det.append(f"returns {q.text[:80]}")
            continue
        kw = _kwargs_of(v, fn)
        ztx = kw.get("ZTx")
        while isinstance(ztx, ast.Attribute) and ztx.attr == "T":
            ztx = ztx.value
        if not (paths.ptext(kw.get("ZTZ")) == "curvature_reg_matrix" and paths.ptext(ztx) == "data_vector" and set(kw) == {"ZTZ", "ZTx", "P_initial"}):
            okc = False
            det.append(q.text[:100])
        flag = q.holds("settings.positive_only_uses_p_initial")
        seen.add(flag)
        pi = paths.ptext(kw.get("P_initial"))
        warm = {f"0<{s_}(curvature_reg_matrix,data_vector)" for s_ in _SOLVES} | {f"0.0<{s_}(curvature_reg_matrix,data_vector)" for s_ in _SOLVES}
        cold = {"np.zeros(0,dtype=int)", "numpy.zeros(0,dtype=int)", "np.array([],dtype=int)", "np.zeros(0,dtype='int')"}
        if not ((flag is True and pi in warm) or (flag is False and pi in cold)):
            okw = False
            det.append(f"P_initial={pi[:70]} under positive_only_uses_p_initial={flag}")
    ctx.ob(rule, g.key + ":fnnls(ZTZ, ZTx, P_initial)", okc if PS is not None else None, where=g, node=calls[0] if calls else g.node, construct="; ".join(det)[:160] or f"{len(rets)} return path(s)",
           message="the non-negative solver must receive (curvature_reg_matrix, data_vector, P_initial=P_initial) and its result must be returned unmodified")
    ctx.ob(rule, g.key + ":warm start", (okw and seen == {True, False}) if PS is not None else None, where=g, node=calls[0] if calls else g.node, construct="; ".join(det)[:160] or "warm / cold start by the setting",
           message="the warm start must be the positive set of the unconstrained solution of the same system (and empty when the setting is off)")
    tries = [n for n in ast.walk(g.node) if isinstance(n, ast.Try)]
    ok = False
    if len(tries) == 1 and calls:
        t = tries[0]
        inside = any(calls[0] is n for st in t.body for n in ast.walk(st))
        caught = set()
        for h in t.handlers:
            for x in (h.type.elts if isinstance(h.type, ast.Tuple) else [h.type]):
                caught.add(norm_text(x).split(".")[-1])
        ok = inside and {"RuntimeError", "LinAlgError", "ValueError"} <= caught and all(any(isinstance(x, ast.Raise) and "InversionException" in norm_text(x.exc or ast.Constant(0)) for x in h.body) for h in t.handlers)
    ctx.ob(rule, g.key + ":error discipline", ok, where=g, node=tries[0] if tries else g.node, construct="try: fnnls ... except (RuntimeError, LinAlgError, ValueError): raise InversionException",
           message="failure of the non-negative solver (iteration cap, singular factor) must surface as InversionException")
    # dispatch
    r = p.func(f"{AB}.reconstruction")
    PS = paths.path_summaries(r)
    if PS is None:
        ctx.ob(rule, "dispatch", None, message="too many paths through AbstractInversion.reconstruction")
        return
    rets = paths.returns(PS)
    ctx.require_count(rule, "return paths of reconstruction", len(rets), 3)
    seen = set()
    for q in rets:
        flag = q.holds("self.settings.use_positive_only_solver")
        seen.add(flag)
        pos = paths.calls_in(q.value, "reconstruction_positive_only_from")
        neg = paths.calls_in(q.value, "reconstruction_positive_negative_from")
        okd = (flag is True and len(pos) == 1 and not neg) or (flag is False and len(neg) == 1 and not pos and q.value is neg[0])
        tag = "+".join(f"{c}={t}" for c, t in q.conds)[:90]
        ctx.ob(rule, f"dispatch:{tag}", okd, where=r, node=q.node, construct=f"use_positive_only_solver={flag}: {q.text[:100]}", message="the solver must be chosen by settings.use_positive_only_solver alone")
        for c in pos + neg:
            kw = {k: paths.ptext(v) for k, v in paths.kwargs(c).items()}
            full = kw.get("data_vector") == "self.data_vector" and kw.get("curvature_reg_matrix") == "self.curvature_reg_matrix"
            sel = kw.get("data_vector", "")[len("self.data_vector["):-1] if kw.get("data_vector", "").startswith("self.data_vector[") else None
            reduced = sel is not None and kw.get("curvature_reg_matrix") in _reduced_forms(sel)
            oka = (full or reduced) and (c in neg or kw.get("settings") == "self.settings") and (c in pos or kw.get("mapper_param_range_list") == "self.param_range_list_from(cls=AbstractMapper)")
            ctx.ob(rule, f"arguments:{tag}", oka, where=r, node=q.node, construct=str({k: kw.get(k, "")[:60] for k in ("data_vector", "curvature_reg_matrix", "settings")}),
                   message="the solver must be given the inversion's own data vector and curvature+regularization matrix (whole, or both reduced by the same selector) and settings")
    ctx.ob(rule, "dispatch: both solvers reachable", seen == {True, False}, where=r, node=r.node, construct=str(sorted(map(str, seen))), message="every path must be decided by settings.use_positive_only_solver")


def _reduced_forms(sel: str):
    return (f"self.curvature_reg_matrix[{sel},:][:,{sel}]", f"self.curvature_reg_matrix[:,{sel}][{sel},:]", f"self.curvature_reg_matrix[np.ix_({sel},{sel})]", f"self.curvature_reg_matrix[{sel}][:,{sel}]")


# ---------------------------------------------------------------------------------------------------------------- C05.reduce
def rule_reduce(ctx, p: Project):
    rule = "C05.reduce"
    r = p.func(f"{AB}.reconstruction")
    PS = paths.path_summaries(r)
    if PS is None:
        ctx.ob(rule, "reduction", None, message="too many paths through AbstractInversion.reconstruction")
        return
    sizes = ("np.shape(self.curvature_reg_matrix)[0]", "self.curvature_reg_matrix.shape[0]", "len(self.data_vector)", "self.data_vector.shape[0]")
    res = {k: [] for k in ("selector starts all-True over every parameter", "forced-zero indices cleared in the selector", "data vector reduced by the selector", "matrix reduced on both axes by the selector",
                           "solution scattered back onto zeros through the selector", "reduction only under force_edge_pixels_to_zeros", "forced-zero index set")}
    n_red = 0
    for q in paths.returns(PS):
        if q.holds("self.settings.use_positive_only_solver") is not True:
            continue
        force = q.holds("self.settings.force_edge_pixels_to_zeros")
        sp = paths.store_parts(q.value)
        if sp is None:
            # unreduced path: allowed exactly when the setting is off
            res["reduction only under force_edge_pixels_to_zeros"].append((force is False, q, f"unreduced solve under force_edge_pixels_to_zeros={force}"))
            continue
        n_red += 1
        res["reduction only under force_edge_pixels_to_zeros"].append((force is True, q, f"reduced solve under force_edge_pixels_to_zeros={force}"))
        base, sel, val = sp
        selt = paths.ptext(sel)
        okb = isinstance(base, ast.Call) and norm_text(base.func) in ("np.zeros", "numpy.zeros") and len(base.args) == 1 and paths.ptext(base.args[0]) in sizes and not base.keywords
        okv = isinstance(val, ast.Call) and norm_text(val.func).split(".")[-1] == "reconstruction_positive_only_from"
        res["solution scattered back onto zeros through the selector"].append((okb and okv, q, f"{paths.ptext(base)[:60]} [sel] = {paths.ptext(val)[:50]}"))
        kw = {k: paths.ptext(v) for k, v in paths.kwargs(val).items()} if okv else {}
        res["data vector reduced by the selector"].append((kw.get("data_vector") == f"self.data_vector[{selt}]", q, kw.get("data_vector", "missing")[:100]))
        res["matrix reduced on both axes by the selector"].append((kw.get("curvature_reg_matrix") in _reduced_forms(selt), q, kw.get("curvature_reg_matrix", "missing")[:120]))
        ssp = paths.store_parts(sel)
        oks = ssp is not None and isinstance(ssp[0], ast.Call) and norm_text(ssp[0].func) in ("np.ones", "numpy.ones") and len(ssp[0].args) == 1 and paths.ptext(ssp[0].args[0]) in sizes \
            and {k.arg: paths.ptext(k.value) for k in ssp[0].keywords} == {"dtype": "bool"}
        res["selector starts all-True over every parameter"].append((oks, q, paths.ptext(ssp[0])[:100] if ssp else selt[:100]))
        okz = ssp is not None and paths.ptext(ssp[2]) == "False"
        res["forced-zero indices cleared in the selector"].append((okz, q, f"sel[{paths.ptext(ssp[1])[:60]}] = {paths.ptext(ssp[2])}" if ssp else "missing"))
        ids = paths.ptext(ssp[1]) if ssp else ""
        img = q.holds("self.settings.force_edge_image_pixels_to_zeros")
        both = ("np.unique(np.append(self.mapper_edge_pixel_list,self.mapper_zero_pixel_list))", "np.unique(np.append(self.mapper_zero_pixel_list,self.mapper_edge_pixel_list))")
        oki = (img is True and ids in both) or (img is False and ids == "self.mapper_edge_pixel_list")
        res["forced-zero index set"].append((oki, q, f"force_edge_image_pixels_to_zeros={img}: {ids[:110]}"))
    msgs = {"selector starts all-True over every parameter": "the selector must start as all True with one entry per parameter",
            "forced-zero indices cleared in the selector": "exactly the forced-zero parameter indices must be cleared in the selector",
            "data vector reduced by the selector": "D must be reduced by the selector",
            "matrix reduced on both axes by the selector": "F+H must be reduced on rows and columns by the same selector",
            "solution scattered back onto zeros through the selector": "the reduced solution must be written at the selected entries of an all-zero vector of full length",
            "reduction only under force_edge_pixels_to_zeros": "parameters are removed exactly when the settings ask for it",
            "forced-zero index set": "forced zeros = mesh edge pixels, plus the source pixels fed by the listed image pixels exactly when force_edge_image_pixels_to_zeros"}
    for name, items in res.items():
        badi = [x for x in items if not x[0]]
        ok = bool(items) and not badi
        if name != "reduction only under force_edge_pixels_to_zeros" and n_red == 0:
            ok = False
        ctx.ob(rule, name, ok, where=r, node=(badi[0][1].node if badi else None) or r.node, construct=(badi[0][2] if badi else (items[0][2] if items else "no reduced path")), message=msgs[name])
    ctx.require_count(rule, "reduced return paths of reconstruction", n_red, 2)
    # local -> global index shift
    n_off = 0
    for name in ("mapper_edge_pixel_list", "mapper_zero_pixel_list"):
        f = p.func(f"{AB}.{name}")
        loops = [n for n in f.node.body if isinstance(n, ast.For)]
        pairing = wire.range_pairing(f, loops[0]) if len(loops) == 1 else None
        ok = pairing is not None and pairing["sound"]
        ctx.ob(rule, f"{name}: ranges of all objects zipped with the object list", ok, where=f, node=loops[0] if loops else f.node, construct=norm_text(loops[0].iter) if loops else "no loop",
               message="parameter ranges must be those of every linear object, zipped with the list in order")
        for c in f.calls():
            if isinstance(c.func, ast.Attribute) and c.func.attr == "append" and norm_text(c.func.value) == name:
                n_off += 1
                a = c.args[0]
                terms = []

                def flat(e):
                    if isinstance(e, ast.BinOp) and isinstance(e.op, ast.Add):
                        flat(e.left)
                        flat(e.right)
                    else:
                        terms.append(e)
                flat(a)
                rv, ov = (pairing["rng"], pairing["obj"]) if pairing else ("param_range", "linear_obj")
                offs = [t for t in terms if norm_text(t) == f"{rv}[0]"]
                rest = [t for t in terms if norm_text(t) != f"{rv}[0]"]
                # only mappers contribute: an isinstance guard (nested `if` or `continue` alike), or a pairing that is already restricted to the mappers
                only_mappers = wire.cond_holds(wire.path_conds(f, c), f"isinstance({ov}, AbstractMapper)") or bool(pairing and pairing["filtered"] and pairing["cls"] == "AbstractMapper")
                ok = len(offs) == 1 and len(rest) == 1 and only_mappers
                ctx.ob(rule, f"{name}: local pixel index shifted by param_range[0]", ok, where=f, node=c, construct=f"{name}.append({norm_text(a)[:80]})",
                       message="a pixel index of one mapper must be shifted by that mapper's first parameter index (param_range[0]) exactly once before it addresses the stacked system; "
                               "without the shift the wrong parameters are forced to zero whenever the mapper is not first in the list")
    ctx.require_count(rule, "local->global index sites", n_off, 2)


# ---------------------------------------------------------------------------------------------------------------- C05.data
def rule_data(ctx, p: Project, K: KEval):
    rule = "C05.data"
    f = p.func(f"{UT}:mapped_reconstructed_data_via_mapping_matrix_from")
    S = K.summarize(f)
    out = S.returned_array_names()
    if len(out) == 1:
        roles = {"i": [S_("mapping_matrix.shape[0]")], "j": [S_("reconstruction.shape[0]"), S_("mapping_matrix.shape[1]")]}
        check_accumulate(ctx, rule, S, out[0], roles, lambda b: (b["i"],), lambda b: E_("reconstruction", b["j"]) * E_("mapping_matrix", b["i"], b["j"]), what="sum_j s[j] * M[i, j]")
    else:
        ctx.ob(rule, f.key, None, message=f"expected one returned array, got {out}")
    f = p.func(f"{UT}:mapped_reconstructed_data_via_image_to_pix_unique_from")
    S = K.summarize(f)
    out = S.returned_array_names()
    if len(out) == 1:
        roles = {"d": [S_("data_to_pix_unique.shape[0]"), S_("data_weights.shape[0]"), S_("pix_lengths.shape[0]")], "r": lambda b: [E_("pix_lengths", b["d"])]}
        check_accumulate(ctx, rule, S, out[0], roles, lambda b: (b["d"],), lambda b: E_("data_weights", b["d"], b["r"]) * E_("reconstruction", E_("data_to_pix_unique", b["d"], b["r"])),
                         what="sum_r weight[d, r] * s[pix[d, r]] for r < pix_lengths[d]")
    else:
        ctx.ob(rule, f.key, None, message=f"expected one returned array, got {out}")
    # slices
    f = p.func(f"{AB}.source_quantity_dict_from")
    loops = [n for n in f.node.body if isinstance(n, ast.For)]
    ok = len(loops) == 1 and norm_text(loops[0].iter) == "self.linear_obj_list" and isinstance(loops[0].target, ast.Name)
    if ok:
        # one pass through the loop body with the locals substituted (sa/paths.py): the dict entry of the object is source_quantity[c : c + params] and the running
        # offset c leaves the iteration as c + params - whatever the offset and its update are called and however they are spelled (index += p; start = stop)
        v = loops[0].target.id
        PS = paths.path_summaries(f, body=loops[0].body) or []
        ok = len(PS) == 1 and PS[0].kind == "fall"
        if ok:
            env = PS[0].env
            sp = paths.store_parts(env.get("source_quantity_dict"))
            ok = sp is not None and paths.ptext(sp[1]) == v and isinstance(sp[2], ast.Subscript) and paths.ptext(sp[2].value) == "source_quantity" and isinstance(sp[2].slice, ast.Slice) and sp[2].slice.step is None \
                and isinstance(sp[2].slice.lower, ast.Name)
            if ok:
                c = sp[2].slice.lower.id
                adv = src_poly(f"{c} + {v}.params")
                ok = expr_poly(sp[2].slice.upper) == adv and c in env and expr_poly(env[c]) == adv
                init = [n for n in f.node.body if isinstance(n, ast.Assign) and norm_text(n.targets[0]) == c and n.lineno < loops[0].lineno]
                ok = ok and len(init) == 1 and norm_text(init[0].value) == "0"
    ctx.ob(rule, f.key, ok, where=f, node=loops[0] if loops else f.node, construct="slice [index : index + params], index advanced by params of every object in list order from 0",
           message="each object's slice of the solution must start where the previous object's ended, for every object in list order")
    # per-object products
    m = p.func("autoarray.inversion.inversion.imaging.mapping:InversionImagingMapping.mapped_reconstructed_data_dict")
    calls = [c for c in m.calls() if norm_text(c.func).endswith("mapped_reconstructed_data_via_mapping_matrix_from")]
    loops = [n for n in m.node.body if isinstance(n, ast.For)]
    ok = len(calls) == 1 and len(loops) == 1
    if ok:
        # however the loop pairs the objects with their matrices (enumerate + index, zip, range(len)): element k of each list, written SEQ[__k__]
        kw = {k_: wire.loop_canon(m, loops[0], v_) for k_, v_ in wire.kw(calls[0]).items()}
        obj = "self.linear_obj_list[__k__]"
        ok = kw.get("mapping_matrix") == "self.operated_mapping_matrix_list[__k__]" and kw.get("reconstruction") == f"self.source_quantity_dict_from(source_quantity=self.reconstruction)[{obj}]"
        st = [n for n in ast.walk(loops[0]) if isinstance(n, ast.Assign) and isinstance(n.targets[0], ast.Subscript) and wire.loop_canon(m, loops[0], n.targets[0]) == f"mapped_reconstructed_data_dict[{obj}]"]
        ok = ok and len(st) == 1
    ctx.ob(rule, m.key, ok, where=m, node=calls[0] if calls else m.node, construct="M_list[index] x reconstruction_dict[linear_obj], stored under linear_obj",
           message="the model data of object k must be its own operated mapping matrix times its own slice of the reconstruction")
    w = p.func("autoarray.inversion.inversion.imaging.w_tilde:InversionImagingWTilde.mapped_reconstructed_data_dict")
    calls = [c for c in w.calls() if norm_text(c.func).endswith("mapped_reconstructed_data_via_image_to_pix_unique_from")]
    loops = [n for n in w.node.body if isinstance(n, ast.For)]
    ok = len(calls) == 1 and len(loops) == 1 and norm_text(loops[0].iter) == "self.linear_obj_list" and isinstance(loops[0].target, ast.Name)
    if ok:
        ov = loops[0].target.id
        kw = wire.kwr(w, calls[0])
        rec = f"self.source_quantity_dict_from(source_quantity=self.reconstruction)[{ov}]"
        ok = kw == {"data_to_pix_unique": f"{ov}.unique_mappings.data_to_pix_unique", "data_weights": f"{ov}.unique_mappings.data_weights", "pix_lengths": f"{ov}.unique_mappings.pix_lengths", "reconstruction": rec}
        conv = [c for c in w.calls() if isinstance(c.func, ast.Attribute) and c.func.attr == "convolve_image_no_blurring"]
        ok = ok and len(conv) == 1 and norm_text(conv[0].func.value) == "self.convolver"
        sums = [c for c in w.calls() if norm_text(c.func) in ("np.sum", "numpy.sum")]
        ok = ok and len(sums) == 1 and expr_poly(wire.inline_locals(w, sums[0].args[0])) == P_(f"{rec} * self.linear_func_operated_mapping_matrix_dict[{ov}]") and wire.kwtext(sums[0]).get("axis") == "1"
    ctx.ob(rule, w.key, ok, where=w, node=calls[0] if calls else w.node, construct="mapper: unique mappings of the same object x its slice, then PSF convolution; function list: sum_j s_j B[:, j] of the same object",
           message="the model data of object k must be built from that object's own mappings / operated matrix and its own slice of the reconstruction")
    t = p.func(f"{AB}.mapped_reconstructed_data")
    rets = wire.returns_of(t)
    ok = len(rets) == 1 and norm_text(rets[0].value) == "sum(self.mapped_reconstructed_data_dict.values())"
    ctx.ob(rule, t.key, ok, where=t, node=rets[0] if rets else t.node, construct=norm_text(rets[0].value) if rets else "?", message="the total model data must be the sum of the per-object model data")


# ---------------------------------------------------------------------------------------------------------------- C05.state
POS_TEST = "np.any(P) and np.min(s_chol[P]) <= tolerance"


def _call_args(c: ast.Call, names):
    """the arguments of a call in the order of `names`, whether they were written positionally or by keyword (calls are keywordised where the callee resolves)"""
    if len(c.args) == len(names) and not c.keywords:
        return list(c.args)
    kw = {k.arg: k.value for k in c.keywords}
    vals = list(c.args) + [kw.get(n) for n in names[len(c.args):]]
    return vals if len(vals) == len(names) and all(v is not None for v in vals) and len(kw) == len(names) - len(c.args) else None


class St:
    """abstract state of the solver loop (all components finite)"""
    __slots__ = ("w", "pos", "zero", "dval", "U", "sync", "lc0", "sol")

    def __init__(self, w=False, pos=True, zero=True, dval=False, U="undef", sync="ok", lc0=None, sol=True):
        # sol: s_chol holds the least-squares solution of the CURRENT passive set (the ordered list; P follows it) - it goes stale with every change of the set and
        # is re-established only by a solve (`pos` alone only says that the entries on P are positive, which the loop test establishes for whatever s_chol holds)
        self.w, self.pos, self.zero, self.dval, self.U, self.sync, self.lc0, self.sol = w, pos, zero, dval, U, sync, lc0, sol

    def key(self):
        return (self.w, self.pos, self.zero, self.dval, self.U, self.sync, self.lc0, self.sol)

    def copy(self, **kw):
        s = St(*self.key())
        for k, v in kw.items():
            setattr(s, k, v)
        return s

    def __repr__(self):
        return f"<w={'fresh' if self.w else 'STALE'} pos={self.pos} zero_outside={self.zero} d_valid={self.dval} U={self.U} P/list={self.sync} first_iter={self.lc0} s_chol_solved={self.sol}>"


def _nonempty_test(t: ast.AST):
    """True if `t` tests that the warm-start index array P_initial is non-empty, False if it tests that it is empty, None if it is another test"""
    pol = True
    while isinstance(t, ast.UnaryOp) and isinstance(t.op, ast.Not):
        t, pol = t.operand, not pol
    sizes = ("P_initial.shape[0]", "len(P_initial)", "P_initial.size", "np.size(P_initial)")
    if norm_text(t) in sizes:
        return pol
    if isinstance(t, ast.Compare) and len(t.ops) == 1:
        a, op, b = norm_text(t.left), type(t.ops[0]), norm_text(t.comparators[0])
        if a in sizes and b == "0":
            if op in (ast.NotEq, ast.Gt):
                return pol
            if op in (ast.Eq, ast.LtE):
                return not pol
        if a == "0" and b in sizes:
            if op in (ast.NotEq, ast.Lt):
                return pol
            if op in (ast.Eq, ast.GtE):
                return not pol
    return None


class Machine:
    def __init__(self, ctx, f: FuncInfo, rule: str):
        self.ctx, self.f, self.rule = ctx, f, rule
        self.bad: Dict[str, Tuple[ast.AST, str, str]] = {}
        self.exits: List[Tuple[str, St]] = []
        self.visited = 0
        self.max_states = 0

    def fail(self, node, what: str, st: St, undecided: bool = False):
        k = f"{what}|{getattr(node, 'lineno', 0)}"
        if k not in self.bad:
            self.bad[k] = (node, what, repr(st), undecided)

    # reads of w in an expression
    def reads(self, e: ast.AST, S: Set[tuple], what: str):
        names = {n.id for n in ast.walk(e) if isinstance(n, ast.Name)}
        for k in S:
            st = St(*k)
            if "w" in names and not st.w:
                self.fail(e, f"{what} reads the gradient `w`, which was not recomputed after the last change of `d`", st)

    def flow(self, body: List[ast.stmt], S: Set[tuple]) -> Set[tuple]:
        for stt in body:
            S = self.stmt(stt, S)
            self.max_states = max(self.max_states, len(S))
        return S

    def stmt(self, n: ast.stmt, S: Set[tuple]) -> Set[tuple]:
        self.visited += 1
        if isinstance(n, ast.If):
            t = norm_text(n.test)
            self.reads(n.test, S, "branch condition")
            if t == "loop_count == 0":
                S1 = {k for k in S if St(*k).lc0 in (True, None)}
                S2 = {k for k in S if St(*k).lc0 in (False, None)}
            elif _nonempty_test(n.test) is not None:
                # `P[P_initial] = True` changed P exactly when P_initial is not empty
                Sn = {(St(*k).copy(sync="stale", pos=False, dval=False) if St(*k).sync == "warm" else St(*k)).key() for k in S}
                Se = {(St(*k).copy(sync="ok") if St(*k).sync == "warm" else St(*k)).key() for k in S}
                S1, S2 = (Sn, Se) if _nonempty_test(n.test) else (Se, Sn)
            elif t in ("np.any(P)", "numpy.any(P)", "P.any()"):
                # on the branch where P is empty, an all-zero s_chol IS the least-squares solution on the (empty) passive set
                S1 = S
                S2 = {(St(*k).copy(sol=True) if St(*k).zero else St(*k)).key() for k in S}
            else:
                S1 = S2 = S
            return self.flow(n.body, set(S1)) | self.flow(n.orelse, set(S2))
        if isinstance(n, ast.While):
            t = norm_text(n.test)
            outer = "w[" in t or "w[~P]" in t
            seen: Set[tuple] = set()
            work = set(S)
            exit_states: Set[tuple] = set()
            self._breaks = getattr(self, "_breaks", [])
            self._breaks.append(set())
            it = 0
            while work - seen:
                new = work - seen
                seen |= new
                self.reads(n.test, new, "loop condition")
                if outer:
                    for k in new:
                        st = St(*k)
                        if not st.dval:
                            self.fail(n.test, "the outer loop condition is evaluated while `d` is not the least-squares solution on a positive passive set", st)
                        if st.sync != "ok":
                            self.fail(n.test, "the outer loop condition is evaluated while the boolean passive set P and the ordered list P_inorder disagree", st)
                exit_states |= new
                work = self.flow(n.body, set(new))
                it += 1
                if it > 64:
                    self.fail(n, "state exploration did not converge", St(), undecided=True)
                    break
            brk = self._breaks.pop()
            out = set()
            for k in exit_states:
                st = St(*k)
                if t == POS_TEST:
                    st = st.copy(pos=True)
                out.add(st.key())
                if outer:
                    self.exits.append(("loop condition false (KKT)", st))
            for k in brk:
                out.add(k)
                if outer:
                    self.exits.append(("break (stall guard)", St(*k)))
            return out
        if isinstance(n, ast.Break):
            self._breaks[-1] |= S
            return set()
        if isinstance(n, ast.Raise):
            return set()
        if isinstance(n, ast.Return):
            for k in S:
                st = St(*k)
                if norm_text(n.value) == "d" and not st.dval:
                    self.fail(n, "returns `d` while it is not the least-squares solution on a positive passive set", st)
            return set()
        if isinstance(n, ast.AugAssign):
            tgt = norm_text(n.target)
            if tgt == "loop_count":
                return {St(*k).copy(lc0=False).key() for k in S}
            if tgt in ("d", "w", "s_chol", "P", "U", "P_inorder") or tgt.split("[")[0] in ("d", "w", "s_chol", "P", "U", "P_inorder"):
                for k in S:
                    self.fail(n, f"in-place update of solver state `{tgt}` outside the recognised transitions", St(*k))
            return S
        if isinstance(n, ast.Assign):
            self.reads(n.value, S, "expression")
            out = set()
            for k in S:
                out.add(self.assign(n, St(*k)).key())
            return out
        if isinstance(n, ast.Expr):
            self.reads(n.value, S, "expression")
            return S
        return S

    def assign(self, n: ast.Assign, st: St) -> St:
        tgt = n.targets[0]
        tt = norm_text(tgt)
        v = n.value
        vt = norm_text(v).replace(" ", "")
        if isinstance(tgt, ast.Tuple):
            names = [norm_text(e) for e in tgt.elts]
            if isinstance(v, ast.Call) and norm_text(v.func) == "fix_constraint_cholesky":
                kw = wire.kwtext(v)
                want = {"ZTx": "ZTx", "s_chol": "s_chol", "d": "d", "P": "P", "P_inorder": "P_inorder", "U": "U", "tolerance": "tolerance"}
                if kw != want or names != ["s_chol", "d", "P", "P_inorder", "U"]:
                    self.fail(n, "fix_constraint_cholesky must receive and return the solver state under the same names (s_chol, d, P, P_inorder, U)", st)
                if st.U != "fresh":
                    self.fail(n, "the constraint fix solves with a Cholesky factor that does not correspond to the current ordered passive list", st)
                if st.sync != "ok":
                    self.fail(n, "the constraint fix is entered while P and P_inorder disagree", st)
                return st.copy(w=False, pos=False, zero=True, dval=False, sync="ok", sol=True)   # (its contract, judged below: the solution is recomputed on the reduced set)
            if any(x in names for x in ("d", "w", "s_chol", "P", "U", "P_inorder")):
                self.fail(n, f"solver state {names} assigned from an unrecognised expression", st, undecided=True)
            return st
        if tt == "d":
            if vt in ("np.zeros(n)", "numpy.zeros(n)"):
                return st.copy(w=False, dval=True)  # before any index enters P
            if vt == "s_chol.copy()" or vt == "np.copy(s_chol)" or vt == "np.array(s_chol)":
                if not st.sol:
                    self.fail(n, "`d` is taken from `s_chol` although `s_chol` was not recomputed (solved) after the last change of the passive set: it is not the least-squares solution on that set", st)
                    return st.copy(w=False, dval=False)
                if not (st.pos and st.zero):
                    self.fail(n, "`d` is taken from the least-squares solution before it is known to be positive on the passive set and zero outside it", st)
                    return st.copy(w=False, dval=False)
                return st.copy(w=False, dval=True)
            clip = isinstance(v, ast.Call) and (norm_text(v.func) in ("s_chol.clip", "np.clip", "np.maximum", "np.abs", "abs") or (isinstance(v.func, ast.Attribute) and v.func.attr == "clip"))
            self.fail(n, "`d` must be (a copy of) the least-squares solution `s_chol` on a passive set where it is positive; a clipped solution is not a valid state of the algorithm" if clip else
                      "`d` assigned from an unrecognised expression", st, undecided=not clip)
            return st.copy(w=False, dval=False)
        if tt == "w":
            if expr_poly(v) == P_("ZTx - ZTZ @ d"):
                return st.copy(w=True)
            self.fail(n, "the gradient must be w = ZTx - ZTZ @ d", st)
            return st.copy(w=False)
        if tt == "s_chol":
            if vt in ("np.zeros(n)", "numpy.zeros(n)"):
                return st.copy(zero=True, pos=(st.sync == "ok" and st.pos), sol=(st.sync == "ok" and st.pos and st.sol))
            self.fail(n, "`s_chol` rebound to an unrecognised expression", st, undecided=True)
            return st.copy(pos=False, zero=False, sol=False)
        if tt == "P":
            if vt in ("np.zeros(n,dtype=bool)", "numpy.zeros(n,dtype=bool)"):
                return st.copy(pos=True, sync="ok")
            self.fail(n, "`P` rebound to an unrecognised expression", st, undecided=True)
            return st.copy(pos=False, sync="stale", dval=False, sol=False)
        if tt == "U":
            if vt in ("slg.cholesky(ZTZ[P_inorder][:,P_inorder])", "slg.cholesky(ZTZ[np.ix_(P_inorder,P_inorder)])", "linalg.cholesky(ZTZ[P_inorder][:,P_inorder])"):
                return st.copy(U="fresh")
            if isinstance(v, ast.Call) and norm_text(v.func) == "cholinsertlast" and _call_args(v, ("U", "x")) is not None and norm_text(_call_args(v, ("U", "x"))[0]) == "U":
                a = norm_text(_call_args(v, ("U", "x"))[1]).replace(" ", "")
                if st.U.startswith("pending:"):
                    var = st.U.split(":", 1)[1]
                    if a in (f"ZTZ[{var}][P_inorder]", f"ZTZ[{var},P_inorder]", f"ZTZ[P_inorder,{var}]", f"ZTZ[P_inorder][:,{var}]"):
                        return st.copy(U="fresh")
                    self.fail(n, f"the factor is extended with `{a}`, not with the row of ZTZ of the index just appended ({var}) restricted to the ordered passive list", st)
                    return st.copy(U="stale")
                self.fail(n, "the factor is extended although it did not correspond to the ordered passive list before the append (no factor yet, or an earlier change was not applied)", st)
                return st.copy(U="stale")
            self.fail(n, "`U` assigned from an unrecognised expression", st, undecided=True)
            return st.copy(U="stale")
        if tt == "P_inorder":
            if isinstance(v, ast.Call) and norm_text(v.func) in ("np.append", "numpy.append") and norm_text(v.args[0]) == "P_inorder":
                a = v.args[1]
                while isinstance(a, ast.Call) and norm_text(a.func) == "int" and a.args:
                    a = a.args[0]
                var = norm_text(a)
                return st.copy(U=("pending:" + var) if st.U == "fresh" else ("undef" if st.U == "undef" else "stale"), sync="append:" + var, sol=False)
            # the indices where P is True, ascending: arange(<length of P>)[P] (through any single-assignment temporaries), or numpy's own spellings of it
            full = norm_text(wire.inline_locals(self.f, v)).replace(" ", "").replace('"', "'")
            if isinstance(v, ast.Subscript) and isinstance(v.value, ast.Name):
                # `P_number = np.arange(len(P))` reads only the length of P, which element writes into P do not change: the temporary may be looked through
                rng = [a.value for a in self.f.body_nodes() if isinstance(a, ast.Assign) and len(a.targets) == 1 and norm_text(a.targets[0]) == v.value.id]
                if len(rng) == 1 and isinstance(rng[0], ast.Call) and norm_text(rng[0].func) in ("np.arange", "numpy.arange"):
                    full = (norm_text(wire.inline_locals(self.f, rng[0])) + "[" + norm_text(v.slice) + "]").replace(" ", "").replace('"', "'")
            sizes = ("len(P)", "P.shape[0]", "P.size", "np.shape(ZTZ)[0]", "ZTZ.shape[0]", "len(ZTx)", "ZTx.shape[0]")
            listing = {f"np.arange({z}{dt})[P]" for z in sizes for dt in ("", ",dtype='int'", ",dtype=int")} | {"np.where(P)[0]", "np.flatnonzero(P)", "np.nonzero(P)[0]"}
            listing_initial = {x.replace("[P]", "[P_initial]") for x in listing if x.endswith("[P]")}
            if full in listing or (full in listing_initial and st.sync == "stale" and not st.dval and st.U == "undef"):
                return st.copy(U="undef" if st.U == "undef" else "stale", sync="ok")
            if vt in ("np.array([],dtype='int')", 'np.array([],dtype="int")', "np.zeros(0,dtype=int)"):
                # empty list: in step with P when P is empty (sync ok at the start), and in the `warm` state exactly on the branch where P_initial is empty - which is what
                # `warm` already means (the branch on P_initial decides: non-empty -> stale until the list is rebuilt, empty -> ok)
                if st.sync not in ("ok", "warm"):
                    self.fail(n, "the ordered passive list is emptied while P is not known to be empty", st)
                return st.copy(U="undef")
            self.fail(n, "`P_inorder` assigned from an unrecognised expression (it must list exactly the indices where P is True)", st, undecided=True)
            return st.copy(sync="stale", U="stale")
        if isinstance(tgt, ast.Subscript):
            base = norm_text(tgt.value)
            idx = norm_text(tgt.slice).replace(" ", "")
            if base == "P":
                if idx == "P_initial" and vt == "True" and st.sync == "ok":
                    return st.copy(sync="warm", sol=False)
                if st.sync.startswith("append:") and idx == st.sync.split(":", 1)[1] and vt == "True":
                    return st.copy(sync="ok", pos=False, dval=False)   # (P catches up with the list the solution was, or will be, computed for: `sol` refers to the list)
                if vt == "False":
                    return st.copy(sync="stale" if st.sync == "ok" else st.sync, pos=False, zero=False, dval=False, sol=False)
                return st.copy(sync="stale", pos=False, dval=False, sol=False)
            if base == "s_chol":
                if idx == "P":
                    # the symmetric positive-definite solve on the passive block: through the local `lstsq` lambda or written out (slg.solve(A, x, assume_a='pos', ...))
                    solver = isinstance(v, ast.Call) and (norm_text(v.func) == "lstsq" or (norm_text(v.func) in ("slg.solve", "scipy.linalg.solve", "linalg.solve", "np.linalg.solve")
                                                                                            and all(k.arg in ("assume_a", "overwrite_a", "overwrite_b", "check_finite") for k in v.keywords)))
                    ok = solver and [norm_text(a).replace(" ", "") for a in v.args] in (["(ZTZ)[P][:,P]", "(ZTx)[P]"], ["ZTZ[P][:,P]", "ZTx[P]"])
                    if not ok:
                        self.fail(n, "the least-squares solution on P must be lstsq(ZTZ[P][:, P], ZTx[P])", st)
                    return st.copy(pos=False, sol=bool(ok))
                if idx == "P_inorder":
                    ok = isinstance(v, ast.Call) and norm_text(v.func).endswith("cho_solve") and vt.endswith("((U,False),ZTx[P_inorder])")
                    if not ok:
                        self.fail(n, "the least-squares solution on the ordered list must be cho_solve((U, False), ZTx[P_inorder])", st)
                    if st.U != "fresh":
                        self.fail(n, "cho_solve uses a Cholesky factor that does not correspond to the current ordered passive list", st)
                    return st.copy(pos=False, sol=bool(ok) and st.U == "fresh")
                if idx in (":", "~P") and vt in ("0.0", "0"):
                    return st.copy(zero=True, pos=False if idx == ":" else st.pos, sol=False if idx == ":" else st.sol)
                self.fail(n, f"unrecognised write into s_chol[{idx}]", st, undecided=True)
                return st.copy(pos=False, zero=False, sol=False)
            if base in ("d", "w", "U", "P_inorder"):
                self.fail(n, f"element write into solver state `{base}`", st)
            return st
        if tt == "loop_count":
            return st.copy(lc0=(vt == "0"))
        return st


def rule_state(ctx, p: Project):
    rule = "C05.state"
    f = p.func(f"{FN}:fnnls_cholesky")
    M = Machine(ctx, f, rule)
    init = St(w=False, pos=True, zero=True, dval=False, U="undef", sync="ok", lc0=None, sol=True)
    M._breaks = []
    end = M.flow(f.node.body, {init.key()})
    if M.bad:
        for k, (node, what, st, und) in sorted(M.bad.items()):
            ctx.ob(rule, f"fnnls_cholesky:{what[:60]}", None if und else False, where=f, node=node if isinstance(node, ast.stmt) else _stmt_of(f, node), construct=f"{what[:100]}",
                   message=f"{what}; reachable abstract state {st}")
    else:
        ctx.ob(rule, "fnnls_cholesky: invariants at every evaluation of the loop condition", True,
               detail=f"{M.visited} statement visits, at most {M.max_states} abstract states live; exits: {sorted({e for e, _ in M.exits})}")
    kinds = sorted({e for e, _ in M.exits})
    ctx.stats["C05.fnnls exits"] = kinds
    ctx.stats["C05.fnnls statement visits"] = M.visited
    if not any(e.startswith("loop condition") for e in kinds):
        ctx.error(f"[{rule}] the outer loop of fnnls_cholesky was not recognised")
    if any(e.startswith("break") for e in kinds):
        ctx.note("fnnls_cholesky can also leave the outer loop through `break` after max_repetitions iterations without a change of P (numerical stall guard): d is then primal feasible and stationary on P, "
                 "but dual feasibility is not certified - outside static reach")
    # the callee's contract
    g = p.func(f"{FN}:fix_constraint_cholesky")
    A: Dict[str, List[ast.Assign]] = {}
    for n in g.body_nodes():
        if isinstance(n, ast.Assign) and len(n.targets) == 1:
            A.setdefault(norm_text(n.targets[0]).replace(" ", ""), []).append(n)

    def one(name):
        return A[name][0] if len(A.get(name, [])) == 1 else None
    d, U, pin, Pst, sp, sz = one("d"), one("U"), one("P_inorder"), one("P[d<=tolerance]"), one("s_chol[P_inorder]"), one("s_chol[~P]")

    def inl(e):
        return wire.inline_locals(g, e)

    def pe(src):
        return expr_poly(ast.parse(src, mode="eval").body)
    # the temporaries (blocking set, step length, deleted indexes) are read through whatever they are called, or wherever they are written in place
    got = expr_poly(inl(d.value)) if d is not None else None
    Q = "(P * (s_chol <= tolerance))"
    ok = got is not None and got == pe(f"d + np.min(d[{Q}] / (d[{Q}] - s_chol[{Q}])) * (s_chol - d)")
    ctx.ob(rule, "fix: d moves toward s by alpha = min d/(d - s) over the blocking set q = P and s_chol <= tolerance", ok, where=g, node=d or g.node, construct=norm_text(inl(d.value))[:160] if d else "missing",
           message="d must move from d toward s_chol by the largest step that keeps d non-negative: alpha = min over the passive indices whose new solution is not positive of d / (d - s_chol)")
    sel = "np.where(d[P_inorder]<=tolerance)[0]"
    ua = _call_args(U.value, ("U", "indexes")) if U is not None and isinstance(U.value, ast.Call) and norm_text(U.value.func) == "choldeleteindexes" else None
    ok = ua is not None and norm_text(ua[0]) == "U" and norm_text(inl(ua[1])).replace(" ", "") == sel
    pa = pin.value if pin is not None and isinstance(pin.value, ast.Call) and norm_text(pin.value.func) in ("np.delete", "numpy.delete") and len(pin.value.args) == 2 and not pin.value.keywords else None
    ok = ok and pa is not None and norm_text(pa.args[0]) == "P_inorder" and norm_text(inl(pa.args[1])).replace(" ", "") == sel
    ok = ok and Pst is not None and norm_text(Pst.value) == "False"
    if ok:
        ok = d is not None and d.lineno < U.lineno and d.lineno < pin.lineno and d.lineno < Pst.lineno
    ctx.ob(rule, "fix: factor, ordered list and P lose the same indices (d <= tolerance)", ok, where=g, node=U or pin or g.node,
           construct="id_delete = where(d[P_inorder] <= tolerance); U = choldeleteindexes(U, id_delete); P_inorder = delete(P_inorder, id_delete); P[d <= tolerance] = False",
           message="the Cholesky factor, the ordered passive list and the boolean passive set must drop exactly the same indices, selected by d <= tolerance after the step")
    ok = sp is not None and norm_text(sp.value).replace(" ", "") == "slg.cho_solve((U,False),ZTx[P_inorder])" and U is not None and pin is not None and sp.lineno > max(U.lineno, pin.lineno)
    if ok:
        br = [(norm_text(i.test), t) for i, t in wire.enclosing_branches(g, sp)]
        ok = br in ([("len(P_inorder)", True)], [("len(P_inorder) > 0", True)], [])
    ctx.ob(rule, "fix: re-solve on the reduced list with the reduced factor", ok, where=g, node=sp or g.node, construct=norm_text(sp)[:90] if sp else "missing", message="after the deletion the least-squares solution must be recomputed with the updated factor and list")
    ok = sz is not None and norm_text(sz.value) in ("0.0", "0") and Pst is not None and sz.lineno > Pst.lineno
    ctx.ob(rule, "fix: solution zero outside the passive set", ok, where=g, node=sz or g.node, construct=norm_text(sz) if sz else "missing", message="entries that left the passive set must be zero in s_chol")
    rets = wire.returns_of(g)
    ok = len(rets) == 1 and norm_text(rets[0].value).replace(" ", "") in ("(s_chol,d,P,P_inorder,U)", "s_chol,d,P,P_inorder,U")
    ctx.ob(rule, "fix: returns the state in the order the caller unpacks", ok, where=g, node=rets[0] if rets else g.node, construct=norm_text(rets[0].value) if rets else "?", message="return order must match (s_chol, d, P, P_inorder, U)")


def _stmt_of(f: FuncInfo, node: ast.AST) -> ast.AST:
    for st in ast.walk(f.node):
        if isinstance(st, ast.stmt) and any(x is node for x in ast.walk(st)) and not isinstance(st, (ast.FunctionDef,)):
            best = st
            # innermost statement
            for sub in ast.walk(st):
                if isinstance(sub, ast.stmt) and sub is not st and any(x is node for x in ast.walk(sub)):
                    best = sub
            return best
    return f.node


# ---------------------------------------------------------------------------------------------------------------- C05.settings
def rule_settings(ctx, p: Project):
    """which solver runs is the user's choice: an explicit True / False given to SettingsInversion is what the property reports; only `None` (not given) selects the
    config default.  Decided on the decision table of each property (helpers looked into): result = the stored value where it is not None, the config entry otherwise -
    a truthiness test (`value or default`) would replace an explicit False by the default."""
    rule = "C05.settings"
    c = p.cls("autoarray.inversion.inversion.settings:SettingsInversion")
    n = 0
    for name in ("use_positive_only_solver", "positive_only_uses_p_initial"):
        m = c.lookup(name)
        if m is None:
            raise AnchorMissing(f"SettingsInversion.{name}")
        qs = paths.returns(paths.path_summaries(m, project=p) or [])
        fld = f"self._{name}"
        cfg = (f"conf.instance['general']['inversion']['{name}']",)
        ok = bool(qs)
        det = []
        for q in qs:
            given = q.holds(f"{fld} is not None")
            det.append(f"given={given}: {q.text[:70]}")
            extra = [t for t, _ in q.conds if t not in (f"{fld} is not None", f"{fld} is None")]
            ok = ok and not extra and ((given is True and q.text == fld) or (given is False and q.text in cfg))
        ok = ok and {q.holds(f"{fld} is not None") for q in qs} == {True, False}
        n += 1
        ctx.ob(rule, f"{c.key}.{name}", ok, where=m, node=m.node, construct="; ".join(det)[:300],
               message=f"`{name}` must report the value given to the constructor whenever one was given (True or False) and the config default only when none was (is None): "
                       f"any other test lets the default override an explicit choice of solver")
    ctx.require_count(rule, "solver-selecting settings", n, 2)


# ---------------------------------------------------------------------------------------------------------------- C05.chol
def rule_chol(ctx, p: Project, K: KEval):
    rule = "C05.chol"
    SL = Poly.fn("slice", L0 + 1, NONE, NONE)
    # the rank-one kernels are found from their call sites (whatever they are called, one shared kernel with a sign argument included): the call inside the deletion
    # loop of choldeleteindexes must be an UPDATE (+), the call of cholinsert behind the inserted row a DOWNDATE (-)
    def _kernel_calls(caller):
        out = []
        for c_ in caller.calls():
            tg_ = [t_ for t_ in p.resolve_call(c_, caller) if t_.module.name == CH and t_ is not caller and len(t_.params) >= 2]
            if len(tg_) == 1 and len(c_.args) + len(c_.keywords) >= 2:
                out.append((c_, tg_[0]))
        return out
    kernels = []
    for caller_name, sign in (("choldeleteindexes", 1), ("cholinsert", -1)):
        ks = _kernel_calls(p.func(f"{CH}:{caller_name}"))
        ctx.ob(rule, f"{caller_name}: one rank-one kernel call", len(ks) == 1, where=p.func(f"{CH}:{caller_name}"), node=ks[0][0] if ks else p.func(f"{CH}:{caller_name}").node, construct=f"{len(ks)} kernel call(s)",
               message="the trailing block must be corrected by exactly one rank-one kernel call")
        for c_, t_ in ks[:1]:
            b_, _ = Project.bind(c_, t_)
            extra = {}
            for q_ in t_.params[2:]:
                v_ = b_.get(q_)
                if v_ is None and q_ in t_.defaults:
                    v_ = t_.defaults[q_]
                try:
                    extra[q_] = Poly.const(Fraction(ast.literal_eval(v_))) if v_ is not None else None
                except Exception:  # noqa - not a literal: stays symbolic
                    extra[q_] = None
            kernels.append((t_, sign, {k_: v_ for k_, v_ in extra.items() if v_ is not None}))
    for f, sign, extra in kernels:
        name = f.name
        S = K.summarize(f, dict(extra))
        if f.params[:2] != ["U", "x"]:
            # the expected forms below are written over (U, x): the kernel's own names for the factor and the vector
            S = K.summarize(f, dict(extra, **{f.params[0]: Ref("U"), f.params[1]: Ref("x")}))
        Ukk, xk = E_("U", L0, L0), E_("x", L0)
        r = Poly.fn("sqrt", Ukk * Ukk + sign * xk * xk)
        loop = (ZERO, S_("size(x)") - 1, ONE)
        last = S_("size(x)") - 1
        Ull, xl = E_("U", last, last), E_("x", last)
        want = [
            ref_store((L0, L0), "=", r, [loop]),
            ref_store((L0, SL), "=", (Ukk * E_("U", L0, SL) + sign * xk * E_("x", SL)) / r, [loop]),
            ref_store((SL,), "=", (r * E_("x", SL) - xk * E_("U", L0, SL)) / Ukk, [loop]),
            ref_store((last, last), "=", Poly.fn("sqrt", Ull * Ull + sign * xl * xl), []),
        ]
        got = [canon_store(s) for s in S.stores]
        ok = sorted(got, key=repr) == sorted(want, key=repr)
        extra = [x for x in got if x not in want]
        node = f.node
        for s in S.stores:
            if canon_store(s) in extra:
                node = s.node
                break
        ctx.ob(rule, f"{name}: Givens recurrences", ok, where=f, node=node, construct=("unexpected update " + str(extra[0])[:200]) if extra else f"{len(got)} updates",
               message=f"the rank-one {'update' if sign > 0 else 'downdate'} must be r = sqrt(Ukk^2 {'+' if sign > 0 else '-'} xk^2); U[k,k] = r; U[k,k+1:] = (Ukk U[k,k+1:] {'+' if sign > 0 else '-'} xk x[k+1:]) / r; "
                       f"x[k+1:] = (r x[k+1:] - xk U[k,k+1:]) / Ukk, for k < n-1, and the last diagonal entry")
        # the x update must use the already updated row of U
        order = [s.node.lineno for s in S.stores if len(s.loops) == 1]
        targets = [(norm_text(s.node.targets[0]).split("[")[0] if isinstance(s.node, ast.Assign) else "?") for s in S.stores if len(s.loops) == 1]
        ok = targets == ["U", "U", "x"] and order == sorted(order)
        ctx.ob(rule, f"{name}: statement order", ok, where=f, node=f.node, construct=f"stores in order {targets}", message="the vector update must follow the row update it reads (x uses the new row of U)")
        rets = [short(v) for v, g, n in S.returns]
        ctx.ob(rule, f"{name}: updates its argument in place", rets == ["Ref(U)"], where=f, node=f.node, construct=str(rets), message="the kernel must update and return the factor it was given")
    # insertion at the end
    f = p.func(f"{CH}:cholinsertlast")
    A = {}
    for n in f.body_nodes():
        if isinstance(n, ast.Assign):
            for t in n.targets:
                A.setdefault(norm_text(t).replace(" ", ""), []).append(n)
    idx = A.get("index", [None])[0]
    ok = idx is not None and norm_text(idx.value) == "U.shape[0]"
    S0 = A.get("S", [None])[0]
    ok = ok and S0 is not None and norm_text(S0.value).replace(" ", "") == "np.insert(np.insert(U,index,0,axis=0),index,0,axis=1)"
    ctx.ob(rule, "cholinsertlast: factor bordered by a zero row and column at the end", ok, where=f, node=S0 or f.node, construct=norm_text(S0)[:90] if S0 else "missing", message="the new factor starts as U bordered by zeros at position n")
    s12 = A.get("S[:index,index]", [None])[0]
    # the solve may be bound to a name first (`S12 = solve(..); S[:n, n] = S12`) or in the same chained assignment
    c = wire.see_name(f, s12.value) if s12 is not None else None
    ok = c is not None and isinstance(c, ast.Call) and norm_text(c.func).endswith("solve_triangular")
    names12 = set()
    if ok:
        kw = wire.kwtext(c)
        names12 = {t.id for t in s12.targets if isinstance(t, ast.Name)} | ({s12.value.id} if isinstance(s12.value, ast.Name) else set())
        ok = [norm_text(a).replace(" ", "") for a in c.args] == ["U[:index,:index]", "x[:index]"] and kw.get("trans") == "1" and kw.get("lower") == "False"
    ctx.ob(rule, "cholinsertlast: new column solves U^T s12 = x[:n]", ok, where=f, node=s12 or f.node, construct=norm_text(s12)[:110] if s12 else "missing",
           message="the new column above the diagonal must solve U^T s12 = x[:n] (upper-triangular U, transposed solve)")
    s22 = A.get("S[index,index]", [None])[0]
    forms = [P_(t.replace("S12", nm)) for nm in sorted(names12) for t in ("x[index] - S12.dot(S12)", "x[index] - S12 @ S12", "x[index] - np.dot(S12, S12)")] + [P_("x[index] - S[:index, index].dot(S[:index, index])"), P_("x[index] - S[:index, index] @ S[:index, index]")]
    ok = s22 is not None and isinstance(s22.value, ast.Call) and norm_text(s22.value.func) in ("math.sqrt", "np.sqrt") and expr_poly(s22.value.args[0]) in forms and (s12 is None or s22.lineno >= s12.lineno)
    ctx.ob(rule, "cholinsertlast: new diagonal entry sqrt(x[n] - s12.s12)", ok, where=f, node=s22 or f.node, construct=norm_text(s22)[:90] if s22 else "missing", message="the new diagonal entry must be sqrt(x[n] - s12 . s12)")
    rets = wire.returns_of(f)
    ctx.ob(rule, "cholinsertlast: returns the bordered factor", len(rets) == 1 and norm_text(rets[0].value) == "S", where=f, node=rets[0] if rets else f.node, construct=norm_text(rets[0].value) if rets else "?", message="returns S")
    # deletion
    f = p.func(f"{CH}:choldeleteindexes")
    loops = [n for n in f.node.body if isinstance(n, ast.For)]
    srt = [n for n in f.body_nodes() if isinstance(n, ast.Assign) and norm_text(n.targets[0]) == "indexes"]
    it = loops[0].iter if len(loops) == 1 else None
    if it is not None and norm_text(it) == "indexes" and len(srt) == 1 and srt[0].lineno < loops[0].lineno:
        it = srt[0].value   # sorted into the same name before the loop
    elif it is not None and srt:
        it = None
    ok = it is not None and norm_text(it).replace(" ", "") in ("sorted(indexes,reverse=True)", "sorted(indexes)[::-1]", "np.sort(indexes)[::-1]")
    ctx.ob(rule, "choldeleteindexes: indices processed from the largest down", ok, where=f, node=srt[0] if srt else (loops[0] if loops else f.node), construct=norm_text(it) if it is not None else "missing",
           message="deleting in descending order keeps the remaining indices valid")
    ok = len(loops) == 1 and isinstance(loops[0].target, ast.Name)
    if ok:
        iv = loops[0].target.id
        Ls = [n for n in ast.walk(loops[0]) if isinstance(n, ast.Assign) and norm_text(n.targets[0]) == "L"]
        ok = len(Ls) == 1 and norm_text(Ls[0].value).replace(" ", "") in (f"np.delete(np.delete(U,{iv},axis=0),{iv},axis=1)", f"np.delete(np.delete(U,{iv},axis=1),{iv},axis=0)")
        ctx.ob(rule, "choldeleteindexes: row and column of the index removed", ok, where=f, node=Ls[0] if Ls else loops[0], construct=norm_text(Ls[0])[:90] if Ls else "missing", message="L = U without row and column `index`")
        ups = [c for c, t_ in _kernel_calls(f) if any(x is c for x in ast.walk(loops[0]))]
        kt = [t_ for c, t_ in _kernel_calls(f) if ups and c is ups[0]]
        bnd = Project.bind(ups[0], kt[0])[0] if len(ups) == 1 and kt else {}
        ok = len(ups) == 1 and bool(kt) and all(q_ in bnd for q_ in kt[0].params[:2])
        det = "missing"
        if ok:
            view, vec = bnd[kt[0].params[0]], bnd[kt[0].params[1]]
            det = f"{norm_text(ups[0].func)}({norm_text(view)}, {norm_text(vec)})"
            ok = _index_form(view) == ("L", (("slice", P_(iv), None), ("slice", P_(iv), None))) and _index_form(vec) == ("U", (("at", P_(iv)), ("slice", P_(iv) + 1, None)))
            conds = wire.path_conds(f, ups[0])
            ok = ok and len(conds) == 1 and (wire.cond_holds(conds, f"{iv} != L.shape[0]") or wire.cond_holds(conds, f"{iv} < L.shape[0]"))
        ctx.ob(rule, "choldeleteindexes: trailing block updated with the deleted ROW right of the diagonal", ok, where=f, node=ups[0] if ups else loops[0], construct=det,
               message="for an upper-triangular factor, deleting index k requires S33^T S33 = U33^T U33 + u^T u with u = U[k, k+1:] (row k, right of the diagonal) applied to L[k:, k:]; "
                       "the column U[k+1:, k] is identically zero")
        us = [n for n in ast.walk(loops[0]) if isinstance(n, ast.Assign) and norm_text(n.targets[0]) == "U"]
        def must(stmts) -> bool:
            """every path through stmts performs U = L"""
            for st_ in stmts:
                if isinstance(st_, ast.Assign) and norm_text(st_.targets[0]) == "U" and norm_text(st_.value) == "L":
                    return True
                if isinstance(st_, ast.If) and st_.orelse and must(st_.body) and must(st_.orelse):
                    return True
            return False
        ok = len(us) >= 1 and all(norm_text(n.value) == "L" for n in us) and must(loops[0].body) and all(n.lineno > ups[0].lineno or wire.enclosing_branches(f, n) != wire.enclosing_branches(f, ups[0]) for n in us) if ups else False
        ctx.ob(rule, "choldeleteindexes: the reduced factor replaces U on every path", ok, where=f, node=us[0] if us else loops[0], construct=f"{len(us)} assignment(s) U = L", message="U = L after each deletion")
    else:
        ctx.ob(rule, "choldeleteindexes: loop over the indices", False, where=f, node=f.node, construct="loop not found", message="one loop over the sorted indices is expected")


def _index_form(e: ast.expr):
    """A[i, j] / A[i][j] with slices -> (name, ((kind, lower, upper) ...)) in canonical polynomial form"""
    idx: List[ast.expr] = []
    cur = e
    chain_ = []
    while isinstance(cur, ast.Subscript):
        chain_.append(cur.slice)
        cur = cur.value
    if not isinstance(cur, ast.Name):
        return None
    for sl in reversed(chain_):
        idx.extend(sl.elts if isinstance(sl, ast.Tuple) else [sl])
    out = []
    for i in idx:
        if isinstance(i, ast.Slice):
            if i.step is not None:
                return None
            out.append(("slice", expr_poly(i.lower) if i.lower is not None else None, expr_poly(i.upper) if i.upper is not None else None))
        else:
            out.append(("at", expr_poly(i)))
    return (cur.id, tuple(out))


def run(ctx):
    ctx.rule("C05.solve", "solver entry points: (matrix, vector) order, exception wrapping into InversionException, dispatch on use_positive_only_solver with the inversion's own system")
    ctx.rule("C05.reduce", "forced-zero parameters removed from D and both axes of F+H by one selector and scattered back onto zeros; per-mapper indices shifted by param_range[0]")
    ctx.rule("C05.data", "per-object model data = operated mapping matrix (or unique mappings + PSF) x that object's slice of s; total = sum")
    ctx.rule("C05.state", "fnnls_cholesky typestate: w fresh w.r.t. d, d = positive least-squares solution on P, factor and ordered list and P in step, at every evaluation of the loop condition")
    ctx.rule("C05.settings", "use_positive_only_solver / positive_only_uses_p_initial report an explicit True / False unchanged; only None selects the config default")
    ctx.rule("C05.chol", "rank-one update / downdate kernels equal the Givens recurrences; insertion and deletion follow the block algebra of an upper-triangular factor")
    p = ctx.p
    K = KEval(p)
    rule_solve(ctx, p)
    rule_reduce(ctx, p)
    rule_data(ctx, p, K)
    rule_state(ctx, p)
    rule_chol(ctx, p, K)
    rule_settings(ctx, p)
    ctx.note("decides partial correctness only: if the solver leaves its loop through the loop condition, the invariants established here make the result satisfy the KKT conditions of the property "
             "up to the tolerance (Lawson-Hanson); termination, the stall guard, conditioning and floating-point error of scipy's cholesky / cho_solve / solve are outside static reach")


_FN = "autoarray/util/fnnls.py"
_CH = "autoarray/util/cholesky_funcs.py"
_UT = "autoarray/inversion/inversion/inversion_util.py"
_AB = "autoarray/inversion/inversion/abstract.py"
_MP = "autoarray/inversion/inversion/imaging/mapping.py"
_PRUNE = """        while np.any(P) and np.min(s_chol[P]) <= tolerance:
            P[s_chol <= tolerance] = False
            s_chol[:] = 0.0
            if np.any(P):
                s_chol[P] = lstsq((ZTZ)[P][:, P], (ZTx)[P])

"""
CONTROLS = [
    Control("warm start as before fix a8b36c1 (clipped d, stale w, negatives kept passive)", _FN, in_func("fnnls_cholesky", _PRUNE + "        P_inorder = P_number[P]\n        d = s_chol.copy()\n        w = ZTx - (ZTZ) @ d\n",
            "        P_inorder = P_number[P_initial]\n        d = s_chol.clip(min=0)\n"), "C05.state"),
    Control("warm start: gradient not recomputed", _FN, in_func("fnnls_cholesky", "        d = s_chol.copy()\n        w = ZTx - (ZTZ) @ d\n    else:", "        d = s_chol.copy()\n    else:"), "C05.state"),
    Control("warm start: negative solutions kept in the passive set", _FN, in_func("fnnls_cholesky", _PRUNE, ""), "C05.state"),
    Control("warm start: stale entries left outside the pruned set", _FN, in_func("fnnls_cholesky", "            s_chol[:] = 0.0\n", ""), "C05.state"),
    Control("main loop: the solve on the enlarged passive set dropped (found by mutation fuzzing)", _FN, in_func("fnnls_cholesky", "        s_chol[P_inorder] = slg.cho_solve((U, False), ZTx[P_inorder])\n\n        P[idmax] = True", "        P[idmax] = True"), "C05.state"),
    Control("main loop: d taken before the constraint fix", _FN, in_func("fnnls_cholesky", "        P[idmax] = True\n", "        P[idmax] = True\n        d = s_chol.copy()\n"), "C05.state"),
    Control("main loop: gradient not recomputed", _FN, in_func("fnnls_cholesky", "        d = s_chol.copy()\n        w = ZTx - (ZTZ) @ d\n        loop_count += 1", "        d = s_chol.copy()\n        loop_count += 1"), "C05.state"),
    Control("main loop: gradient with the wrong sign", _FN, in_func("fnnls_cholesky", "        d = s_chol.copy()\n        w = ZTx - (ZTZ) @ d\n        loop_count += 1", "        d = s_chol.copy()\n        w = (ZTZ) @ d - ZTx\n        loop_count += 1"), "C05.state"),
    Control("main loop: new index never enters P", _FN, in_func("fnnls_cholesky", "        P[idmax] = True\n", ""), "C05.state"),
    Control("main loop: factor not extended after the append", _FN, in_func("fnnls_cholesky", "            U = cholinsertlast(U, ZTZ[idmax][P_inorder])", "            pass"), "C05.state"),
    Control("main loop: factor extended with the wrong row", _FN, in_func("fnnls_cholesky", "cholinsertlast(U, ZTZ[idmax][P_inorder])", "cholinsertlast(U, ZTZ[idmax][P])"), "C05.state"),
    Control("constraint fix: P pruned by s_chol instead of d", _FN, in_func("fix_constraint_cholesky", "P[d <= tolerance] = False", "P[s_chol <= tolerance] = False"), "C05.state"),
    Control("constraint fix: factor keeps the deleted indices", _FN, in_func("fix_constraint_cholesky", "    U = choldeleteindexes(U, id_delete)  # update the Cholesky factorisation\n", ""), "C05.state"),
    Control("constraint fix: step taken away from s", _FN, in_func("fix_constraint_cholesky", "d = d + alpha * (s_chol - d)", "d = d - alpha * (s_chol - d)"), "C05.state"),
    Control("deletion updates with the (zero) column below the diagonal (seed C05/1)", _CH, in_func("choldeleteindexes", "U[index, index + 1 :]", "U[index + 1 :, index]"), "C05.chol"),
    Control("deletion in ascending order", _CH, in_func("choldeleteindexes", "sorted(indexes, reverse=True)", "sorted(indexes)"), "C05.chol"),
    Control("rank-one update with a minus sign", _CH, in_func("_cholupdate", "r = np.sqrt(Ukk**2 + xk**2)", "r = np.sqrt(Ukk**2 - xk**2)"), "C05.chol"),
    Control("rank-one update: vector updated before the row", _CH, in_func("_cholupdate", "        U[k, k + 1 :] = (U[k, (k + 1) :] + s * x[k + 1 :]) / c\n        x[k + 1 :] = c * x[k + 1 :] - s * U[k, k + 1 :]\n",
            "        x[k + 1 :] = c * x[k + 1 :] - s * U[k, k + 1 :]\n        U[k, k + 1 :] = (U[k, (k + 1) :] + s * x[k + 1 :]) / c\n"), "C05.chol"),
    Control("insertion solves the untransposed system", _CH, in_func("cholinsertlast", "trans=1", "trans=0"), "C05.chol"),
    Control("unconstrained solve with swapped arguments", _UT, in_func("reconstruction_positive_negative_from", "np.linalg.solve(curvature_reg_matrix, data_vector)", "np.linalg.solve(data_vector, curvature_reg_matrix)"), "C05.solve"),
    Control("LinAlgError escapes the unconstrained solver", _UT, in_func("reconstruction_positive_negative_from", "    except np.linalg.LinAlgError as e:\n        raise exc.InversionException() from e", "    except ZeroDivisionError as e:\n        raise exc.InversionException() from e"), "C05.solve"),
    Control("iteration cap (RuntimeError) escapes the non-negative solver", _UT, in_func("reconstruction_positive_only_from", "except (RuntimeError, np.linalg.LinAlgError, ValueError) as e:", "except (np.linalg.LinAlgError, ValueError) as e:"), "C05.solve"),
    Control("warm start from the negative set", _UT, in_func("reconstruction_positive_only_from", "P_initial = np.linalg.solve(curvature_reg_matrix, data_vector) > 0", "P_initial = np.linalg.solve(curvature_reg_matrix, data_vector) < 0"), "C05.solve"),
    Control("matrix reduced on rows only", _AB, in_func("AbstractInversion.reconstruction", "                curvature_reg_matrix_input = self.curvature_reg_matrix[\n                    values_to_solve, :\n                ][:, values_to_solve]", "                curvature_reg_matrix_input = self.curvature_reg_matrix[\n                    values_to_solve, :\n                ][:, :]"), "C05.reduce"),
    Control("reduced solution scattered onto ones", _AB, in_func("AbstractInversion.reconstruction", "solutions = np.zeros(np.shape(self.curvature_reg_matrix)[0])", "solutions = np.ones(np.shape(self.curvature_reg_matrix)[0])"), "C05.reduce"),
    Control("zeroed source pixels not shifted to global indices (seed C05/2)", _AB, in_func("AbstractInversion.mapper_zero_pixel_list", "np.where(source_pixels_zero == True)[0] + param_range[0]", "np.where(source_pixels_zero == True)[0]"), "C05.reduce"),
    Control("edge pixels shifted by the end of the range", _AB, in_func("AbstractInversion.mapper_edge_pixel_list", "edge_pixel + param_range[0]", "edge_pixel + param_range[1]"), "C05.reduce"),
    Control("solution slices advance only past mappers", _AB, in_func("AbstractInversion.source_quantity_dict_from", "            index += linear_obj.params", "            if isinstance(linear_obj, AbstractMapper):\n                index += linear_obj.params"), "C05.data"),
    Control("every object mapped with the first object's matrix", _MP, in_func("InversionImagingMapping.mapped_reconstructed_data_dict", "mapping_matrix=operated_mapping_matrix_list[index]", "mapping_matrix=operated_mapping_matrix_list[0]"), "C05.data"),
    Control("model-data kernel skips the last parameter", _UT, in_func("mapped_reconstructed_data_via_mapping_matrix_from", "for j in range(reconstruction.shape[0]):", "for j in range(reconstruction.shape[0] - 1):"), "C05.data"),
    Control("twin: gradient written with np.dot", _FN, in_func("fnnls_cholesky", "        d = s_chol.copy()\n        w = ZTx - (ZTZ) @ d\n        loop_count += 1", "        d = s_chol.copy()\n        w = ZTx - np.dot(ZTZ, d)\n        loop_count += 1"), None, twin=True),
    Control("twin: d copied with np.array", _FN, in_func("fnnls_cholesky", "        d = s_chol.copy()\n        w = ZTx - (ZTZ) @ d\n        loop_count += 1", "        d = np.array(s_chol)\n        w = ZTx - (ZTZ) @ d\n        loop_count += 1"), None, twin=True),
    Control("twin: deleted row written with chained subscripts", _CH, in_func("choldeleteindexes", "U[index, index + 1 :]", "U[index][1 + index :]"), None, twin=True),
    Control("twin: rank-one update written with r", _CH, in_func("_cholupdate", "U[k, k + 1 :] = (U[k, (k + 1) :] + s * x[k + 1 :]) / c", "U[k, k + 1 :] = (Ukk * U[k, (k + 1) :] + xk * x[k + 1 :]) / r"), None, twin=True),
]
