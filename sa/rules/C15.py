"""C15 - preloaded and cached intermediate results never change inversion outputs (DESIGN.md section 4, C15).

    C15.write         no function writes in place into a preload slot (directly, through a callee, or through a cached property whose value may be the slot's array),
                      and nobody outside Preloads rebinds a slot
    C15.shortcircuit  every read of a slot is (a) the presence test, (b) the early `return [copy](slot)` of the property the slot was recorded from
                      (provenance read off the Preloads.set_* methods), or (c) a substitution `X = slot` whose sibling branch assigns the recorded quantity;
                      a slot that holds only the mapper part of a quantity may stand for the whole quantity only where every linear object is a mapper
    C15.wiring        the factory hands both formalisms the same dataset / linear objects / settings / preloads, the w-tilde object is the preloaded one or the
                      dataset's, it is checked against the dataset's noise-map, and w-tilde is never chosen against the settings or without a mapper
"""
from __future__ import annotations

import ast
from typing import Dict, List, Optional, Set, Tuple

from .. import effect, wire, paths
from ..effect import F
from ..model import norm_text, AnchorMissing, FuncInfo, Project
from ..controls import Control
from ..mutate import in_func, in_module, chain
from . import C11

PRE = "autoarray.preloads:Preloads"
FAC = "autoarray.inversion.inversion.factory"
FUNC_LIST = "AbstractLinearObjFuncList"

# a slot whose recorded quantity lives under another name than the function that consumes it (one line of reason each)
RESULT_ALIASES: Dict[Tuple[str, str], str] = {
    ("relocated_grid", "relocated_grid_from"): "set_relocated_grid records mapper.source_plane_data_grid, which is the grid relocated_grid_from returned when the mapper was built",
}
SUBST_ALIASES: Dict[Tuple[str, str], str] = {
    ("w_tilde", "dataset.w_tilde"): "set_w_tilde_imaging builds the same WTildeImaging from the fit's noise-map, PSF and mask; check_noise_map guards the pairing",
}
# slots of this repository's Preloads that no code in this repository consumes (they are read by PyAutoGalaxy / PyAutoLens)
DOWNSTREAM_SLOTS = {"blurring_grid", "image_plane_mesh_grid_pg_list", "traced_grids_of_planes_for_inversion", "traced_sparse_grids_list_of_planes", "sparse_image_plane_grid_pg_list",
                    "traced_mesh_grids_list_of_planes", "image_plane_mesh_grid_list", "mapper_list", "failed", "use_w_tilde"}


def slot_names(p: Project) -> List[str]:
    init = p.cls(PRE).lookup("__init__")
    return [a for a in init.all_params if a != "self"]


def provenance(p: Project) -> Dict[str, Set[str]]:
    """slot -> names of the inversion quantities the Preloads.set_* methods record into it"""
    out: Dict[str, Set[str]] = {}
    c = p.cls(PRE)
    for name, m in c.methods.items():
        if not name.startswith("set_"):
            continue
        for n in m.body_nodes():
            if isinstance(n, ast.Assign) and len(n.targets) == 1 and isinstance(n.targets[0], ast.Attribute) and isinstance(n.targets[0].value, ast.Name) and n.targets[0].value.id == m.params[0]:
                v = n.value
                if isinstance(v, ast.Constant):
                    continue
                if isinstance(v, ast.Attribute):
                    out.setdefault(n.targets[0].attr, set()).add(v.attr)
                else:
                    out.setdefault(n.targets[0].attr, set()).add("<computed>")
    return out


def _slot_read(n: ast.AST, f: FuncInfo) -> Optional[str]:
    """`self.preloads.S` / `preloads.S` -> S"""
    if isinstance(n, ast.Attribute):
        b = n.value
        if isinstance(b, ast.Attribute) and b.attr == "preloads" and isinstance(b.value, ast.Name) and f.params and b.value.id == f.params[0]:
            return n.attr
        if isinstance(b, ast.Name) and b.id == "preloads" and "preloads" in f.all_params:
            return n.attr
    return None


def _strip_copy(e: ast.expr) -> ast.expr:
    if isinstance(e, ast.Call):
        t = norm_text(e.func)
        if t in ("copy.copy", "copy.deepcopy", "np.array", "numpy.array", "np.copy") and e.args:
            return e.args[0]
        if isinstance(e.func, ast.Attribute) and e.func.attr == "copy" and not e.args:
            return e.func.value
    return e


def _result_table_ok(p, f: FuncInfo, txt: str) -> Optional[bool]:
    """decision table of f's result with respect to one preload slot (name-free path summaries): on every returning path on which the slot is present the value is the slot
    itself (possibly copied) and nothing else is applied to it; on every other path the value does not involve the slot.  However the exits are arranged (early return,
    one exit with the later steps guarded by `slot is None`, if / elif chains)."""
    PS = paths.path_summaries(f, project=p)
    rets = paths.returns(PS) if PS is not None else []
    if not rets:
        return None
    want = paths.ptext(ast.parse(txt, mode="eval").body)
    for q in rets:
        present = q.holds(f"{txt} is not None")
        v = q.value
        vt = paths.ptext(_strip_copy(v)) if v is not None else ""
        if present is True:
            if vt != want:
                return False
        elif want in paths.ptext(v):
            return False
    return True


def _parents(f: FuncInfo) -> Dict[int, ast.AST]:
    par = {}
    for n in ast.walk(f.node):
        for c in ast.iter_child_nodes(n):
            par[id(c)] = n
    return par


def _test_mentions(test: ast.expr, slot_txt: str) -> Optional[bool]:
    """True if the test (a conjunction) contains `slot is not None`, False if it is `slot is None`, None otherwise"""
    parts = test.values if isinstance(test, ast.BoolOp) and isinstance(test.op, ast.And) else [test]
    for v in parts:
        t = norm_text(v)
        if t == f"{slot_txt} is not None":
            return True
    if norm_text(test) == f"{slot_txt} is None":
        return False
    return None


def _all_mappers_conjunct(test: ast.expr, s: str) -> bool:
    parts = test.values if isinstance(test, ast.BoolOp) and isinstance(test.op, ast.And) else [test]
    for v in parts:
        t = norm_text(v)
        if t in (f"{s}.total(cls=AbstractMapper) == len({s}.linear_obj_list)", f"len({s}.linear_obj_list) == {s}.total(cls=AbstractMapper)",
                 f"not {s}.has(cls={FUNC_LIST})"):
            return True
    return False


def _only_read_without_func_lists(p: Project, f: FuncInfo) -> bool:
    """every read of self.<f.name> in f's class sits in a branch that excludes `self.has(cls=AbstractLinearObjFuncList)`"""
    cls = f.cls
    reads = 0
    for m in cls.methods.values():
        if m is f or not m.params:
            continue
        s = m.params[0]
        for n in m.body_nodes():
            if isinstance(n, ast.Attribute) and n.attr == f.name and isinstance(n.value, ast.Name) and n.value.id == s:
                reads += 1
                br = wire.enclosing_branches(m, n)
                # accepted shape: the read is in the else-chain (taken=False) of `if self.has(cls=AbstractLinearObjFuncList)`; the statements after such an if that returns count too
                ok = any((not taken) and norm_text(i.test) == f"{s}.has(cls={FUNC_LIST})" for i, taken in br)
                if not ok:
                    # early-return form:  if self.has(FuncList): return ...   <read later at the same level>
                    for st in m.node.body:
                        if isinstance(st, ast.If) and norm_text(st.test) == f"{s}.has(cls={FUNC_LIST})" and st.body and isinstance(st.body[-1], ast.Return) and st.lineno < n.lineno:
                            ok = True
                if not ok:
                    return False
    return reads > 0


def rule_shortcircuit(ctx, p: Project):
    rule = "C15.shortcircuit"
    prov = provenance(p)
    slots = set(slot_names(p))
    consumed: Set[str] = set()
    table_cache: Dict[tuple, Optional[bool]] = {}
    n_sites = 0
    for f in p.all_functions():
        if not C11.in_scope(f) or f.module.name == "autoarray.preloads":
            continue
        reads = [(n, _slot_read(n, f)) for n in f.body_nodes() if _slot_read(n, f) is not None]
        if not reads:
            continue
        par = _parents(f)
        s = f.params[0] if f.params else "self"
        for node, S in reads:
            if S not in slots:
                continue
            consumed.add(S)
            n_sites += 1
            txt = norm_text(node)
            inst = f"{f.key}:{S}"
            parent = par.get(id(node))
            # (a) presence test
            if isinstance(parent, ast.Compare) and len(parent.ops) == 1 and isinstance(parent.ops[0], (ast.Is, ast.IsNot)) and isinstance(parent.comparators[0], ast.Constant) and parent.comparators[0].value is None:
                ctx.ob(rule, inst + ":test", True, detail=f"presence test `{norm_text(parent)}`", nontrivial=False)
                continue
            if S in ("use_w_tilde",):
                continue  # a flag, handled by C15.wiring
            # the function the slot was recorded from, read as a decision table: whatever its shape (helper properties, one exit, nested tests of a local that stands for
            # the slot), on every path with the slot present it returns the (copied) slot untouched and otherwise does not involve it
            Qf = prov.get(S, set())
            if f.name in Qf or (S, f.name) in RESULT_ALIASES:
                tkey = (f.key, txt)
                if tkey not in table_cache:
                    table_cache[tkey] = _result_table_ok(p, f, txt)
                if table_cache[tkey]:
                    ctx.ob(rule, inst + ":result", True, detail=f"decision table: with the slot present the result is the (copied) slot recorded from `{f.name}`, untouched; otherwise the slot is not involved")
                    continue
            # where does the value go?
            top = node
            while isinstance(par.get(id(top)), (ast.Call, ast.Attribute, ast.keyword)) and not isinstance(par.get(id(top)), ast.stmt):
                top = par[id(top)]
            stmt = par.get(id(top))
            while stmt is not None and not isinstance(stmt, ast.stmt):
                stmt = par.get(id(stmt))
            br = wire.enclosing_branches(f, node)
            guarded = any((_test_mentions(i.test, txt) is True and taken) or (_test_mentions(i.test, txt) is False and not taken) for i, taken in br)
            # fall-through form: `if slot is None: <return computed>` ... `return slot`
            if not guarded:
                for st in f.node.body:
                    if isinstance(st, ast.If) and _test_mentions(st.test, txt) is False and st.lineno < node.lineno and _always_returns(st.body):
                        guarded = True
            # conditional-expression form of the substitution: `slot if slot is not None else <recorded quantity>` (wherever the expression stands)
            if isinstance(parent, ast.IfExp) and node is not parent.test:
                pos = _test_mentions(parent.test, txt)
                okg = (pos is True and node is parent.body) or (pos is False and node is parent.orelse)
                other = parent.orelse if node is parent.body else parent.body
                Q = prov.get(S, set())
                last = other.attr if isinstance(other, ast.Attribute) else None
                ok = okg and ((last in Q) or ((S, norm_text(other)) in SUBST_ALIASES))
                ctx.ob(rule, inst + ":substitute", ok, where=f, node=stmt if stmt is not None else node, construct=f"{f.qualname}: {norm_text(parent)[:100]}",
                       detail=f"slot, otherwise {norm_text(other)}",
                       message=f"`{S}` (recorded from {sorted(Q) or 'nothing'}) is substituted for {norm_text(other)[:50]}, which is not the quantity it was recorded from")
                continue
            if isinstance(stmt, ast.Return):
                v = _strip_copy(stmt.value)
                rekey = isinstance(stmt.value, ast.Call) and norm_text(stmt.value.func) == f"{s}._updated_cls_key_dict_from" and any(k.arg == "preload_dict" and k.value is node for k in stmt.value.keywords)
                if not (v is node or rekey):
                    ctx.ob(rule, inst + ":result", False, where=f, node=stmt, construct=f"{f.qualname}: return {norm_text(stmt.value)[:80]}",
                           message=f"the preloaded `{S}` is processed further before being returned: it was recorded as the finished quantity, so the processing is applied twice")
                    continue
                if not guarded:
                    ctx.ob(rule, inst + ":result", False, where=f, node=stmt, construct=f"{f.qualname}: unguarded return of slot {S}",
                           message=f"`{S}` is returned without the `is not None` test of the same slot")
                    continue
                Q = prov.get(S, set())
                R = f.name
                if R in Q or (S, R) in RESULT_ALIASES:
                    ctx.ob(rule, inst + ":result", True, detail=f"returns the slot recorded from `{R}`" + (f" ({RESULT_ALIASES[(S, R)]})" if (S, R) in RESULT_ALIASES else "") + ("; copied" if v is not stmt.value else ""))
                    continue
                # partial (mapper-only) slot standing for another quantity
                gtest = [i.test for i, taken in br if _test_mentions(i.test, txt) is True and taken]
                allm = (f"{s}.total(cls=AbstractMapper) == len({s}.linear_obj_list)", f"len({s}.linear_obj_list) == {s}.total(cls=AbstractMapper)")
                pcs = wire.path_conds(f, stmt, inline=True)   # every condition on the way to the return, temporaries looked through
                if any(_all_mappers_conjunct(t, s) for t in gtest) or (guarded and any((t in allm and truth) or (t == f"{s}.has(cls={FUNC_LIST})" and not truth) for t, truth in pcs)):
                    ctx.ob(rule, inst + ":result", True, detail=f"slot recorded from {sorted(Q)} stands for `{R}` only under the all-mappers condition")
                elif f.cls is not None and _only_read_without_func_lists(p, f):
                    ctx.ob(rule, inst + ":result", True, detail=f"slot recorded from {sorted(Q)} stands for `{R}`, which is only read where no linear function list is present")
                else:
                    ctx.ob(rule, inst + ":result", False, where=f, node=stmt, construct=f"{f.qualname} returns slot {S} recorded from {sorted(Q)}",
                           message=f"`{S}` is recorded from {sorted(Q)} but is returned here as `{R}`, a different quantity" +
                                   (" - the slot holds the mapper entries only, and nothing requires that every linear object is a mapper: the entries of linear function lists are lost" if S.endswith("_mapper") or S.endswith("_mapper_diag") else ""))
                continue
            if isinstance(stmt, ast.Assign) and stmt.value is node and len(stmt.targets) == 1 and isinstance(stmt.targets[0], ast.Name):
                X = stmt.targets[0].id
                # sibling branch assigns the recorded quantity
                sib = _sibling_assignments(f, stmt, X)
                Q = prov.get(S, set())
                oks = []
                for e in sib:
                    t = norm_text(e)
                    last = e.attr if isinstance(e, ast.Attribute) else None
                    oks.append((last in Q) or ((S, t) in SUBST_ALIASES))
                ok = guarded and len(sib) >= 1 and all(oks)
                if guarded and not ok and (f.name in Q or (S, f.name) in RESULT_ALIASES):
                    # `x = slot if present else <computed here>; return x` inside the very function the slot was recorded from: the early return of the slot, written with one exit
                    binds_x = [n_ for n_ in f.body_nodes() if isinstance(n_, (ast.Assign, ast.AugAssign)) and any(isinstance(t_, ast.Name) and t_.id == X for t_ in (n_.targets if isinstance(n_, ast.Assign) else [n_.target]))]
                    rets_x = wire.returns_of(f)
                    if len(binds_x) == 1 + len(sib) and all(isinstance(n_, ast.Assign) for n_ in binds_x) and rets_x and all(norm_text(r_.value) == X for r_ in rets_x) \
                            and not any(isinstance(n_, ast.Assign) and isinstance(n_.targets[0], (ast.Subscript, ast.Attribute)) and norm_text(n_.targets[0]).startswith(X) for n_ in f.body_nodes()):
                        ok = True
                ctx.ob(rule, inst + ":substitute", ok, where=f, node=stmt, construct=f"{f.qualname}: {X} = {txt} | else {[norm_text(e)[:50] for e in sib]}",
                       detail=f"{X} = slot, otherwise {[norm_text(e) for e in sib]}",
                       message=f"`{S}` (recorded from {sorted(Q) or 'nothing'}) is substituted for {[norm_text(e)[:50] for e in sib]}, which is not the quantity it was recorded from: "
                               f"whatever the other branches still apply to `{X}` afterwards is applied to the finished preloaded value as well")
                continue
            Q = prov.get(S, set())
            if (f.name in Q or (S, f.name) in RESULT_ALIASES) and _result_table_ok(p, f, txt):
                ctx.ob(rule, inst + ":result", True, detail=f"one-exit form: on every path with the slot present the result is the (copied) slot recorded from `{f.name}`, untouched; the slot is not involved otherwise")
                continue
            if table_cache.get((f.key, txt)) is False:
                ctx.ob(rule, inst + ":result", False, where=f, node=stmt if stmt is not None else node, construct=f"{f.qualname}: {norm_text(stmt)[:80] if stmt is not None else txt}",
                       message=f"`{S}` was recorded as the finished `{f.name}`, but on some returning path of {f.qualname} with the slot present the result is not the (copied) slot itself: "
                               f"it is processed further (the later steps are applied a second time), or the slot enters the result on a path where it is absent")
                continue
            ctx.ob(rule, inst + ":other", False, where=f, node=stmt if stmt is not None else node, construct=f"{f.qualname}: {norm_text(stmt)[:80] if stmt is not None else txt}",
                   message=f"unclassified use of preload slot `{S}` (neither presence test, early return nor substitution)")
    for S in sorted(slots - consumed - DOWNSTREAM_SLOTS):
        ctx.note(f"slot `{S}` is not consumed anywhere in this repository")
    ctx.stats["C15.slots consumed"] = sorted(consumed)
    ctx.stats["C15.provenance"] = {k: sorted(v) for k, v in sorted(prov.items())}
    ctx.require_count(rule, "slot reads classified", n_sites, 40)
    # the re-keying helper passes values through unchanged
    try:
        h = p.func("autoarray.inversion.inversion.imaging.abstract:AbstractInversionImaging._updated_cls_key_dict_from")
        loops = [n for n in h.node.body if isinstance(n, ast.For)]
        ok = len(loops) == 1 and norm_text(loops[0].iter).replace(" ", "") in ("zip(self.cls_list_from(cls=cls),preload_dict.values())", "zip(self.cls_list_from(cls=cls),preload_dict.values(),)")
        if ok:
            tv = loops[0].target
            b0 = loops[0].body[0] if len(loops[0].body) == 1 else None
            # D[<object>] = <value> for whatever dict D is returned
            ok = isinstance(tv, ast.Tuple) and len(tv.elts) == 2 and isinstance(b0, ast.Assign) and isinstance(b0.targets[0], ast.Subscript) and isinstance(b0.targets[0].value, ast.Name) \
                and norm_text(b0.targets[0].slice) == norm_text(tv.elts[0]) and norm_text(b0.value) == norm_text(tv.elts[1]) \
                and [norm_text(r_.value) for r_ in wire.returns_of(h)] == [b0.targets[0].value.id]
        if not ok:
            rets_h = wire.returns_of(h)
            ok = len(rets_h) == 1 and not loops and norm_text(rets_h[0].value).replace(" ", "") in ("dict(zip(self.cls_list_from(cls=cls),preload_dict.values()))",)   # the same pairing in one expression
        ctx.ob(rule, "_updated_cls_key_dict_from", ok, where=h, node=h.node, construct="_updated_cls_key_dict_from body",
               message="the helper must pair the linear objects of the class, in order, with the preloaded values unchanged")
    except AnchorMissing:
        pass


def _always_returns(body: List[ast.stmt]) -> bool:
    if not body:
        return False
    last = body[-1]
    if isinstance(last, (ast.Return, ast.Raise)):
        return True
    if isinstance(last, ast.If):
        return _always_returns(last.body) and _always_returns(last.orelse)
    return False


def _sibling_assignments(f: FuncInfo, stmt: ast.Assign, X: str) -> List[ast.expr]:
    """values assigned to X in the other branches of the if-chain that contains stmt"""
    out: List[ast.expr] = []
    for n in ast.walk(f.node):
        if isinstance(n, ast.If) and stmt in n.body:
            def collect(orelse):
                for st in orelse:
                    if isinstance(st, ast.Assign) and len(st.targets) == 1 and isinstance(st.targets[0], ast.Name) and st.targets[0].id == X:
                        out.append(st.value)
                    elif isinstance(st, ast.If):
                        for s2 in st.body:
                            if isinstance(s2, ast.Assign) and len(s2.targets) == 1 and isinstance(s2.targets[0], ast.Name) and s2.targets[0].id == X:
                                out.append(s2.value)
                        collect(st.orelse)
            collect(n.orelse)
    return out


def rule_write(ctx, p: Project, E: effect.Effects):
    rule = "C15.write"
    n = 0
    for f in E.funcs:
        if not C11.in_scope(f):
            continue
        for tag, site in E.direct_all[f.key]:
            if tag[0] == "PL":
                n += 1
                ctx.ob(rule, f"{f.key} writes slot {tag[1]}", False, where=f, node=site.node, construct=f"preload slot `{tag[1]}` <- {norm_text(site.node)[:90]}",
                       message=f"writes in place into the preloaded `{tag[1]}` ({site.how}): the next inversion sharing these preloads starts from a modified array")
            elif tag[0] == "C":
                n += 1
                content = C11.content_of_cached(E, f.cls if f.cls is not None and f.cls.lookup(tag[1]) is not None else None, tag[1])
                pls = {t: m for t, m in content.items() if t[0] == "PL"}
                if pls:
                    t0, m0 = next(iter(pls.items()))
                    ctx.ob(rule, f"{f.key} writes cached {tag[1]}", False, where=f, node=site.node, construct=f"cached `{tag[1]}` may be preload slot `{t0[1]}` ({m0.qualname}); {norm_text(site.node)[:60]}",
                           message=f"in-place update of the cached `{tag[1]}`, which {m0.qualname} may return as the preloaded `{t0[1]}` itself (no copy): the preload is changed by the inversion that uses it")
                else:
                    ctx.ob(rule, f"{f.key} writes cached {tag[1]}", True, detail=f"no implementation of `{tag[1]}` returns a preload slot un-copied ({len(content)} foreign tags)")
    # values derived from slots that reach in-place helpers are covered by the same tags; also: nobody outside Preloads rebinds a slot
    for f in p.all_functions():
        if not C11.in_scope(f) or (f.cls is not None and f.cls.name == "Preloads"):
            continue
        for node in f.body_nodes():
            tg = node.targets if isinstance(node, (ast.Assign, ast.Delete)) else ([node.target] if isinstance(node, (ast.AugAssign, ast.AnnAssign)) else [])
            for t in tg:
                for el in (t.elts if isinstance(t, (ast.Tuple, ast.List)) else [t]):
                    if isinstance(el, ast.Subscript):
                        el = el.value
                    S = _slot_read(el, f) if isinstance(el, ast.Attribute) else None
                    if S is not None:
                        n += 1
                        ctx.ob(rule, f"{f.key} rebinds slot {S}", False, where=f, node=node, construct=f"{f.qualname}: {norm_text(node)[:80]}",
                               message=f"assigns to slot `{S}` of a Preloads object outside the Preloads class: later inversions sharing the object see a different preload")
    # how many functions hand out slot values at all (vacuity guard)
    carriers = [f for f in E.funcs if C11.in_scope(f) and any(t[0] == "PL" for t in E.ret.get(f.key, set()))]
    ctx.stats["C15.functions returning a slot by reference"] = sorted(f.qualname for f in carriers)
    ctx.require_count(rule, "functions returning a slot by reference (tracked for writes)", len(carriers), 8)


def rule_wiring(ctx, p: Project):
    rule = "C15.wiring"
    fac = p.func(f"{FAC}:inversion_imaging_from")
    # both constructor calls receive the factory's own arguments
    ctor_calls = [c for c in fac.calls() if norm_text(c.func) in ("InversionImagingWTilde", "InversionImagingMapping")]
    ctx.require_count(rule, "formalism constructor calls", len(ctor_calls), 2)
    for c in ctor_calls:
        for name in ("dataset", "linear_obj_list", "settings", "preloads"):
            got = wire.kwtext(c).get(name)
            ok = got == name or (name == "preloads" and got in (None, "None", "Preloads()"))  # dropping the preloads only costs time
            ctx.ob(rule, f"{norm_text(c.func)}({name}=)", ok, where=fac, node=c, construct=f"{norm_text(c.func)}({name}={got})",
                   message=f"both formalisms must be built from the factory's own `{name}`; got {got}")
    # decided on the decision table of the factory: every path (sa/paths.py: locals substituted, new helpers looked into, conditional expressions split) with the
    # conditions that hold on it and the constructor it returns
    PS = paths.path_summaries(fac, project=p)
    rets = [q for q in (PS or []) if q.kind == "return" and isinstance(q.value, ast.Call) and paths.ptext(q.value.func) in ("InversionImagingWTilde", "InversionImagingMapping")]
    if PS is None or len(rets) != len([q for q in PS if q.kind == "return"]) or not rets:
        ctx.ob(rule, "formalism decision", None if PS is None else False, where=fac, node=fac.node, construct=f"{len(rets)} constructor-returning paths", message="every path through the factory must return one of the two formalisms")
        return
    ALLM = f"all((isinstance(linear_obj, {FUNC_LIST}) for linear_obj in linear_obj_list))"
    allowed = {ALLM, "preloads.use_w_tilde is not None", "preloads.use_w_tilde", "settings.use_w_tilde", "preloads.w_tilde is not None"}
    wt_paths = [q for q in rets if paths.ptext(q.value.func) == "InversionImagingWTilde"]
    mp_paths = [q for q in rets if q not in wt_paths]
    # w_tilde argument: preloaded or the dataset's
    okw = bool(wt_paths)
    detw = []
    for q in wt_paths:
        got = paths.ptext(paths.kwargs(q.value).get("w_tilde"))
        pre = q.holds("preloads.w_tilde is not None")
        detw.append(f"w_tilde={got} when preloads.w_tilde is not None = {pre}")
        okw = okw and ((pre is True and got == "preloads.w_tilde") or (pre is False and got == "dataset.w_tilde"))
    ctx.ob(rule, "w_tilde source", okw, where=fac, node=wt_paths[0].node if wt_paths else fac.node, construct="; ".join(sorted(set(detw)))[:200],
           message="the w-tilde object must be the preloaded one when present and the dataset's own otherwise")
    # decision: only settings / preloads.use_w_tilde / object kinds
    tests = {paths.canon_test(t) for q in rets for t, _ in q.conds}
    ctx.ob(rule, "use_w_tilde sources", tests <= allowed, where=fac, node=fac.node, construct=f"conditions {sorted(tests - allowed) or sorted(tests)}"[:300],
           message="the formalism may depend only on settings.use_w_tilde, preloads.use_w_tilde and the kinds of linear objects")
    ok = bool(wt_paths) and all(q.holds("settings.use_w_tilde") is True for q in wt_paths)
    ctx.ob(rule, "settings override", ok, where=fac, node=fac.node, construct=str([q.conds for q in wt_paths if q.holds("settings.use_w_tilde") is not True][:1]) if not ok else "every w-tilde path has settings.use_w_tilde",
           message="settings.use_w_tilde = False must force the mapping formalism whatever the preloads say")
    ok = bool(wt_paths) and all(q.holds(ALLM) is False for q in wt_paths)
    ctx.ob(rule, "no mapper -> mapping formalism", ok, where=fac, node=fac.node, construct=str([q.conds for q in wt_paths if q.holds(ALLM) is not False][:1])[:200] if not ok else "every w-tilde path excludes the all-function-lists case",
           message="when every linear object is a function list the w-tilde formalism (which needs a mapper) must not be chosen, whatever preloads.use_w_tilde says")
    # the preloaded choice decides when present, the settings otherwise (in both directions: the w-tilde formalism IS chosen when nothing forbids it)
    ok = True
    for q in rets:
        if q.holds(ALLM) is not False or q.holds("settings.use_w_tilde") is not True:
            continue
        has = q.holds("preloads.use_w_tilde is not None")
        want_wt = q.holds("preloads.use_w_tilde") if has is True else (True if has is False else None)
        if want_wt is None or (q in wt_paths) != want_wt:
            ok = False
    ctx.ob(rule, "preloaded choice", ok and bool(mp_paths), where=fac, node=fac.node, construct=f"{len(wt_paths)} w-tilde path(s), {len(mp_paths)} mapping path(s)",
           message="with a mapper present and the settings allowing it, preloads.use_w_tilde decides when it is set and the settings decide otherwise")
    # the w-tilde inversion checks the object against the dataset's noise map under the same condition it stores it
    init = p.func("autoarray.inversion.inversion.imaging.w_tilde:InversionImagingWTilde.__init__")
    chk = [c for c in init.calls() if isinstance(c.func, ast.Attribute) and c.func.attr == "check_noise_map"]
    ok = len(chk) == 1 and norm_text(chk[0].func.value) == "self.w_tilde" and wire.kwtext(chk[0]).get("noise_map") in ("dataset.noise_map", "self.noise_map")
    if ok:
        store = [n for n in init.body_nodes() if isinstance(n, ast.Assign) and norm_text(n.targets[0]) == "self.w_tilde" and norm_text(n.value) == "w_tilde"]
        ok = len(store) == 1 and [(norm_text(i.test), t) for i, t in wire.enclosing_branches(init, store[0])] == [(norm_text(i.test), t) for i, t in wire.enclosing_branches(init, chk[0])]
    ctx.ob(rule, "check_noise_map call", ok, where=init, node=chk[0] if chk else init.node, construct="self.w_tilde.check_noise_map(noise_map=dataset.noise_map) wherever self.w_tilde = w_tilde",
           message="the stored w-tilde object must be checked against the noise-map of the dataset being fitted")
    cn = p.func("autoarray.dataset.abstract.w_tilde:AbstractWTilde.check_noise_map")
    ifs = [n for n in cn.node.body if isinstance(n, ast.If)]
    ok = len(ifs) == 1 and norm_text(wire.inline_locals(cn, ifs[0].test)) in ("noise_map[0] != self.noise_map_value", "self.noise_map_value != noise_map[0]") and any(isinstance(x, ast.Raise) for x in ifs[0].body)
    ctx.ob(rule, "check_noise_map body", ok, where=cn, node=cn.node, construct=norm_text(ifs[0].test) if ifs else "no test",
           message="check_noise_map must raise when the first noise-map value differs from the one the w-tilde object was built with")
    # interferometer factory: same argument discipline
    fi = p.func(f"{FAC}:inversion_interferometer_from")
    for c in [c for c in fi.calls() if norm_text(c.func).startswith("InversionInterferometer")]:
        for name in ("dataset", "linear_obj_list", "settings", "preloads"):
            got = wire.kwtext(c).get(name)
            if got is None:
                continue
            ctx.ob(rule, f"{norm_text(c.func)}({name}=)", got == name, where=fi, node=c, construct=f"{norm_text(c.func)}({name}={got})", message=f"built from the factory's own `{name}`; got {got}")


def run(ctx):
    ctx.rule("C15.write", "no in-place write reaches a preload slot (directly, through callees, or through a cached property that may hold the slot's array); slots are rebound only inside Preloads")
    ctx.rule("C15.shortcircuit", "each slot read is a presence test, the early return of the quantity the slot was recorded from, or a substitution for that quantity; mapper-only slots stand for whole quantities only where all objects are mappers")
    ctx.rule("C15.wiring", "formalism choice depends only on settings / preloads.use_w_tilde / object kinds; both formalisms get identical arguments; the w-tilde object is checked against the dataset's noise-map")
    p = ctx.p
    E = C11.get_effects(p)
    rule_write(ctx, p, E)
    rule_shortcircuit(ctx, p)
    rule_wiring(ctx, p)
    ctx.note("decides that a preloaded value can only replace the very quantity it was recorded from and is never written to; that the two formalisms (and a preloaded versus a recomputed quantity) "
             "agree numerically is the algebra decided under C04, and equality of a user-supplied preload with the fresh value is the caller's premise")


_W = "autoarray/inversion/inversion/imaging/w_tilde.py"
_M = "autoarray/inversion/inversion/imaging/mapping.py"
_AB = "autoarray/inversion/inversion/abstract.py"
_F = "autoarray/inversion/inversion/factory.py"
_WT = "autoarray/dataset/abstract/w_tilde.py"
_ME = "autoarray/inversion/pixelization/mesh/abstract.py"
CONTROLS = [
    Control("preloaded curvature matrix substituted for the unfinished matrix (seed C15/1)", _W, in_func("InversionImagingWTilde.curvature_matrix",
            "            return copy.copy(self.preloads.curvature_matrix)\n\n        if self.has(cls=AbstractLinearObjFuncList):", "            curvature_matrix = self.preloads.curvature_matrix\n        elif self.has(cls=AbstractLinearObjFuncList):"), "C15.shortcircuit"),
    Control("preloaded curvature matrix copied only for a single mapper (seed C15/2)", _M, in_func("InversionImagingMapping.curvature_matrix", "            return copy.copy(self.preloads.curvature_matrix)",
            "            if self.total(cls=AbstractMapper) == 1:\n                return copy.copy(self.preloads.curvature_matrix)\n\n            return self.preloads.curvature_matrix"), "C15.write"),
    Control("mapper data vector returned as the whole data vector (the defect fixed in 95ddc1d)", _M, in_func("InversionImagingMapping.data_vector",
            "        if self.preloads.data_vector_mapper is not None and self.total(\n            cls=AbstractMapper\n        ) == len(self.linear_obj_list):", "        if self.preloads.data_vector_mapper is not None:"), "C15.shortcircuit"),
    Control("w-tilde mapper data vector handed out un-copied (the defect fixed in 1b61d09)", _W, in_func("InversionImagingWTilde._data_vector_mapper", "return copy.copy(self.preloads.data_vector_mapper)", "return self.preloads.data_vector_mapper"), "C15.write"),
    Control("w-tilde mapper diagonal handed out un-copied", _W, in_func("InversionImagingWTilde._curvature_matrix_mapper_diag", "return copy.copy(self.preloads.curvature_matrix_mapper_diag)", "return self.preloads.curvature_matrix_mapper_diag"), "C15.write"),
    Control("wrong slot returned", _AB, in_func("AbstractInversion.operated_mapping_matrix", "            return self.preloads.operated_mapping_matrix", "            return self.preloads.regularization_matrix"), "C15.shortcircuit"),
    Control("preloaded regularization matrix scaled again", _AB, in_func("AbstractInversion.regularization_matrix", "            return self.preloads.regularization_matrix", "            return 1.0 * self.preloads.regularization_matrix"), "C15.shortcircuit"),
    Control("regularization matrix accumulated in place (reaches the preload)", _AB, in_func("AbstractInversion.curvature_reg_matrix", "        return np.add(self.curvature_matrix, self.regularization_matrix)",
            "        regularization_matrix = self.regularization_matrix\n        regularization_matrix += self.curvature_matrix\n        return regularization_matrix"), "C15.write"),
    Control("slot cleared by the inversion", _M, in_func("InversionImagingMapping.curvature_matrix", "            return copy.copy(self.preloads.curvature_matrix)", "            curvature_matrix = copy.copy(self.preloads.curvature_matrix)\n            self.preloads.curvature_matrix = None\n            return curvature_matrix"), "C15.write"),
    Control("formalisms built from different settings", _F, in_func("inversion_imaging_from", "    return InversionImagingMapping(\n        dataset=dataset,\n        linear_obj_list=linear_obj_list,\n        settings=settings,", "    return InversionImagingMapping(\n        dataset=dataset,\n        linear_obj_list=linear_obj_list,\n        settings=SettingsInversion(),"), "C15.wiring"),
    Control("settings no longer override preloads.use_w_tilde", _F, in_func("inversion_imaging_from", "    if not settings.use_w_tilde:\n        use_w_tilde = False\n", ""), "C15.wiring"),
    Control("noise-map check dropped", _W, in_func("InversionImagingWTilde.__init__", "            self.w_tilde.check_noise_map(noise_map=dataset.noise_map)\n", ""), "C15.wiring"),
    Control("noise-map check inverted", _WT, in_func("AbstractWTilde.check_noise_map", "if noise_map[0] != self.noise_map_value:", "if noise_map[0] == self.noise_map_value:"), "C15.wiring"),
    Control("relocated grid preload relocated again", _ME, in_func("AbstractMesh.relocated_grid_from", "        return preloads.relocated_grid", "        return border_relocator.relocated_grid_from(grid=preloads.relocated_grid)"), "C15.shortcircuit"),
    Control("twin: preloaded curvature matrix copied with np.array", _M, in_func("InversionImagingMapping.curvature_matrix", "return copy.copy(self.preloads.curvature_matrix)", "return np.array(self.preloads.curvature_matrix)"), None, twin=True),
    Control("twin: mapping formalism built without preloads (slower, same values)", _F, in_func("inversion_imaging_from", "        settings=settings,\n        preloads=preloads,\n        run_time_dict=run_time_dict,\n    )", "        settings=settings,\n        run_time_dict=run_time_dict,\n    )"), None, twin=True),
    Control("twin: relocated grid test written positively", _ME, in_func("AbstractMesh.relocated_grid_from", "        if preloads.relocated_grid is None:\n            if border_relocator is not None:\n                return border_relocator.relocated_grid_from(grid=source_plane_data_grid)\n            return source_plane_data_grid\n\n        return preloads.relocated_grid",
            "        if preloads.relocated_grid is not None:\n            return preloads.relocated_grid\n        if border_relocator is not None:\n            return border_relocator.relocated_grid_from(grid=source_plane_data_grid)\n        return source_plane_data_grid"), None, twin=True),
]
