"""C06 - mapping matrices conserve flux and encode the claimed interpolation (DESIGN.md section 4, C06)."""
from __future__ import annotations

import ast
from fractions import Fraction

from ..keval import KEval, Ref, Cond, Const, Top, SLICE
from ..poly import Poly, ZERO, ONE
from ..forms import value_poly, real_guards, short, acc_name_of, is_full_range, norm_cond, CMP, check_accumulate, scalar_resets
from .. import wire
from ..model import norm_text, AnchorMissing
from ..controls import Control
from ..mutate import in_func

S_ = Poly.sym
E_ = Poly.elem
MU = "autoarray.inversion.pixelization.mappers.mapper_util"
HALF = Poly.const(Fraction(1, 2))
NEG1 = Poly.const(-1)


def need(f, *names):
    for n in names:
        if n not in f.all_params:
            raise AnchorMissing(f"{f.key}: parameter {n}")


def dense_rule(ctx, p, K):
    rule = "C06.dense"
    f = p.func(f"{MU}:mapping_matrix_from")
    need(f, "pix_indexes_for_sub_slim_index", "pix_size_for_sub_slim_index", "pix_weights_for_sub_slim_index", "pixels", "total_mask_pixels", "slim_index_for_sub_slim_index", "sub_fraction")
    S = K.summarize(f)
    out = S.returned_array_names()
    if len(out) != 1:
        ctx.ob(rule, f.key, None, message=f"expected one returned array, got {out}")
        return None
    roles = {"j": [S_("slim_index_for_sub_slim_index.shape[0]"), S_("pix_indexes_for_sub_slim_index.shape[0]")], "c": lambda b: [E_("pix_size_for_sub_slim_index", b["j"])]}
    sl = lambda b: E_("slim_index_for_sub_slim_index", b["j"])
    check_accumulate(ctx, rule, S, out[0], roles, lambda b: (sl(b), E_("pix_indexes_for_sub_slim_index", b["j"], b["c"])),
                     lambda b: E_("sub_fraction", sl(b)) * E_("pix_weights_for_sub_slim_index", b["j"], b["c"]),
                     what="sub_fraction[data pixel] * weight[sub pixel, slot] into (data pixel, source pixel)")
    shp = getattr(S.env.get(out[0]), "shape", None)
    ctx.ob(rule, f.key + ":shape", shp == (S_("total_mask_pixels"), S_("pixels")), where=f, node=f.node, construct=f"shape {shp}", message="the mapping matrix must be (data pixels) x (source pixels)")
    return True


def unique_rule(ctx, p, K):
    rule = "C06.unique"
    f = p.func(f"{MU}:data_slim_to_pixelization_unique_from")
    need(f, "data_pixels", "pix_indexes_for_sub_slim_index", "pix_sizes_for_sub_slim_index", "pix_weights_for_sub_slim_index", "pix_pixels", "sub_size")
    S = K.summarize(f)
    ret = S.ret
    if not (isinstance(ret, tuple) and len(ret) == 3 and all(isinstance(r, Ref) for r in ret)):
        ctx.ob(rule, f.key, None, message=f"expected (data_to_pix_unique, data_weights, pix_lengths), got {ret!r}")
        return
    U, Wt, L = ret
    sw = S.stores_to(Wt.name)
    su = S.stores_to(U.name)
    if len(sw) not in (1, 2) or len(su) != 1 or any(len(s.loops) != 3 for s in sw + su):
        ctx.ob(rule, f.key, False, where=f, node=f.node, construct=f"{len(sw)} weight stores, {len(su)} index stores", message="expected the repeat / first-occurrence pair of weight accumulations and one index store in the (data pixel, sub pixel, slot) nest")
        return
    lp = sw[0].loops
    ip, isub, c = (S_(l.var) for l in lp)
    # (1) the sub-pixel window of data pixel ip: [start, start + sub_size[ip]^2) with a running start advanced by exactly that amount once per data pixel
    start = acc_name_of(lp[1].lo)
    n2 = E_("sub_size", ip) * E_("sub_size", ip)
    ok = is_full_range(lp[0], [S_("data_pixels")]) and start is not None and lp[1].lo == S_(start + "~") and lp[1].hi == S_(start + "~") + n2 and lp[1].step == ONE \
        and lp[2].lo == ZERO and lp[2].hi == E_("pix_sizes_for_sub_slim_index", isub) and lp[2].step == ONE
    ctx.ob(rule, f.key + ":window", ok, where=f, node=sw[0].node, construct="; ".join(map(repr, lp)),
           message="data pixel ip owns the sub_size[ip]^2 consecutive sub-pixels starting at the running offset; every interpolation slot c < size[sub pixel] is visited")
    adv = [(v, op, g, l) for (nm, v, op, g, l, n) in S.assigns if nm == start and (op != "=" or l)] if start else []
    okadv = len(adv) == 1 and not real_guards(adv[0][2]) and len(adv[0][3]) == 1 and ((adv[0][1] == "=" and adv[0][0] == S_(start + "~") + n2) or (adv[0][1] == "+=" and adv[0][0] == n2))
    from ..trav import counter_init_zero
    okadv = okadv and start is not None and counter_init_zero(f, start, lp[0].node.lineno)
    ctx.ob(rule, f.key + ":offset", okadv, where=f, node=sw[0].node, construct=str([(op, repr(v), len(l)) for v, op, g, l in adv]),
           message="the running sub-pixel offset must start at 0 and advance by sub_size[ip]^2 exactly once per data pixel, unconditionally (a closed form such as ip * sub_size[ip]^2 is only valid for a uniform sub-size)")
    # (2) both branches accumulate the SAME term as the dense form
    pix = E_("pix_indexes_for_sub_slim_index", isub, c)
    term = E_("pix_weights_for_sub_slim_index", isub, c) / n2
    # the slot memory: the local array that is cleared as a whole once per data pixel (whatever it is called)
    mem = [s_.arr for s_ in S.stores if s_.local and len(s_.loops) == 1 and s_.idx and all(x == SLICE for x in s_.idx)]
    MEM = mem[0] if len(set(mem)) == 1 else "pix_check"
    chk = E_(MEM, pix)
    cname = acc_name_of(su[0].idx[1]) if len(su[0].idx) == 2 else None
    slot_new = S_(cname + "~") if cname else None
    # "first occurrence of this source pixel for this data pixel": the remembered slot is still the -1 it is cleared to (the memory only ever holds -1 or a slot >= 0 - decided
    # under :memory below - so every test that separates -1 from the non-negative integers is the same test)
    ichk = Poly.fn("int", chk)
    FIRST = {norm_cond(c_) for c_ in (CMP(chk, "<=", Poly.const(Fraction(-1, 2))), CMP(chk, "<", ZERO), CMP(ichk, "<", ZERO), CMP(chk, "==", NEG1), CMP(ichk, "==", NEG1), CMP(chk, "<", Poly.const(Fraction(-1, 2))),
                                      CMP(ichk, "<=", NEG1), CMP(chk, "<=", NEG1))}

    def is_first(c_):
        return norm_cond(c_) in FIRST

    def is_seen(c_):
        return norm_cond(c_.negate()) in FIRST
    rep = [s for s in sw if len(real_guards(s.guards)) == 1 and is_seen(real_guards(s.guards)[0])]
    new = [s for s in sw if s not in rep]
    merged = None
    if len(sw) == 1 and not real_guards(sw[0].guards):
        # merged spelling: the first-occurrence branch records the new slot in pix_check[pix] and ONE accumulation after the branch adds at the remembered slot
        # (which on a first occurrence is the slot just recorded).  Equivalent exactly when the slot is remembered before the accumulation reads it.
        rem = [s for s in S.stores_to(MEM) if len(s.loops) == 3]
        if len(rem) == 1 and rem[0].node.lineno < sw[0].node.lineno and len(real_guards(rem[0].guards)) == 1 and is_first(real_guards(rem[0].guards)[0]):
            merged = rem[0]
            rep, new = [sw[0]], [rem[0]]
    ok = len(rep) == 1 and len(new) == 1 and all(s.op == "+=" and value_poly(s.value) == term for s in sw)
    ctx.ob(rule, f.key + ":term", ok, where=f, node=sw[0].node, construct="; ".join(f"{s.op} {short(value_poly(s.value), 90)}" for s in sw),
           message="a repeat of a source pixel must ADD sub_fraction * weight to its existing slot and a first occurrence must add the same term to a new slot (sub_fraction = 1 / sub_size[ip]^2)")
    if ok and not cname:
        ctx.ob(rule, f.key + ":count", False, where=f, node=su[0].node, construct=f"index store at {list(map(repr, su[0].idx))}",
               message="the slot a new source pixel is recorded in must be a running count of the distinct source pixels of this data pixel (restarted per data pixel, advanced on every first occurrence); "
                       "a slot that never advances makes every new source pixel overwrite the previous one")
    if ok and cname:
        r, nw = rep[0], new[0]
        # merged spelling with the slot chosen first: idx = ite(first occurrence, new slot, remembered slot)
        from ..keval import cond_poly
        sel = {Poly.fn("ite", cond_poly(c_)[0], *((slot_new, x_) if not cond_poly(c_)[1] else (x_, slot_new))) for c_ in (CMP(chk, "<=", Poly.const(Fraction(-1, 2))), CMP(chk, "<", ZERO), CMP(ichk, "<", ZERO), CMP(ichk, "==", NEG1), CMP(chk, "==", NEG1))
               for x_ in (ichk, chk)} if slot_new is not None else set()
        okslots = (r.idx in ((ip, Poly.fn("fdiv", chk, ONE)), (ip, Poly.fn("int", chk)), (ip, chk)) or (merged is not None and len(r.idx) == 2 and r.idx[0] == ip and r.idx[1] in sel)) and (merged is not None or nw.idx == (ip, slot_new)) and su[0].idx == (ip, slot_new) and value_poly(su[0].value) == pix \
            and {c_.key() for c_ in real_guards(su[0].guards)} == {c_.key() for c_ in real_guards(nw.guards)}
        ctx.ob(rule, f.key + ":slots", okslots, where=f, node=nw.node, construct=f"repeat -> {list(map(repr, r.idx))}; new -> {list(map(repr, nw.idx))}; index store {list(map(repr, su[0].idx))}",
               message="a repeat is added at the slot remembered for that source pixel; a new source pixel takes the next free slot, where its index is recorded")
        sc = [s for s in S.stores_to(MEM)]
        remember = [s for s in sc if len(s.loops) == 3]
        reset = [s for s in sc if len(s.loops) == 1]
        okc = len(remember) == 1 and remember[0].idx == (pix,) and value_poly(remember[0].value) == slot_new and len(reset) == 1 and value_poly(reset[0].value) == NEG1 and all(x == SLICE for x in reset[0].idx) and not real_guards(reset[0].guards)
        ctx.ob(rule, f.key + ":memory", okc, where=f, node=sc[0].node if sc else f.node, construct="; ".join(repr(s)[:90] for s in sc), message="the slot memory must be cleared (-1) for every data pixel and set to the new slot on a first occurrence")
        incs = [(v, op, g, l) for (nm, v, op, g, l, n) in S.assigns if nm == cname and op != "="]
        resets = [r_ for r_ in scalar_resets(S, cname) if len(r_[2]) == 1]
        okn = len(incs) == 1 and incs[0][0] == ONE and {c_.key() for c_ in real_guards(incs[0][2])} == {c_.key() for c_ in real_guards(nw.guards)} and len(resets) == 1 and resets[0][0] == ZERO
        ctx.ob(rule, f.key + ":count", okn, where=f, node=nw.node, construct=str([(op, repr(v)) for v, op, g, l in incs]), message="the number of distinct source pixels must restart at 0 per data pixel and grow by 1 per first occurrence")
        sl_ = S.stores_to(L.name)
        okl = len(sl_) == 1 and sl_[0].idx == (ip,) and len(sl_[0].loops) == 1 and cname + "~" in repr(sl_[0].value)
        ctx.ob(rule, f.key + ":lengths", okl, where=f, node=sl_[0].node if sl_ else f.node, construct=repr(sl_[0])[:120] if sl_ else "", message="pix_lengths[ip] must be the number of distinct source pixels of data pixel ip")
    # initial contents
    iu, iw = getattr(S.env.get(U.name), "init", None), getattr(S.env.get(Wt.name), "init", None)
    ctx.ob(rule, f.key + ":init", iu is not None and isinstance(iu[1], Poly) and iu[1] == NEG1 and iw is not None and iw[0] == "zeros", where=f, node=f.node, construct=f"unique init {iu}; weights init {iw}", message="unused index slots are -1 and weights start at zero")


def delaunay_rule(ctx, p, K):
    rule = "C06.barycentric"
    f = p.func(f"{MU}:pixel_weights_delaunay_from")
    need(f, "source_plane_data_grid", "source_plane_mesh_grid", "slim_index_for_sub_slim_index", "pix_indexes_for_sub_slim_index")
    S = K.summarize(f)
    out = S.returned_array_names()
    if len(out) != 1:
        ctx.ob(rule, f.key, None, message=f"expected one returned array, got {out}")
        return
    sts = S.stores_to(out[0])
    inside = [s for s in sts if isinstance(s.value, tuple)]
    outside = [s for s in sts if not isinstance(s.value, tuple)]
    if len(inside) != 1 or len(outside) != 1:
        ctx.ob(rule, f.key, False, where=f, node=f.node, construct=f"{len(inside)} vector stores, {len(outside)} scalar stores", message="expected one store of the three barycentric weights and one store of the single nearest-vertex weight")
        return
    st = inside[0]
    j = S_(st.loops[0].var)
    full = len(st.loops) == 1 and is_full_range(st.loops[0], [S_("slim_index_for_sub_slim_index.shape[0]"), S_("pix_indexes_for_sub_slim_index.shape[0]"), S_("source_plane_data_grid.shape[0]")])
    ctx.ob(rule, f.key + ":all-points", full and st.idx == (j,), where=f, node=st.node, construct=repr(st.loops[0]), message="every sub-pixel gets its row of weights")
    P = E_("pix_indexes_for_sub_slim_index", j)
    vx = lambda k, comp: E_("source_plane_mesh_grid", P, Poly.const(k), Poly.const(comp))
    q = lambda comp: E_("source_plane_data_grid", j, Poly.const(comp))

    def area(a, b):
        # area of the triangle (vertex a, vertex b, point), corners given as (c[0], c[1])
        x1, y1, x2, y2, x3, y3 = vx(a, 0), vx(a, 1), vx(b, 0), vx(b, 1), q(0), q(1)
        return HALF * Poly.fn("abs", x1 * y2 + x2 * y3 + x3 * y1 - x2 * y1 - x3 * y2 - x1 * y3)
    areas = [area(1, 2), area(0, 2), area(0, 1)]
    norm = areas[0] + areas[1] + areas[2]
    want = tuple(a / norm for a in areas)
    got = st.value
    ok = len(got) == 3 and all(isinstance(g, Poly) for g in got) and tuple(got) == want
    if not ok and len(got) == 3 and all(isinstance(g, Poly) for g in got):
        # accept any algebraically identical area formula: compare squares of the |.| arguments is not needed here - report the forms
        pass
    ctx.ob(rule, f.key + ":weights", ok, where=f, node=st.node, construct="; ".join(short(g, 120) for g in got),
           message="weight k must be the area of the triangle formed by the point and the two vertices OTHER than k, divided by the sum of exactly those three areas (barycentric coordinates), in vertex order")
    gs = real_guards(st.guards)
    go = real_guards(outside[0].guards)
    second = E_("pix_indexes_for_sub_slim_index", j, ONE)
    in_hull = norm_cond(CMP(second, "!=", NEG1))
    ok = len(gs) == 1 and norm_cond(gs[0]) in (in_hull, norm_cond(CMP(second, ">=", ZERO)), norm_cond(CMP(second, ">", NEG1))) and len(go) == 1 and norm_cond(go[0]) == norm_cond(gs[0].negate())
    ctx.ob(rule, f.key + ":hull-test", ok, where=f, node=st.node, construct="; ".join(map(repr, gs)),
           message="barycentric weights apply exactly when the point has a containing simplex (its second vertex slot is filled, i.e. != -1; source pixel 0 is a valid vertex), the nearest-vertex weight otherwise")
    o = outside[0]
    ctx.ob(rule, f.key + ":outside", o.idx == (j, ZERO) and value_poly(o.value) == ONE and o.op == "=", where=f, node=o.node, construct=repr(o)[:120], message="outside the hull the single nearest vertex (slot 0) gets weight 1")
    init = getattr(S.env.get(out[0]), "init", None)
    ctx.ob(rule, f.key + ":init", init is not None and init[0] == "zeros", where=f, node=f.node, construct=f"init {init}", message="unused weight slots are zero")
    # vertex lookup
    g = p.func(f"{MU}:pix_indexes_for_sub_slim_index_delaunay_from")
    G = K.summarize(g)
    ret = G.ret
    okr = isinstance(ret, tuple) and len(ret) == 2 and isinstance(ret[0], Ref)
    if okr:
        sts = G.stores_to(ret[0].name)
        ins = [s for s in sts if len(s.idx) == 1]
        outs = [s for s in sts if len(s.idx) == 2]
        okr = len(ins) == 1 and len(outs) == 1
        if okr:
            i = S_(ins[0].loops[0].var)
            sx = E_("simplex_index_for_sub_slim_index", i)
            gi, go = real_guards(ins[0].guards), real_guards(outs[0].guards)
            okr = isinstance(ins[0].value, Ref) and ins[0].value.name == "pix_indexes_for_simplex_index" and ins[0].value.idx == (sx,) and ins[0].idx == (i,) \
                and len(gi) == 1 and norm_cond(gi[0]) == norm_cond(CMP(sx, "!=", NEG1)) and len(go) == 1 and norm_cond(go[0]) == norm_cond(gi[0].negate()) and outs[0].idx == (i, ZERO)
            d = S_("delaunay_points") - E_("source_plane_data_grid", i)
            want = Poly.fn("argmin", Poly.fn("sum", d * d, Poly.fn("kw_axis", ONE)))
            okr = okr and value_poly(outs[0].value) == want
            init = getattr(G.env.get(ret[0].name), "init", None)
            okr = okr and init is not None and isinstance(init[1], Poly) and init[1] == NEG1
            okr = okr and is_full_range(ins[0].loops[0], [S_("source_plane_data_grid.shape[0]")])
    # the number of vertices per point: the entries that are not the -1 sentinel, i.e. >= 0 (vertex 0 is a vertex), counted along the row
    if isinstance(ret, tuple) and len(ret) == 2 and isinstance(ret[0], Ref):
        tn = ret[0].name
        sizes_ok = repr(ret[1]) in (f"sum(bool((0 <= {tn})), kw_axis(1))", f"sum(bool(({tn} != -1)), kw_axis(1))", f"sum(bool((-1 < {tn})), kw_axis(1))", f"count_nonzero(bool((0 <= {tn})), kw_axis(1))")
        ctx.ob(rule, g.key + ":sizes", sizes_ok, where=g, node=g.node, construct=repr(ret[1])[:160],
               message="the number of vertices of each point must count the table entries that are not the -1 sentinel (>= 0) along the row: a strict test drops vertex 0")
    ctx.ob(rule, g.key, okr, where=g, node=g.node, construct=repr(ret)[:200],
           message="a point inside the hull takes the three vertices of its simplex; a point outside takes, in slot 0, the vertex nearest in squared distance over both components; unused slots are -1")
    # wiring in MapperDelaunay
    c = p.cls("autoarray.inversion.pixelization.mappers.delaunay:MapperDelaunay")
    m = c.lookup("pix_sub_weights")
    cs = wire.calls_to(p, m, f.key)
    got = {k: norm_text(wire.strip_np_array(v)) for k, v in wire.kw(cs[0], f).items()} if len(cs) == 1 else {}
    # the vertex table handed over is the (integer-cast) first result of the vertex routine
    vt = wire.kw(cs[0], f).get("pix_indexes_for_sub_slim_index") if len(cs) == 1 else None
    vcalls = wire.calls_to(p, m, g.key)
    vt_ok = isinstance(vt, ast.Name) and len(vcalls) == 1 and any(isinstance(n, ast.Assign) and n.value is vcalls[0] and isinstance(n.targets[0], ast.Tuple) and norm_text(n.targets[0].elts[0]) == vt.id for n in m.body_nodes())
    if vt_ok:
        got["pix_indexes_for_sub_slim_index"] = "<vertex table>"
    ctx.ob(rule, m.key + ":weights-call", got == {"source_plane_data_grid": "self.source_plane_data_grid", "source_plane_mesh_grid": "self.source_plane_mesh_grid", "slim_index_for_sub_slim_index": "self.slim_index_for_sub_slim_index", "pix_indexes_for_sub_slim_index": "<vertex table>"},
           where=m, node=cs[0] if cs else m.node, construct=str(got), message="the weights must be computed for the mapper's own data grid and mesh grid, with the vertex table just computed")
    cs = wire.calls_to(p, m, g.key)
    got = wire.kwr(m, cs[0], g) if len(cs) == 1 else {}
    ctx.ob(rule, m.key + ":vertices-call", got == {"source_plane_data_grid": "self.source_plane_data_grid", "simplex_index_for_sub_slim_index": "self.delaunay.find_simplex(self.source_plane_data_grid)", "pix_indexes_for_simplex_index": "self.delaunay.simplices", "delaunay_points": "self.delaunay.points"},
           where=m, node=cs[0] if cs else m.node, construct=str(got), message="the vertex table must come from the triangulation's own simplices / points and the simplex found for the data grid")
    txt = {norm_text(n.targets[0]): norm_text(n.value) for n in m.body_nodes() if isinstance(n, ast.Assign)}
    # (aliases of attribute chains are propagated by the canonicalisation pass, N15; the vertices-call obligation above - name-free through kwr - already binds simplices / points / find_simplex to self.delaunay)
    ctx.ob(rule, m.key + ":simplex", got.get("simplex_index_for_sub_slim_index") == "self.delaunay.find_simplex(self.source_plane_data_grid)",
           where=m, node=m.node, construct=str({k: v for k, v in txt.items() if "simplex" in k}), message="the containing simplex must be looked up for the source-plane data grid in the mesh's own triangulation")


def rectangular_rule(ctx, p):
    rule = "C06.rectangular"
    c = p.cls("autoarray.inversion.pixelization.mappers.rectangular:MapperRectangular")
    m = c.lookup("pix_sub_weights")
    callee = p.func("autoarray.geometry.geometry_util:grid_pixel_indexes_2d_slim_from")
    cs = wire.calls_to(p, m, callee.key)
    got = {k: norm_text(wire.strip_np_array(v)) for k, v in wire.kw(cs[0], callee).items()} if len(cs) == 1 else {}
    ctx.ob(rule, m.key + ":cell-index", got == {"grid_scaled_2d_slim": "self.source_plane_data_grid", "shape_native": "self.source_plane_mesh_grid.shape_native", "pixel_scales": "self.source_plane_mesh_grid.pixel_scales", "origin": "self.source_plane_mesh_grid.origin"},
           where=m, node=cs[0] if cs else m.node, construct=str(got), message="the rectangular cell of each point must be found with the mesh's OWN shape, pixel scales and origin")
    # what is returned, with the locals substituted (sa/paths.py): mappings = <cell index of every point> as an (N, 1) integer column, sizes = N ones, weights = (N, 1) ones
    from .. import paths
    PS = paths.returns(paths.path_summaries(m) or [])
    kwx = paths.kwargs(PS[0].value) if len(PS) == 1 and isinstance(PS[0].value, ast.Call) else {}
    kwv = {k: paths.ptext(v)[:160] for k, v in kwx.items()}

    def peel(e):
        """strip .astype(..) / .reshape(..) method calls: the array they were applied to"""
        while isinstance(e, ast.Call) and isinstance(e.func, ast.Attribute) and e.func.attr in ("astype", "reshape"):
            e = e.func.value
        return e

    def is_cell_index(e):
        return isinstance(e, ast.Call) and paths.ptext(e.func).endswith("grid_pixel_indexes_2d_slim_from")

    def is_count(e):
        """N: the number of points"""
        if isinstance(e, ast.Call) and paths.ptext(e.func) == "len" and len(e.args) == 1:
            return is_cell_index(peel(e.args[0])) or paths.ptext(e.args[0]) == "self.source_plane_data_grid"
        if isinstance(e, ast.Subscript) and isinstance(e.value, ast.Attribute) and e.value.attr == "shape" and paths.ptext(e.slice) == "0":
            return is_cell_index(peel(e.value.value)) or paths.ptext(e.value.value) == "self.source_plane_data_grid"
        return False

    def column(e):
        """(N, 1)"""
        return isinstance(e, ast.Tuple) and len(e.elts) == 2 and is_count(e.elts[0]) and paths.ptext(e.elts[1]) == "1"

    def ones(e, shape_ok):
        return isinstance(e, ast.Call) and paths.ptext(e.func) in ("np.ones", "numpy.ones") and len(e.args) == 1 and shape_ok(e.args[0]) and {k.arg: paths.ptext(k.value) for k in e.keywords} == {"dtype": "'int'"}
    mp = kwx.get("mappings")
    resh = [c_ for c_ in ast.walk(mp) if isinstance(c_, ast.Call) and isinstance(c_.func, ast.Attribute) and c_.func.attr == "reshape"] if mp is not None else []
    ast_int = [c_ for c_ in ast.walk(mp) if isinstance(c_, ast.Call) and isinstance(c_.func, ast.Attribute) and c_.func.attr == "astype" and [paths.ptext(a_) for a_ in c_.args] + [paths.ptext(k.value) for k in c_.keywords] == ["'int'"]] if mp is not None else []
    ok = mp is not None and is_cell_index(peel(mp)) and bool(ast_int) and bool(resh) and all(len(c_.args) == 1 and column(c_.args[0]) for c_ in resh) \
        and ones(kwx.get("sizes"), is_count) and ones(kwx.get("weights"), column) and set(kwx) == {"mappings", "sizes", "weights"}
    ctx.ob(rule, m.key + ":indicator", ok, where=m, node=(PS[0].node if PS else None) or m.node, construct=str(kwv), message="each point maps to exactly one cell with weight 1 (size 1)")


def wiring_rule(ctx, p):
    rule = "C06.wiring"
    c = p.cls("autoarray.inversion.pixelization.mappers.abstract:AbstractMapper")
    dense, uniq = p.func(f"{MU}:mapping_matrix_from"), p.func(f"{MU}:data_slim_to_pixelization_unique_from")
    m = c.lookup("mapping_matrix")
    cs = wire.calls_to(p, m, dense.key)
    gd = {k: norm_text(wire.strip_np_array(v)) for k, v in wire.kw(cs[0], dense).items()} if len(cs) == 1 else {}
    want_d = {"pix_indexes_for_sub_slim_index": "self.pix_indexes_for_sub_slim_index", "pix_size_for_sub_slim_index": "self.pix_sizes_for_sub_slim_index", "pix_weights_for_sub_slim_index": "self.pix_weights_for_sub_slim_index",
              "pixels": "self.pixels", "total_mask_pixels": "self.over_sampler.mask.pixels_in_mask", "slim_index_for_sub_slim_index": "self.slim_index_for_sub_slim_index", "sub_fraction": "self.over_sampler.sub_fraction"}
    ctx.ob(rule, m.key, gd == want_d, where=m, node=cs[0] if cs else m.node, construct=str(gd), message=f"expected {want_d}")
    m = c.lookup("unique_mappings")
    cs = wire.calls_to(p, m, uniq.key)
    gu = {k: norm_text(wire.strip_np_array(v)) for k, v in wire.kw(cs[0], uniq).items()} if len(cs) == 1 else {}
    want_u = {"data_pixels": "self.over_sampler.mask.pixels_in_mask", "pix_indexes_for_sub_slim_index": "self.pix_indexes_for_sub_slim_index", "pix_sizes_for_sub_slim_index": "self.pix_sizes_for_sub_slim_index",
              "pix_weights_for_sub_slim_index": "self.pix_weights_for_sub_slim_index", "pix_pixels": "self.params", "sub_size": "self.over_sampler.sub_size"}
    ctx.ob(rule, m.key, gu == want_u, where=m, node=cs[0] if cs else m.node, construct=str(gu), message=f"the unique form must be built from the SAME tables as the dense form; expected {want_u}")
    rets = wire.returns_of(m)
    # name-free: slot k of UniqueMappings receives result k of the unique routine (through the tuple it was unpacked into, whatever the locals are called)
    kwv = wire.kwr(m, rets[0].value, unpack=True) if rets and isinstance(rets[0].value, ast.Call) else {}
    inner_u = norm_text(wire.inline_locals(m, cs[0]), limit=4000) if len(cs) == 1 else "?"
    ctx.ob(rule, m.key + ":result", kwv == {"data_to_pix_unique": f"{inner_u}[0]", "data_weights": f"{inner_u}[1]", "pix_lengths": f"{inner_u}[2]"}, where=m, node=m.node, construct=str(kwv), message="each returned table goes to its own slot of UniqueMappings")
    for name, attr in (("pix_indexes_for_sub_slim_index", "mappings"), ("pix_sizes_for_sub_slim_index", "sizes"), ("pix_weights_for_sub_slim_index", "weights")):
        mm = c.lookup(name)
        rets = wire.returns_of(mm)
        ctx.ob(rule, mm.key, len(rets) == 1 and norm_text(rets[0].value) == f"self.pix_sub_weights.{attr}", where=mm, node=mm.node, construct=norm_text(rets[0].value) if rets else "", message=f"{name} must be pix_sub_weights.{attr}")
    mm = c.lookup("slim_index_for_sub_slim_index")
    rets = wire.returns_of(mm)
    ctx.ob(rule, mm.key, len(rets) == 1 and norm_text(rets[0].value) == "self.over_sampler.slim_for_sub_slim", where=mm, node=mm.node, construct=norm_text(rets[0].value) if rets else "", message="the data pixel of each sub-pixel comes from the mapper's over-sampler")
    # sub_fraction = 1 / sub_size ** dimensions in the over sampler
    os_ = p.cls("autoarray.operators.over_sampling.uniform:OverSamplerUniform")
    txt = {n: norm_text(wire.returns_of(os_.lookup(n))[0].value) for n in ("sub_fraction", "sub_length") if os_.lookup(n) and wire.returns_of(os_.lookup(n))}
    ctx.ob(rule, os_.key + ".sub_fraction", txt == {"sub_fraction": "1.0 / self.sub_length", "sub_length": "self.sub_size ** self.mask.dimensions"}, where=os_.lookup("sub_fraction"), node=None, construct=str(txt), message="sub_fraction must be 1 / sub_size^2 (for a 2-D mask)")


def _versions(f):
    """straight-line value identity: for every Name load in f, the assignment whose value it denotes (id of the assigned expression), following rebinding in statement order"""
    env = {}
    at = {}

    def expr(e):
        for n in ast.walk(e):
            if isinstance(n, ast.Name) and isinstance(n.ctx, ast.Load):
                at[id(n)] = env.get(n.id, ("param", n.id))

    def block(body):
        for st in body:
            if isinstance(st, ast.Assign):
                expr(st.value)
                for t in st.targets:
                    if isinstance(t, ast.Name):
                        env[t.id] = ("value", id(st.value))
            elif isinstance(st, ast.Try):
                block(st.body)
                for h in st.handlers:
                    block(h.body)
            elif isinstance(st, (ast.Return, ast.Expr)):
                if st.value is not None:
                    expr(st.value)
            elif isinstance(st, (ast.If, ast.For, ast.While, ast.With)):
                for n in ast.walk(st):
                    if isinstance(n, ast.Name) and isinstance(n.ctx, ast.Store):
                        env[n.id] = ("join", id(st))
                expr(st)
    block(f.node.body)
    return at


def grids_rule(ctx, p):
    """the data grid the mapper keeps is the grid its mesh was built from: the relocated one"""
    rule = "C06.grids"
    ctx.rule(rule, "mapper_grids_from: the (border-relocated) data grid returned by relocated_grid_from is the grid the mesh is built from AND the grid handed to MapperGrids")
    n = 0
    for ck in ("autoarray.inversion.pixelization.mesh.rectangular:Rectangular", "autoarray.inversion.pixelization.mesh.triangulation:Triangulation"):
        c = p.cls(ck)
        m = c.methods.get("mapper_grids_from")
        if m is None:
            raise AnchorMissing(f"{ck}.mapper_grids_from")
        n += 1
        at = _versions(m)
        s_ = m.params[0]
        rel = [x for x in m.calls() if norm_text(x.func) == f"{s_}.relocated_grid_from"]
        mesh = [x for x in m.calls() if norm_text(x.func) == f"{s_}.mesh_grid_from"]
        mg = [r.value for r in wire.returns_of(m) if isinstance(r.value, ast.Call) and norm_text(r.value.func) == "MapperGrids"]
        ok = len(rel) == 1 and len(mesh) == 1 and len(mg) == 1 and len(wire.returns_of(m)) == 1
        det = f"{len(rel)} relocation, {len(mesh)} mesh construction, {len(mg)} MapperGrids"
        if ok:
            want = ("value", id(rel[0]))
            got_mesh = wire.kw(mesh[0]).get("source_plane_data_grid")
            got_mg = wire.kw(mg[0]).get("source_plane_data_grid")
            v1 = at.get(id(got_mesh)) if isinstance(got_mesh, ast.Name) else None
            v2 = at.get(id(got_mg)) if isinstance(got_mg, ast.Name) else None
            ok = v1 == want and v2 == want
            det = f"mesh built from {'the relocated grid' if v1 == want else norm_text(got_mesh)}; MapperGrids keeps {'the relocated grid' if v2 == want else norm_text(got_mg) + ' (not the relocated grid)'}"
            # the relocation itself is applied to the caller's data grid with the caller's relocator
            kw = wire.kwtext(rel[0])
            ok = ok and kw.get("border_relocator") == "border_relocator" and kw.get("source_plane_data_grid") == "source_plane_data_grid" and at.get(id(wire.kw(rel[0])["source_plane_data_grid"])) == ("param", "source_plane_data_grid")
            mgm = wire.kw(mg[0]).get("source_plane_mesh_grid")
            ok = ok and (mgm is mesh[0] or (isinstance(mgm, ast.Name) and at.get(id(mgm)) == ("value", id(mesh[0]))))
        ctx.ob(rule, m.key, ok, where=m, node=mg[0] if mg else m.node, construct=det,
               message="the mapper must keep the SAME relocated data grid that its mesh was built from; with the un-relocated grid, sub-pixels outside the border fall outside the mesh and are paired with cells that do not contain them")
    ctx.require_count(rule, "mesh classes", n, 2)


def neighbors_rule(ctx, p, K):
    """rectangular neighbour lists are exactly the 4-connectivity of the R x C grid: each helper covers one class of pixels, writes for pixel p = r*C + c exactly the in-frame members of
    {p - C, p - 1, p + 1, p + C} and their count; the classes partition the grid; the Delaunay lists are scipy's vertex adjacency, row by row"""
    rule = "C06.neighbors"
    ctx.rule(rule, "rectangular_neighbors_from: every pixel of every class (4 corners, 4 edges, interior) gets exactly its in-frame 4-neighbours and their count, the classes partition the R x C grid; "
                   "Mesh2DDelaunay.neighbors copies scipy's vertex adjacency row by row")
    MU_ = "autoarray.inversion.pixelization.mesh.mesh_util"
    R, C = S_("R"), S_("C")

    def unint(pl):
        return pl.subst(lambda at: at[2][0] if (at[0] == "f" and at[1] == "int" and len(at[2]) == 1) else None) if isinstance(pl, Poly) else pl
    ONE_ = ONE
    # class table: helper -> list of (row, col, loops [(lo, hi)], which neighbours exist: up, left, right, down)
    v = S_("pix")
    x, y = S_("x"), S_("y")
    classes = {
        "rectangular_corner_neighbors": [((ZERO, ZERO), [], (False, False, True, True)), ((ZERO, C - 1), [], (False, True, False, True)),
                                         ((R - 1, ZERO), [], (True, False, True, False)), ((R - 1, C - 1), [], (True, True, False, False))],
        "rectangular_top_edge_neighbors": [((ZERO, v), [(ONE_, C - 1)], (False, True, True, True))],
        "rectangular_left_edge_neighbors": [((v, ZERO), [(ONE_, R - 1)], (True, False, True, True))],
        "rectangular_right_edge_neighbors": [((v, C - 1), [(ONE_, R - 1)], (True, True, False, True))],
        "rectangular_bottom_edge_neighbors": [((R - 1, C - 1 - v), [(ONE_, C - 1)], (True, True, True, False))],
        "rectangular_central_neighbors": [((x, y), [(ONE_, R - 1), (ONE_, C - 1)], (True, True, True, True))],
    }
    total = ZERO
    for name, want in classes.items():
        f = p.func(f"{MU_}:{name}")
        S = K.summarize(f, dict(neighbors=Ref("N"), neighbors_sizes=Ref("Z"), shape_native=(R, C)))
        ns = [s for s in S.stores if s.arr == "N"]
        zs = [s for s in S.stores if s.arr == "Z"]
        ok = len(ns) == len(want) and len(zs) == len(want)
        det = f"{len(ns)} neighbour stores, {len(zs)} size stores"
        if ok:
            remaining = list(want)
            for sN in ns:
                pidx = unint(sN.idx[0])
                ren = {}
                for l, nm in zip(sN.loops, ("pix",) if len(sN.loops) == 1 else ("x", "y")):
                    ren[l.var] = nm
                rn = lambda pl: unint(pl).subst(lambda at: S_(ren[at[1]]) if (at[0] == "s" and at[1] in ren) else None) if isinstance(pl, Poly) else pl
                pidx = rn(pidx)
                vals = tuple(rn(z) for z in sN.value) if isinstance(sN.value, tuple) else None
                hit = None
                for w in remaining:
                    (r_, c_), loops, (up, left, right, down) = w
                    if pidx != r_ * C + c_:
                        continue
                    lo_hi = [(rn(l.lo), rn(l.hi)) for l in sN.loops]
                    exp = [pidx - C] * up + [pidx - 1] * left + [pidx + 1] * right + [pidx + C] * down
                    sz = [z for z in zs if rn(z.idx[0]) == pidx]
                    good = vals is not None and sorted(map(repr, vals)) == sorted(map(repr, exp)) and lo_hi == list(loops) and all(l.step == ONE for l in sN.loops) \
                        and len(sN.idx) == 2 and repr(sN.idx[1]) == f"slice(0, {len(exp)}, None)" and len(sz) == 1 and value_poly(sz[0].value) == Poly.const(len(exp)) and not real_guards(sN.guards)
                    if good:
                        hit = w
                    else:
                        det = f"pixel {pidx!r}: neighbours {vals}, expected {exp} over {loops}"
                    break
                if hit is None:
                    ok = False
                    if "pixel" not in det:
                        det = f"store at {pidx!r} does not address a pixel of this class"
                    break
                remaining.remove(hit)
            ok = ok and not remaining
        cnt = ZERO
        for (_, loops, _) in want:
            c1 = ONE
            for lo, hi in loops:
                c1 = c1 * (hi - lo)
            cnt = cnt + c1
        total = total + cnt
        ctx.ob(rule, f"{name}", ok, where=f, node=(ns[0].node if ns else f.node), construct=det,
               message="each pixel of this class (p = row * C + col) must list exactly its in-frame neighbours among p - C, p - 1, p + 1, p + C and store their number; "
                       "a wrong or missing entry makes the adjacency asymmetric (a pixel lists a neighbour that does not list it back)")
    ctx.ob(rule, "pixel classes partition the grid", total == R * C, where=p.func(f"{MU_}:rectangular_neighbors_from"), node=None, construct=f"classes cover {total!r} pixels",
           message="corners + edges + interior must count R * C pixels")
    # assembly: -1 table of width 4, zero sizes, all six helpers on the same arrays and shape, result returned
    f = p.func(f"{MU_}:rectangular_neighbors_from")
    calls = [c for c in f.calls() if norm_text(c.func) in classes]
    kws = [wire.kwtext(c) for c in calls]
    # name-free: N / Z are whatever locals the first helper receives as table / sizes; every helper gets the same two and the same shape; their first values
    # (temporaries inlined) are the -1 table of width 4 and the zero sizes over shape[0] * shape[1] pixels; (N, Z) is returned
    N_, Z_ = (kws[0].get("neighbors"), kws[0].get("neighbors_sizes")) if kws else (None, None)
    ok = sorted(norm_text(c.func) for c in calls) == sorted(classes) and N_ is not None and Z_ is not None and all(k == {"neighbors": N_, "neighbors_sizes": Z_, "shape_native": "shape_native"} for k in kws)
    first = {}
    for n in f.node.body:
        if isinstance(n, ast.Assign) and len(n.targets) == 1 and isinstance(n.targets[0], ast.Name) and n.targets[0].id not in first:
            first[n.targets[0].id] = norm_text(wire.inline_locals(f, n.value), limit=600).replace(" ", "")
    init = {"neighbors": first.get(N_), "neighbors_sizes": first.get(Z_)}
    PIX = ("int(shape_native[0]*shape_native[1])", "shape_native[0]*shape_native[1]")
    ok = ok and init["neighbors"] in {t_.replace("pixels", px_) for px_ in PIX for t_ in ("-1*np.ones((pixels,4))", "np.ones((pixels,4))*-1", "-np.ones((pixels,4))", "np.full((pixels,4),-1)", "np.full((pixels,4),-1.0)")} \
        and init["neighbors_sizes"] in {f"np.zeros({px_})" for px_ in PIX}
    rets = wire.returns_of(f)
    ok = ok and len(rets) == 1 and norm_text(rets[0].value).replace(" ", "") in (f"({N_},{Z_})", f"{N_},{Z_}")
    ctx.ob(rule, f.key, ok, where=f, node=f.node, construct=f"{len(calls)} helper calls; init {init}"[:300],
           message="the table must start as -1 (width 4) with zero sizes and be filled by all six class helpers on the same arrays and shape")
    m = p.func("autoarray.structures.mesh.rectangular_2d:Mesh2DRectangular.neighbors")
    cs = wire.calls_to(p, m, f.key)
    ok = len(cs) == 1 and wire.kwtext(cs[0]) == {"shape_native": "self.shape_native"}
    ctx.ob(rule, m.key, ok, where=m, node=cs[0] if cs else m.node, construct=norm_text(cs[0]) if cs else "", message="the mesh's neighbours must be computed for the mesh's own shape")
    # Delaunay: scipy's CSR vertex adjacency copied row by row
    d = p.func("autoarray.structures.mesh.delaunay_2d:Mesh2DDelaunay.neighbors")
    txt = {norm_text(n.targets[0]): norm_text(n.value) for n in d.body_nodes() if isinstance(n, ast.Assign)}
    loops = [n for n in wire.main_line(d) if isinstance(n, ast.For)]
    from ..forms import index_form, src_poly as _P, expr_poly as _E
    from .. import paths
    # the locals by their roles, whatever they are called: (IP, IX) = the CSR pair of scipy's vertex adjacency; SZ = the row lengths; NB = the table the loop fills
    pair = [n for n in d.body_nodes() if isinstance(n, ast.Assign) and isinstance(n.targets[0], ast.Tuple) and len(n.targets[0].elts) == 2 and norm_text(n.value) == "self.delaunay.vertex_neighbor_vertices"]
    IP, IX = (norm_text(pair[0].targets[0].elts[0]), norm_text(pair[0].targets[0].elts[1])) if len(pair) == 1 else (None, None)
    sz = [n for n in d.body_nodes() if isinstance(n, ast.Assign) and isinstance(n.targets[0], ast.Name) and IP is not None
          and (_E(n.value) == _P(f"{IP}[1:] - {IP}[:-1]") or norm_text(n.value) in (f"np.diff({IP})", f"numpy.diff({IP})"))]
    SZ = sz[0].targets[0].id if len(sz) == 1 else None
    ok = IP is not None and SZ is not None and len(loops) == 1 and norm_text(loops[0].iter) in ("range(self.parameters)", f"range(len({SZ}))", f"range({SZ}.shape[0])")
    if ok:
        k = norm_text(loops[0].target)
        # one pass through the loop body with its temporaries substituted (sa/paths.py): NB[k, 0 : SZ[k]] = IX[IP[k] : IP[k + 1]]
        PSb = paths.path_summaries(d, body=loops[0].body) or []
        stores = [(nm_, paths.store_parts(v_)) for nm_, v_ in (PSb[0].env.items() if len(PSb) == 1 and PSb[0].kind == "fall" else []) if paths.store_parts(v_) is not None]
        ok = len(stores) == 1
        if ok:
            NB, sp = stores[0]
            tgt = ast.Subscript(value=ast.Name(id=NB, ctx=ast.Load()), slice=sp[1], ctx=ast.Load())
            ok = paths.ptext(sp[0]) == NB and index_form(tgt) == (NB, (("at", _P(k)), ("slice", ZERO, _P(f"{SZ}[{k}]")))) \
                and index_form(sp[2]) == (IX, (("slice", _P(f"{IP}[{k}]"), _P(f"{IP}[{k} + 1]")),))
            # what is returned is that table and those sizes
            rets_d = paths.returns(paths.path_summaries(d) or [])
            kw_d = {k_: wire.text_nokw(wire.inline_locals(d, v_)) if False else norm_text(v_) for k_, v_ in (wire.kw(wire.returns_of(d)[0].value).items() if len(wire.returns_of(d)) == 1 and isinstance(wire.returns_of(d)[0].value, ast.Call) else [])}
            ok = ok and kw_d.get("arr", "").startswith(NB) and kw_d.get("sizes", "").startswith(SZ)
    ctx.ob(rule, d.key, ok, where=d, node=d.node, construct=f"CSR pair ({IP}, {IX}); sizes {SZ}",
           message="Delaunay neighbours must be scipy's vertex adjacency: row k = indices[indptr[k] : indptr[k + 1]], size k = indptr[k + 1] - indptr[k]")


def expr_poly_eq(f, name, src):
    from ..forms import expr_poly, src_poly
    asg = [n for n in f.body_nodes() if isinstance(n, ast.Assign) and norm_text(n.targets[0]) == name]
    return len(asg) == 1 and expr_poly(asg[0].value) == src_poly(src)


def run(ctx):
    p = ctx.p
    K = KEval(p)
    ctx.rule("C06.dense", "mapping_matrix_from accumulates sub_fraction[data pixel] * weight[sub pixel, slot] into (data pixel, source pixel) for every sub-pixel and every filled slot, onto zeros")
    ctx.rule("C06.unique", "the unique form accumulates the SAME term (adding on a repeat source pixel), over exactly the sub_size[ip]^2 sub-pixels of data pixel ip located by a running offset; slot memory / counts / lengths exact")
    ctx.rule("C06.barycentric", "Delaunay weights: weight k = area(point, the two vertices other than k) / sum of those three areas; applied iff a containing simplex exists (second slot != -1); nearest vertex with weight 1 outside the hull")
    ctx.rule("C06.rectangular", "rectangular mappers index the mesh with the mesh's own (shape_native, pixel_scales, origin); weight 1, size 1")
    ctx.rule("C06.wiring", "dense and unique forms are built from the same mapper tables; sub_fraction = 1/sub_size^2")
    dense_rule(ctx, p, K)
    unique_rule(ctx, p, K)
    delaunay_rule(ctx, p, K)
    rectangular_rule(ctx, p)
    wiring_rule(ctx, p)
    grids_rule(ctx, p)
    neighbors_rule(ctx, p, K)


_M = "autoarray/inversion/pixelization/mappers/mapper_util.py"
_MU = "autoarray/inversion/pixelization/mesh/mesh_util.py"
CONTROLS = [
    Control("right-edge pixels list the pixel to their right (which is in the next row)", _MU, in_func("rectangular_right_edge_neighbors", "                pixel_index - 1,\n", "                pixel_index + 1,\n"), "C06.neighbors"),
    Control("top-edge pixels lose their lower neighbour", _MU, in_func("rectangular_top_edge_neighbors", "[pixel_index - 1, pixel_index + 1, pixel_index + shape_native[1]]", "[pixel_index - 1, pixel_index + 1, pixel_index + shape_native[0]]"), "C06.neighbors"),
    Control("interior loop runs into the last row", _MU, in_func("rectangular_central_neighbors", "for x in range(1, shape_native[0] - 1):", "for x in range(1, shape_native[0]):"), "C06.neighbors"),
    Control("bottom-edge pixels report two neighbours", _MU, in_func("rectangular_bottom_edge_neighbors", "neighbors_sizes[pixel_index] = 3", "neighbors_sizes[pixel_index] = 2"), "C06.neighbors"),
    Control("left edge never filled in", _MU, in_func("rectangular_neighbors_from", "    neighbors, neighbors_sizes = rectangular_left_edge_neighbors(\n        neighbors=neighbors, neighbors_sizes=neighbors_sizes, shape_native=shape_native\n    )\n", ""), "C06.neighbors"),
    Control("Delaunay rows drop their last neighbour", "autoarray/structures/mesh/delaunay_2d.py", in_func("Mesh2DDelaunay.neighbors", "indices[indptr[k] : indptr[k + 1]]", "indices[indptr[k] : indptr[k + 1] - 1]"), "C06.neighbors"),
    Control("twin: interior neighbours listed in another order", _MU, in_func("rectangular_central_neighbors", "                    pixel_index - shape_native[1],\n                    pixel_index - 1,\n", "                    pixel_index - 1,\n                    pixel_index - shape_native[1],\n"), None, twin=True),
    Control("rectangular mapper keeps the un-relocated data grid (seed C06/3)", "autoarray/inversion/pixelization/mesh/rectangular.py", in_func("Rectangular.mapper_grids_from", "            source_plane_data_grid=relocated_grid,\n            source_plane_mesh_grid=mesh_grid,", "            source_plane_data_grid=source_plane_data_grid,\n            source_plane_mesh_grid=mesh_grid,"), "C06.grids"),
    Control("triangulation mesh built from the un-relocated grid", "autoarray/inversion/pixelization/mesh/triangulation.py", in_func("Triangulation.mapper_grids_from", "        source_plane_data_grid = self.relocated_grid_from(", "        relocated = self.relocated_grid_from("), "C06.grids"),
    Control("dense form uses the sub-pixel's own fraction index", _M, in_func("mapping_matrix_from", "sub_fraction[slim_index] * pix_weight", "sub_fraction[sub_slim_index] * pix_weight"), "C06.dense"),
    Control("dense form overwrites instead of accumulating", _M, in_func("mapping_matrix_from", "mapping_matrix[slim_index][pix_index] += (", "mapping_matrix[slim_index][pix_index] = ("), "C06.dense"),
    Control("running offset replaced by ip * sub^2 (seed C06/1)", _M, in_func("data_slim_to_pixelization_unique_from", "        ip_sub_end = ip_sub_start + sub_size[ip] ** 2", "        ip_sub_start = ip * sub_size[ip] ** 2\n        ip_sub_end = ip_sub_start + sub_size[ip] ** 2"), "C06.unique"),
    Control("repeat source pixel overwrites its weight", _M, in_func("data_slim_to_pixelization_unique_from", "data_weights[ip, int(pix_check[pix])] += (", "data_weights[ip, int(pix_check[pix])] = ("), "C06.unique"),
    Control("unique form forgets sub_fraction on first occurrence", _M, in_func("data_slim_to_pixelization_unique_from", "data_weights[ip, pix_size] += sub_fraction[ip] * pixel_weight", "data_weights[ip, pix_size] += pixel_weight"), "C06.unique"),
    Control("slot memory not cleared per data pixel", _M, in_func("data_slim_to_pixelization_unique_from", "        pix_check[:] = -1\n", ""), "C06.unique"),
    Control("hull test treats vertex 0 as missing (seed C06/2)", _M, in_func("pixel_weights_delaunay_from", "if pix_indexes[1] != -1:", "if pix_indexes[1] > 0:"), "C06.barycentric"),
    Control("weight 1 uses the wrong vertex pair", _M, in_func("pixel_weights_delaunay_from", "corner_0=vertices_of_the_simplex[0],\n                corner_1=vertices_of_the_simplex[2],", "corner_0=vertices_of_the_simplex[0],\n                corner_1=vertices_of_the_simplex[1],"), "C06.barycentric"),
    Control("normalisation misses one area", _M, in_func("pixel_weights_delaunay_from", "norm = area_0 + area_1 + area_2", "norm = area_0 + area_1"), "C06.barycentric"),
    Control("rectangular cell index without the mesh origin", "autoarray/inversion/pixelization/mappers/rectangular.py", in_func("MapperRectangular.pix_sub_weights", "            origin=self.source_plane_mesh_grid.origin,\n", ""), "C06.rectangular"),
    Control("unique form built from params of another table", "autoarray/inversion/pixelization/mappers/abstract.py", in_func("AbstractMapper.unique_mappings", "pix_weights_for_sub_slim_index=self.pix_weights_for_sub_slim_index,", "pix_weights_for_sub_slim_index=self.pix_sizes_for_sub_slim_index,"), "C06.wiring"),
    Control("twin: dense term factors swapped", _M, in_func("mapping_matrix_from", "sub_fraction[slim_index] * pix_weight", "pix_weight * sub_fraction[slim_index]"), None, twin=True),
]
